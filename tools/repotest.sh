#!/bin/sh
# Runs the repository's own test suite (hooks OFF) on a scratch copy of /repo's working tree
# and compares with the 190 stable tests of /root/.vp/BASELINE.json. Scratch copy removed afterwards.
set -e
export GOFLAGS=-mod=mod GOPROXY=off GOSUMDB=off GOTOOLCHAIN=local
D=$(mktemp -d /tmp/repotest.XXXXXX)
trap 'rm -rf "$D"' EXIT
rsync -a --exclude .git /repo/ "$D/repo/"
cd "$D/repo"
go test -json -vet=off -count=1 -timeout 25m ./... > "$D/out.json" 2>"$D/err.txt" || true
python3 - "$D/out.json" <<'PY'
import json,sys
base=json.load(open('/root/.vp/BASELINE.json'))
res={}
for l in open(sys.argv[1]):
    try: e=json.loads(l)
    except: continue
    if e.get('Test') and e.get('Action') in ('pass','fail','skip') and '/' not in e['Test']:
        res[e['Package']+'::'+e['Test']]=e['Action']
bad=[t for t in base['stable_pass'] if res.get(t)!='pass']
print("stable tests passing: %d/%d; total pass=%d fail=%d"%(len(base['stable_pass'])-len(bad),len(base['stable_pass']),sum(1 for v in res.values() if v=='pass'),sum(1 for v in res.values() if v=='fail')))
for t in bad: print("NOT PASSING:",t,res.get(t))
for t,v in res.items():
    if v=='fail' and t not in base['stable_pass']: print("other fail:",t)
sys.exit(1 if bad else 0)
PY
