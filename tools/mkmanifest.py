#!/usr/bin/env python3
"""Regenerates /verif/MANIFEST.json from the table below (kept next to the checks so the
manifest stays valid while checks are added)."""
import json, os
ROOT = os.path.dirname(os.path.dirname(os.path.abspath(__file__)))

# id -> (engine, level, technique, level text, level note, design_ref)
CHECKS = {
 "C02": ("codec", "exploration",
   "runtime monitor: differential oracle (reference encoder) + decode/re-encode byte equality + consumption accounting",
   "Runs value.NewValue / Value.Write on PRNG-generated dynamic values (every constructor, nested lists, opaque values of random composite signatures with nested m and o, size-cap cases): the written bytes must equal the reference encoding, decoding must consume exactly those bytes, keep the signature and re-encode identically. Held on the executions observed.",
   "Trusts harness/refcodec; top-level opaque values of signature m / v / X are outside the domain (no constructor, no well-formed data).", "DESIGN.md section 3 C02"),
 "C03": ("codec", "exploration",
   "runtime monitor: three-way differential oracle (reflection encoder vs reference codec vs signature reader vs reflection decoder)",
   "For PRNG-generated (signature, Go type, value) triples the reflection encoder's bytes are decoded by the reference decoder and compared with the reference bytes, fed to the signature-driven reader (must return exactly those bytes) and to the reflection decoder (must recover the value). Held on the executions observed.",
   "Trusts harness/refcodec; signalling-NaN payloads are not demanded (hardware quiets them in float32<->float64 conversion); containers above the decoder's 4096 cap are outside the domain.", "DESIGN.md section 3 C03"),
 "C08": ("codec", "exploration",
   "runtime monitor: every strict prefix of valid encodings fed to the real decoders, nil error is the violation",
   "Valid encodings of messages, dynamic values, typed data of random signatures (signature reader and reflection decoder), MetaObject, ObjectReference, ServiceInfo and CapabilityMap are cut at every position (len<=512) or at every length-field boundary +-1 plus random positions; each prefix must be refused. Held on the prefixes observed.",
   "Trusts harness/refcodec to produce valid encodings (cases whose full encoding the decoder rejects are counted, not judged).", "DESIGN.md section 3 C08"),
 "C09": ("codec", "exploration",
   "runtime monitor: round-trip and fixed-point oracles over generated grammar strings, mutants and random strings",
   "Every generated grammar signature must parse, print identically, have the reference IDL name and a structurally consistent Go type; every mutant / random string is either refused or is a print fixed point; panics are violations (recovered in-process, stack overflow caught as a child crash). Held on the strings observed.",
   "Trusts the reference printer and IDL naming in harness/refcodec; Go Type() is not compared for maps whose key Go cannot represent.", "DESIGN.md section 3 C09"),
 "C20": ("codec", "exploration",
   "runtime monitor: reference-conversion oracle over generated compatible type pairs, refusal oracle over incompatible pairs",
   "Generates structurally compatible (S,T) Go type pairs and values, runs ConvertFrom both ways and DecodeFrom, compares with a reference conversion written in the harness; incompatible pairs (bare and nested) must be refused. Held on the pairs observed.",
   "No verdict is asked for narrowing or cross-signedness integer conversions (the statement promises neither).", "DESIGN.md section 3 C20"),
 "C04": ("bus", "exploration",
   "runtime monitor: exactly-once / own-answer oracle over recorded call histories with unique tokens, callee-side execution counters, raw-frame injection with FIFO barriers; Go race detector",
   "Real directory server + freshly generated Probe service in-process; concurrent callers over several sessions (and two proxies of one bus.Cache), method bodies parked and released in PRNG order so replies cross, context cancellations, and a raw connection sending every message type at real actions. Every call must return exactly f(own token, own arg) or an error, with per-token execution counts 1 / <=1 / 0 as the property demands. Held on the histories observed (calls, max in flight and reply-order inversions are reported).",
   "Trusts the harness service implementation's counters and the per-connection FIFO + mailbox FIFO argument used as 'processed' barrier. Race reports are recorded, the verdict comes from the behavioural monitor.", "DESIGN.md section 3 C04"),
 "C05": ("codegen", "exploration",
   "runtime monitor of generated code: compile oracle (go build of freshly generated stubs/proxies) + reflection-driven round-trip oracle in a runner process over a real server and session; quiescence detector for calls/events that never arrive",
   "PRNG-generated well-formed IDL packages (three classes: plain, tuples, hygiene = hostile identifiers) are accepted by the real IDL parser, fed to the generator built from the current tree, completed with implementors/drivers derived from the generated interfaces (go/ast), compiled, and driven: for every method random arguments must arrive equal and exactly once and the preset result must return equal; every signal emitted through the helper must reach the generated subscriber equal; property set/get/update must round-trip. Held on the packages observed.",
   "Findings of the hygiene class are keyed by the role of the offending identifier (one root cause per role); several are listed in KNOWN_FINDINGS.txt because an existing test pins the unescaped names. Packages whose IDL my generator got wrong (parser rejects) are counted, not judged.", "DESIGN.md section 3 C05"),
 "C06": ("bus", "exploration",
   "runtime monitor: per-connection authentication-state shadow + per-token execution counters + raw-frame grammar; stream-end decided by quiescence detector; Go race detector",
   "A real server with a recording dictionary authenticator; 2-4 raw connections per plan send PRNG frame sequences (every type, service, object, action; capability-map variants incl. forged state, wrongly typed / raw-typed credentials, truncated, oversized; work() tokens unique per connection; invalid headers). A token sent before a well-formed authenticate with accepted credentials on that same connection must never execute; an unauthenticated Call to another service must get an Error for its id and the stream must end. Held on the sequences observed.",
   "The shadow state under-approximates 'authenticated' (only well-formed authenticate requests with accepted string credentials of a delivered message type count), so the oracle never demands more than the statement. Frames that overtake an authentication in progress are not judged.", "DESIGN.md section 3 C06"),
 "C07": ("codec", "exploration",
   "runtime monitor: per-input panic / allocation (runtime.MemStats TotalAlloc) / CPU-time (getrusage) accounting with an in-process resource guard; child-process crash attribution",
   "Feeds random bytes, valid encodings with every length/count/signature-length field replaced by hostile values, and hostile signatures to every decoder entry point (message, dynamic value, signature reader and reflection decoder for random signatures, MetaObject, ObjectReference, ServiceInfo, CapabilityMap, generated stub argument decoders through Receive, signature and IDL parsers); each input must return a value or an error within 64 MiB + 64 B/byte of allocation and 5 s of CPU. Held on the inputs observed.",
   "Inputs are <= 64 KiB; budgets are deliberately generous (largest legitimate single allocation is one 10 MiB cap). The directory stub's own argument decoders are reached through ReadServiceInfo and, over the wire, by C12.", "DESIGN.md section 3 C07"),
 "C10": ("bus", "exploration",
   "runtime monitor: exactly-once / per-sender-order / filter-subsequence oracle over received message logs; quiescence detector for loss; Go race detector",
   "N concurrent senders on one real endpoint over six transports (harness stream with yields, net.Pipe, unix, tcp, tls, fd-passing pipe); payload content and length are a keyed function of (sender, seq); the receiving endpoint's 'all' handler must see every message once, intact, per-sender in order, and every other handler exactly its filter applied to that arrival sequence. Held on the interleavings observed (sender switches at the receiver are counted).",
   "Queues are sized for the whole traffic (the property conditions on queue room). Loss is decided by process quiescence, not by a timeout.", "DESIGN.md section 3 C10"),
 "C11": ("bus", "fault_enumeration",
   "fault injection at every I/O operation of a scripted scenario on a harness stream + quiescence detector + callback/channel monitors; Go race detector",
   "Enumerates, for K in {1,3,8} concurrent calls plus one subscription and a disconnect callback, a fault (EOF / reset / short count + error) at every client-side I/O operation index, a peer close after every output byte count, a local Close() at every operation, (thorough) pairs of faults, and the early-reply schedule, each under whole and fragmented reads. Oracle: every call returns, success only with its own reply, later calls fail, events channel closed, callback exactly once. The enumeration over operation indexes is complete for these scenarios; schedules within a plan are sampled.",
   "The harness stream models a failed connection as failing all later operations and waking the pending read (like a reset socket). 'Never returns' is decided by process quiescence.", "DESIGN.md section 3 C11"),
 "C12": ("bus", "exploration",
   "runtime monitor of a server child process: liveness (exit / fatal error with stderr), probe calls from a fresh client on every object not legitimately removed, the child's own goroutine-state quiescence detector for 'blocked forever', CPU/RSS budgets from /proc; Go race detector on the child (reports are violations)",
   "The real directory server plus freshly generated Probe services run in a child process; one authenticated hostile client plays PRNG sequences of 18 move kinds (duplicate/conflicting/foreign subscriptions, wrong ids, garbage dynamic values, mutated ServiceInfo, unknown targets, all message types, payloads up to the limit, floods drained late or cut, mid-message disconnects, re-authentication racing calls, hostile length fields and signatures, documented removals, random bytes); afterwards a fresh connection must authenticate, list the directory and get f(token) from every object not legitimately removed. Held on the sequences observed.",
   "The hostile client always ends by closing its connection (a peer that neither reads nor disconnects is outside the statement). An object the sequence sent a well-formed terminate() to is treated as legitimately removed (not probed). A probe watchdog is inconclusive.", "DESIGN.md section 3 C12"),
 "C13": ("bus", "exploration",
   "runtime monitor: per-subscriber event logs checked for exactly-once / order / completeness against logical-clock-stamped emissions; missing events decided by quiescence detector; raw registerEvent/unregisterEvent connection with FIFO barrier; Go race detector",
   "Generated SubscribeTick/SubscribeOther subscribers on the same proxy, same connection and other connections, one emitter, PRNG interleavings incl. concurrent subscribe on one proxy with an emission right after the first return and cancel-of-last racing subscribe. Each subscriber must receive, strictly increasing and of its own signal only, every emission made entirely between its acknowledgement and its cancel request; its channel must close after cancel; on the raw connection no event may follow the unregister reply. Held on the interleavings observed.",
   "The harness requests a cancel only after the subscriber holds every emission made so far (events concurrent with subscribe/cancel are not demanded). One known finding (event of an in-progress emission after the unregister reply) is listed in KNOWN_FINDINGS.txt.", "DESIGN.md section 3 C13"),
 "C14": ("bus", "exploration",
   "offline linearizability checking (porcupine) of recorded get/set/update histories against a register model; change-event multiset monitor; quiescence detector; Go race detector",
   "3-6 clients over 1-3 sessions plus the service itself issue reads, valid writes, validator-rejected writes, wrongly typed generic setProperty calls and service-side updates on a freshly generated property; call/return stamps from one logical clock at the client boundary; porcupine checks each history against a register model in which rejected or wrongly typed writes must fail and change nothing and reads return the current value without error; each continuously subscribed reader must receive exactly the accepted values, each once. Held on the histories observed.",
   "Write values are unique, so reads identify the write they observed. A porcupine timeout is inconclusive. Event order relative to the linearization order is not demanded.", "DESIGN.md section 3 C14"),
 "C15": ("bus", "exploration",
   "runtime conformance against an executable sequential model (step-by-step) + offline linearizability checking (porcupine) of concurrent local+remote histories + wire-ordered event monitor; Go race detector (races in bus/directory are violations)",
   "Sequential: PRNG (and, thorough, exhaustive to length 3 over a 15-symbol alphabet) operation sequences with symbolic ids applied remotely and compared step by step with the model, ids never reused across sequences. Concurrent: 3-5 remote clients plus 1-2 local goroutines (Server.NewService, Service.Terminate) checked with porcupine against the same model; serviceAdded/serviceRemoved observed on one raw connection must be exactly one per successful ready / unregister-of-ready, added before removed. Held on the sequences and histories observed.",
   "Service.Terminate reports nothing, so the model lets it unregister-if-registered. A porcupine timeout is inconclusive.", "DESIGN.md section 3 C15"),
 "C16": ("bus", "exploration",
   "runtime monitor: per-object termination-hook counters, per-token execution counters, logical-clock stamps of removal acknowledgements; quiescence detector for subscriber notification; Go race detector",
   "Sequential then concurrent PRNG plans of Service.Add / call / SubscribeTick / Service.Remove / remote terminate() / repeated removal / calls after removal on a fresh Probe service. For every acknowledged removal: hook ran exactly once, calls and terminate started after the acknowledgement fail without reaching the object, subscribers acknowledged before the removal started get their channel closed, live objects keep answering. Held on the plans observed.",
   "Calls and subscriptions concurrent with a removal are not judged.", "DESIGN.md section 3 C16"),
 "C17": ("bus", "exploration",
   "runtime monitor: per-handler closer/queue-close counters with logical-clock stamps, monitor table updated atomically with MakeHandler; quiescence detector; child-crash detection; Go race detector (races in bus/net are violations)",
   "2-12 goroutines do PRNG-chosen MakeHandler / RemoveHandler / self-removing filters / peer frames / Close / peer close on one real endpoint over a harness stream. At quiescence every handler registered before shutdown has closer==1 then queue closed once, none is consulted after its closer, removing unknown or removed ids fails, ids are not handed out while held; panics (double close, send on closed channel) are child crashes; deadlocks are decided by process quiescence. Held on the interleavings observed.",
   "Closers and filters of the harness never call back into the endpoint (documented as forbidden).", "DESIGN.md section 3 C17"),
 "C19": ("bus", "exploration",
   "runtime monitor: counting listeners on the hosting servers (accepted/closed streams), per-request success and working-proxy check, child-crash detection, quiescence detector; Go race detector (races in bus/session are violations)",
   "Fresh sessions shared by 4-32 goroutines released through a barrier, requesting Proxy / Object for services behind the same and different endpoints of two hosting servers. The process must not crash, every request must succeed with a working proxy, and at quiescence the session holds at most one (exactly one if used) connection per hosting server. Rounds in which a server accepted >= 2 connections prove that the concurrent-dial path ran. Held on the rounds observed.",
   "Requests refused by the hosting server's load shedding ('consumer blocked': its 10-slot queue was full) are counted, not judged.", "DESIGN.md section 3 C19"),
 "C18": ("codec", "exploration",
   "runtime monitor: GenerateIDL/ParseIDL round-trip oracle over generated meta-object packages; panic/crash monitor over arbitrary text",
   "Generates packages of meta-objects (shared and nested structs, template-style names, tuples, all scalar kinds, m o X, uids up to 2^32-1), prints them with GenerateIDL, parses them back with ParseIDL and compares uids, names and signatures field by field; arbitrary text (random bytes, token soup, mutated valid IDL) must give a package or an error (panics recovered in-process, stack overflow seen as a child crash). Held on the packages and texts observed.",
   "Domain: signal/property signatures are tuples and uids are >= 1 (the IDL syntax cannot express the difference otherwise); struct names are consistent across a package.", "DESIGN.md section 3 C18"),
 "C01": ("codec", "exploration",
   "runtime monitor: reference-layout oracle + exact consumption accounting over fragmenting readers",
   "Runs the real Message.Write/Message.Read on PRNG-generated headers, payloads, fragmentations and message sequences; every written frame is compared byte for byte with an independent model of the documented layout and every read is checked for equality and exact consumption; invalid headers must be refused before any payload byte is requested. Held-on-observed-executions, not a proof.",
   "Trusts harness/refcodec (written from the protocol document) and the io.Reader contract of the harness fragmenting reader.", "DESIGN.md section 3 C01"),
}
NOT_BUILT = {}
for i in range(1, 21):
    pid = "C%02d" % i
    if pid not in CHECKS:
        NOT_BUILT[pid] = "check under construction in this session (runtime-monitoring design in DESIGN.md section 3); not claimed until its monitor runs clean on the unchanged tree"

m = {
 "version": 1,
 "setup_cmd": "./vf setup",
 "hooks": {
   "guard": "verif",
   "enable": "go build -tags verif (all harness workers are built with the tag). No in-tree hook exists: the -race workers are built with go build -overlay, which swaps package sync for harness/vsync (mutexes that yield or sleep at lock boundaries with probability VERIF_PERTURB) in build-time copies of the files of /repo's current working tree; /repo itself is not modified (DESIGN.md section 1.6)",
   "baseline_off_cmd": "cd /repo && GOFLAGS=-mod=mod GOPROXY=off GOSUMDB=off go test -json -vet=off -count=1 -timeout 25m ./...",
   "source_commits": [],
   "add_only": True,
 },
 "engines": [
   {"name": "codec", "path": "harness/cmd/codec", "serves_properties": ["C01","C02","C03","C07","C08","C09","C18","C20"],
    "kind_free_text": "in-process differential monitors of the real codecs against an independent reference codec; child process per shard, crash attribution by progress marks"},
   {"name": "codegen", "path": "harness/cmd/codegen", "serves_properties": ["C05"],
    "kind_free_text": "IDL package generator + generator-under-test + go build + runner process with reflection-based round-trip drivers (harness/c05rt)"},
   {"name": "bus", "path": "harness/cmd/bus", "serves_properties": ["C04","C06","C10","C11","C12","C13","C14","C15","C16","C17","C19"],
    "kind_free_text": "real endpoints / clients / servers run in-process under -race over harness-owned streams, listeners and service implementations; history and counter monitors; goroutine-state quiescence detector"},
 ],
 "checks": [],
 "not_applicable": [],
 "notes": "Technique family: runtime monitoring and sanitizers. ./vf check <id> <tier> rebuilds the worker from /repo's working tree, runs it in child processes, and prints VIOLATION / KNOWN-FINDING lines; exit 0 held, 1 violation, 2 harness broken / inconclusive (no VIOLATION line).",
}
for pid in sorted(CHECKS):
    eng, level, tech, text, note, ref = CHECKS[pid]
    m["checks"].append({
      "property_id": pid,
      "quick_cmd": "./vf check %s quick" % pid,
      "thorough_cmd": "./vf check %s thorough" % pid,
      "evidence_file": "/verif/evidence/%s.json" % pid,
      "replay_cmd_template": "./vf replay {path}",
      "engine": eng,
      "level_claimed": {"category": level, "text": text, "design_ref": ref},
      "level_note": note,
      "technique": tech,
    })
for pid in sorted(NOT_BUILT):
    m["not_applicable"].append({"property_id": pid, "reason": NOT_BUILT[pid]})
json.dump(m, open(os.path.join(ROOT, "MANIFEST.json"), "w"), indent=1)
print("MANIFEST.json: %d checks, %d not claimed" % (len(m["checks"]), len(m["not_applicable"])))
