#!/bin/bash
# usage: tools/seedregress.sh <parallelism> <seeded-dir> ...    e.g. tools/seedregress.sh 4 C02 C02-2 C08-7
# Regression over stored seeded changes WITHOUT touching /repo: each change is applied in a scratch
# worktree of /repo's HEAD and the quick check of its property is run from a scratch copy of /verif whose
# module replacement points at that worktree (as tools/seedtry.sh). Prints one line per change:
# "<dir> caught|MISSED|noapply". The recorded confirmations in meta.json are not modified.
P=$1; shift
one() {
  D=$1; CHK=${D%%-*}
  WT=/tmp/regress/wt.$D; V=/tmp/regress/v.$D
  rm -rf $V; git -C /repo worktree remove --force $WT 2>/dev/null
  git -C /repo worktree add -q --detach $WT HEAD || { echo "$D noworktree"; return; }
  if ! git -C $WT apply /verif/seeded/$D/patch.diff 2>/dev/null; then echo "$D noapply"; git -C /repo worktree remove --force $WT; return; fi
  mkdir -p $V; rsync -a --exclude build --exclude replay --exclude .git --exclude seeded /verif/ $V/
  sed -i "s#=> /repo#=> $WT#" $V/harness/go.mod
  ( cd $V && VERIF_NO_EVIDENCE=1 ./vf check $CHK quick > $V.log 2>&1 ); C=$?
  if [ $C = 1 ]; then echo "$D caught"; elif [ $C = 0 ]; then echo "$D MISSED"; else echo "$D exit=$C"; fi
  rm -rf $V $V.log; git -C /repo worktree remove --force $WT
}
export -f one
mkdir -p /tmp/regress
printf '%s\n' "$@" | xargs -P $P -I{} bash -c 'one {}'
git -C /repo worktree prune
