#!/bin/bash
# usage: tools/seedcheck.sh <id> [check-id]
# Confirms a sub-agent's seeded change in its scratch worktree (suite passes with it, demo fails
# with it and passes without it), stores it under /verif/seeded/<id>/, then runs the quick check
# of the property against it (applied to /repo and reverted straight afterwards).
ID=$1; CHK=${2:-$1}; ROUND=${ROUND:-1}; if [ "$ROUND" = 1 ]; then WT=/tmp/seed/$ID; OUT=$ID; else WT=/tmp/seed$ROUND/$ID; OUT=$ID-$ROUND; fi; mkdir -p /tmp/seed
export GOFLAGS=-mod=mod GOPROXY=off GOSUMDB=off GOTOOLCHAIN=local
[ -f $WT/SEED/patch.diff ] || { echo "no patch for $ID"; exit 1; }
cd $WT
DEMO=$(python3 -c "import json;print(json.load(open('SEED/meta.json'))['demo_cmd'])")
echo "demo: $DEMO"
git checkout -q go.mod go.sum 2>/dev/null
# 1. demo with the change
( eval "$DEMO" ) > /tmp/seed/$ID.with.log 2>&1; W=$?
# 2. demo without the change
# (no git stash: the stash is shared by all worktrees of the repository)
git checkout -q go.mod go.sum 2>/dev/null; git apply -R SEED/patch.diff
( eval "$DEMO" ) > /tmp/seed/$ID.without.log 2>&1; WO=$?
git checkout -q go.mod go.sum 2>/dev/null; git apply SEED/patch.diff
# 3. suite with the change, demo moved aside
DEMOFILES=$(git status --porcelain | grep '^??' | awk '{print $2}' | grep -v '^SEED' | grep '_test.go$')
mkdir -p /tmp/seed/aside.$ID; mv SEED /tmp/seed/aside.$ID/SEED; for f in $DEMOFILES; do mv $f /tmp/seed/aside.$ID/$(echo $f | tr / _); done
go build ./... > /tmp/seed/$ID.suite.log 2>&1 && go test -vet=off -count=1 ./... >> /tmp/seed/$ID.suite.log 2>&1; S=$?
for f in $DEMOFILES; do mv /tmp/seed/aside.$ID/$(echo $f | tr / _) $f; done; mv /tmp/seed/aside.$ID/SEED SEED
git checkout -q go.mod go.sum 2>/dev/null
FAILS=$(grep -c "^FAIL\|^--- FAIL" /tmp/seed/$ID.suite.log)
echo "demo with change exit=$W (want !=0), without exit=$WO (want 0), suite exit=$S failing lines=$FAILS"
grep "^--- FAIL\|^FAIL" /tmp/seed/$ID.suite.log | head -5
mkdir -p /verif/seeded/$OUT && cp -r $WT/SEED/* /verif/seeded/$OUT/
# 4. my check against it
if [ -n "$SKIPCHECK" ]; then
  # confirmation only (may run in parallel with others): the check is run afterwards by tools/seedrecheck.sh
  : > /tmp/seed/$ID.check.log; C=-1
else
cd /verif && git -C /repo apply $WT/SEED/patch.diff && VERIF_NO_EVIDENCE=1 ./vf check $CHK quick > /tmp/seed/$ID.check.log 2>&1; C=$?
git -C /repo checkout -- . ; git -C /repo status --short | head -3
fi
echo "check $CHK exit=$C"; grep -v "^KNOWN" /tmp/seed/$ID.check.log | grep "VIOLATION\|key=\|^C[0-9]\|BROKEN" | head -8
python3 - "$ID" "$CHK" "$W" "$WO" "$S" "$C" "$OUT" <<'PY'
import json,sys
i,chk,w,wo,s,c,out=sys.argv[1:]
p='/verif/seeded/%s/meta.json'%out
m=json.load(open(p))
keys=[l.strip()[4:] for l in open('/tmp/seed/%s.check.log'%i) if l.strip().startswith('key=')]
m['confirmed_by_harness_author']={'demo_exit_with_change':int(w),'demo_exit_without_change':int(wo),'suite_exit_with_change':int(s),
  'check_run':'git -C /repo apply patch.diff && ./vf check %s quick && git -C /repo checkout -- .'%chk,'check_exit':int(c),'check_keys':keys[:6]}
json.dump(m,open(p,'w'),indent=1)
PY
