#!/bin/sh
# usage: tools/mutant.sh <property> <file-in-repo> <python-replace-old> <python-replace-new>
# Applies a textual mutation to /repo, runs the quick check, reverts. For self-validation only.
P=$1; F=$2
python3 - "$F" "$3" "$4" <<'PY'
import sys
p='/repo/'+sys.argv[1]; s=open(p).read()
old=sys.argv[2].encode().decode('unicode_escape'); new=sys.argv[3].encode().decode('unicode_escape')
assert old in s, "pattern not found"
open(p,'w').write(s.replace(old,new,1))
PY
[ $? -eq 0 ] || exit 9
cd /verif && VERIF_NO_EVIDENCE=1 ./vf check $P quick 2>&1 | grep -v "^  " | tail -${TAILN:-6}
git -C /repo checkout -- . 
