#!/bin/bash
# usage: tools/seedtry.sh <worktree-with-the-change> <check-id> [tier]
# Triage helper: runs a check against a scratch worktree of lugu/qiloop WITHOUT touching /repo
# (copy of /verif under /tmp with the module replacement pointing at the worktree). Used while a long
# run on /repo is in progress; the recorded confirmation still uses tools/seedcheck.sh (patch applied
# to /repo, reverted straight afterwards).
WT=$1; CHK=$2; TIER=${3:-quick}
V=/tmp/vseed/$CHK.$$; mkdir -p $V
rsync -a --exclude build --exclude replay --exclude .git --exclude seeded /verif/ $V/
sed -i "s#=> /repo#=> $WT#" $V/harness/go.mod
( cd $V && VERIF_NO_EVIDENCE=1 ./vf check $CHK $TIER 2>&1 | grep -a -v "^KNOWN" | grep -a "VIOLATION\|key=\|^C[0-9]\|BROKEN" | head -10 )
rm -rf $V
