#!/usr/bin/env python3
"""Prints the markdown table of the seeded changes of one round (DESIGN.md section 9).
usage: tools/seedtable.py [round]   (round 1 = seeded/Cxx, round n = seeded/Cxx-n)"""
import json, os, re, sys

rnd = sys.argv[1] if len(sys.argv) > 1 else "1"
root = os.path.join(os.path.dirname(os.path.abspath(__file__)), "..", "seeded")
rows = []
for d in sorted(os.listdir(root)):
    m = re.fullmatch(r"(C\d\d)(?:-(\d+))?", d)
    if not m or (m.group(2) or "1") != rnd:
        continue
    meta = json.load(open(os.path.join(root, d, "meta.json")))
    conf = meta.get("confirmed_by_harness_author", {})
    clip = lambda s, n: (s[:n] + "...") if len(s) > n else s
    keys = ", ".join("`%s`" % k.split(" ")[0] for k in conf.get("check_keys", [])[:2]) or "(exit %s)" % conf.get("check_exit")
    rows.append("| %s | %s | %s | %s |" % (m.group(1), clip(meta.get("summary", "").replace("|", "/").replace("\n", " "), 230),
                                        clip(meta.get("needs", "").replace("|", "/").replace("\n", " "), 160), keys))
print("| Property | Seeded change | Needs | Caught by quick check as |")
print("|---|---|---|---|")
print("\n".join(rows))
