#!/bin/bash
# usage: tools/seedrecheck.sh <seeded-dir-name> [tier]     e.g. tools/seedrecheck.sh C15-11
# Re-runs the check of a stored seeded change (patch applied to /repo, reverted straight afterwards)
# and records the outcome in its meta.json (fields check_exit / check_keys of confirmed_by_harness_author).
D=$1; TIER=${2:-quick}; CHK=${D%%-*}
P=/verif/seeded/$D/patch.diff
[ -f $P ] || { echo "no such seeded change: $D"; exit 1; }
mkdir -p /tmp/seed
cd /verif && git -C /repo apply $P || { echo "$D: patch does not apply"; exit 1; }
VERIF_NO_EVIDENCE=1 ./vf check $CHK $TIER > /tmp/seed/$D.check.log 2>&1; C=$?
git -C /repo checkout -- . ; git -C /repo status --short | head -3
echo "$D: check $CHK $TIER exit=$C"; grep -a -v "^KNOWN" /tmp/seed/$D.check.log | grep -a "key=\|^C[0-9]\|BROKEN" | head -6
python3 - "$D" "$CHK" "$C" "$TIER" <<'PY'
import json,sys
d,chk,c,tier=sys.argv[1:]
p='/verif/seeded/%s/meta.json'%d
m=json.load(open(p))
keys=[l.strip()[4:] for l in open('/tmp/seed/%s.check.log'%d,errors='replace') if l.strip().startswith('key=')]
conf=m.setdefault('confirmed_by_harness_author',{})
conf.update({'check_run':'git -C /repo apply patch.diff && ./vf check %s %s && git -C /repo checkout -- .'%(chk,tier),'check_exit':int(c),'check_keys':keys[:6]})
json.dump(m,open(p,'w'),indent=1)
PY
