// Package wk is the worker-side framework: deterministic per-case PRNGs,
// crash-safe progress marks, violation / sample / coverage reporting.
package wk

import (
	"bufio"
	"encoding/binary"
	"encoding/json"
	"flag"
	"fmt"
	"hash/fnv"
	"io/ioutil"
	"math/rand"
	"os"
	"regexp"
	"runtime"
	"strconv"
	"strings"
	"sync"
	"syscall"
	"time"

	"verif/vsync"
)

// Ctx is one worker invocation (one shard segment of one property check).
type Ctx struct {
	Prop    string
	Tier    string
	Seed    int64
	Shard   int
	NShards int
	From    int // first case index (global) to run
	Only    int // if >=0 run only this case
	OutDir  string
	Verbose bool

	mu        sync.Mutex
	out       *bufio.Writer
	outFile   *os.File
	progress  *os.File
	hashFile  *bufio.Writer
	hashF     *os.File
	seen      map[uint64]struct{}
	counters  map[string]int64
	samples   []interface{}
	samplePer map[string]int
	sampleCap int
	evals     int64
	viols     int64
	incon     int64
	lastSnap  time.Time
	violKeys  map[string]int
	notes     map[string]string

	caseStart   time.Time
	caseStream  string
	caseIdx     int
	guardMu     sync.Mutex
	guardKey    string
	guardStream string
	guardCase   int
	guardWhat   string
	guardCPU    time.Duration

	onlyStream  string
	fromStream  string
	fromReached bool

	sinceRecycleCheck int

	// NoViolationCap disables the "stop after 40 violations" rule (engines whose known findings are many).
	NoViolationCap bool
}

// Thorough reports whether the thorough tier was requested.
func (c *Ctx) Thorough() bool { return c.Tier == "thorough" }

// Pick returns q for quick and t for thorough.
func (c *Ctx) Pick(q, t int) int {
	if c.Thorough() {
		return t
	}
	return q
}

// Parse builds a Ctx from command-line arguments (after the property id).
func Parse(prop string, args []string) *Ctx {
	fs := flag.NewFlagSet(prop, flag.ExitOnError)
	c := &Ctx{Prop: prop}
	fs.StringVar(&c.Tier, "tier", "quick", "")
	fs.Int64Var(&c.Seed, "seed", 1, "")
	fs.IntVar(&c.Shard, "shard", 0, "")
	fs.IntVar(&c.NShards, "nshards", 1, "")
	fs.IntVar(&c.From, "from", 0, "")
	fs.IntVar(&c.Only, "case", -1, "")
	fs.StringVar(&c.OutDir, "out", "", "")
	fs.BoolVar(&c.Verbose, "v", false, "")
	seg := fs.Int("seg", 0, "")
	fs.StringVar(&c.onlyStream, "stream", "", "")
	fs.StringVar(&c.fromStream, "fromstream", "", "")
	fs.Parse(args)
	c.seen = map[uint64]struct{}{}
	c.counters = map[string]int64{}
	c.violKeys = map[string]int{}
	c.notes = map[string]string{}
	c.sampleCap = 6
	if c.OutDir != "" {
		base := fmt.Sprintf("%s/s%02d.%03d", c.OutDir, c.Shard, *seg)
		f, err := os.Create(base + ".jsonl")
		if err != nil {
			panic(err)
		}
		c.outFile = f
		c.out = bufio.NewWriter(f)
		p, err := os.Create(base + ".progress")
		if err != nil {
			panic(err)
		}
		c.progress = p
		h, err := os.Create(base + ".hashes")
		if err != nil {
			panic(err)
		}
		c.hashF = h
		c.hashFile = bufio.NewWriter(h)
	} else {
		c.out = bufio.NewWriter(os.Stdout)
	}
	c.caseWatchdog(8 * time.Minute)
	return c
}

// Hash64 hashes strings into a uint64.
func Hash64(parts ...interface{}) uint64 {
	h := fnv.New64a()
	for _, p := range parts {
		fmt.Fprintf(h, "%v\x00", p)
	}
	return h.Sum64()
}

// Rng returns the PRNG of case i: a function of (seed, property, stream, i) only.
func (c *Ctx) Rng(stream string, i int) *rand.Rand {
	return rand.New(rand.NewSource(int64(Hash64(c.Seed, c.Prop, stream, i))))
}

func (c *Ctx) emit(m map[string]interface{}) {
	b, err := json.Marshal(m)
	if err != nil {
		b, _ = json.Marshal(map[string]interface{}{"t": "err", "err": err.Error()})
	}
	c.out.Write(b)
	c.out.WriteByte('\n')
}

// caseWatchdog ends the worker (exit 4, goroutine dump on stderr) when one case has been running
// for longer than limit: the case is inconclusive and the driver resumes after it.
func (c *Ctx) caseWatchdog(limit time.Duration) {
	go func() {
		for {
			time.Sleep(5 * time.Second)
			c.mu.Lock()
			started, stream, idx := c.caseStart, c.caseStream, c.caseIdx
			c.mu.Unlock()
			if started.IsZero() || time.Since(started) < limit {
				continue
			}
			c.Inconclusive(stream, idx, fmt.Sprintf("case watchdog: still running after %s", limit))
			c.mu.Lock()
			c.snapLocked(false)
			c.mu.Unlock()
			buf := make([]byte, 1<<20)
			n := runtime.Stack(buf, true)
			fmt.Fprintf(os.Stderr, "CASE-WATCHDOG %s#%d\n%s\n", stream, idx, buf[:n])
			os.Exit(4)
		}
	}()
}

// Mark records that case i is about to run (crash attribution).
func (c *Ctx) Mark(i int, stream string) {
	c.mu.Lock()
	c.caseStart, c.caseStream, c.caseIdx = time.Now(), stream, i
	c.mu.Unlock()
	if c.progress != nil {
		var b [64]byte
		binary.LittleEndian.PutUint64(b[:8], uint64(i))
		copy(b[8:], stream)
		c.progress.WriteAt(b[:], 0)
	}
}

// Cases runs fn for every case index of stream `stream` in [0,n) that belongs
// to this shard. Each case gets its own PRNG. A stream is a named family of
// cases; the (stream, index) pair identifies a case for replay.
func (c *Ctx) Cases(stream string, n int, fn func(i int, rng *rand.Rand)) {
	if c.Only >= 0 && c.onlyStream != "" && c.onlyStream != stream {
		return
	}
	from := 0
	if c.fromStream != "" && !c.fromReached {
		// resuming after a crash: skip the streams before the crashed one
		if stream != c.fromStream {
			return
		}
		c.fromReached = true
		from = c.From
	}
	for i := from; i < n; i++ {
		if c.Only >= 0 {
			if i != c.Only {
				continue
			}
		} else if i%c.NShards != c.Shard {
			continue
		}
		c.mu.Lock()
		tooMany := c.viols >= 40 && !c.NoViolationCap
		c.mu.Unlock()
		if tooMany {
			// enough witnesses: do not spend the budget re-detecting the same failure
			c.Count("cases_skipped_after_40_violations", 1)
			continue
		}
		c.Mark(i, stream)
		c.mu.Lock()
		c.evals++
		c.mu.Unlock()
		fn(i, c.Rng(stream, i))
		c.maybeSnap()
		c.sinceRecycleCheck++
		if c.Only < 0 && c.sinceRecycleCheck >= 32 {
			c.sinceRecycleCheck = 0
			if rss := rssMiB(); rss > recycleMiB() {
				// long runs of the bus engines accumulate memory (goroutines parked for ever by seeded hangs,
				// race-detector shadow state): hand over to a fresh process, the driver resumes at the next case
				c.Max("max_rss_mib_before_recycling", int64(rss))
				c.mu.Lock()
				c.snapLocked(false)
				c.mu.Unlock()
				fmt.Fprintf(os.Stderr, "RECYCLE-EXIT rss=%dMiB after %s#%d\n", rss, stream, i)
				os.Exit(6)
			}
		}
	}
	c.Max("max_goroutines_after_a_stream", int64(runtime.NumGoroutine()))
	if os.Getenv("VERIF_DUMP_GOROUTINES") != "" {
		buf := make([]byte, 64<<20)
		n := runtime.Stack(buf, true)
		ioutil.WriteFile(fmt.Sprintf("/tmp/goroutines.%s.%s.%d.txt", c.Prop, stream, c.Shard), buf[:n], 0644)
	}
}

// rssMiB reads the resident set size of the process from /proc.
func rssMiB() int {
	b, err := ioutil.ReadFile("/proc/self/statm")
	if err != nil {
		return 0
	}
	f := strings.Fields(string(b))
	if len(f) < 2 {
		return 0
	}
	pages, _ := strconv.Atoi(f[1])
	return pages * os.Getpagesize() >> 20
}

func recycleMiB() int {
	if v, err := strconv.Atoi(os.Getenv("VERIF_RECYCLE_MIB")); err == nil && v > 0 {
		return v
	}
	return 1536
}

// Eval counts one more evaluation (for engines that do several per case).
func (c *Ctx) Eval(n int) {
	c.mu.Lock()
	c.evals += int64(n)
	c.mu.Unlock()
}

// Viol reports a violation. key identifies the failing site/kind (matched
// against KNOWN_FINDINGS); what is a one-line description.
func (c *Ctx) Viol(stream string, i int, key, what string, detail interface{}) {
	c.mu.Lock()
	defer c.mu.Unlock()
	c.viols++
	c.violKeys[key]++
	if c.violKeys[key] > 5 { // keep the log small: first 5 witnesses per key
		return
	}
	c.emit(map[string]interface{}{"t": "viol", "stream": stream, "case": i, "key": key, "what": what, "detail": detail})
	c.out.Flush()
}

// Inconclusive counts a case that could not be decided.
func (c *Ctx) Inconclusive(stream string, i int, why string) {
	c.mu.Lock()
	defer c.mu.Unlock()
	c.incon++
	if c.incon <= 5 {
		c.emit(map[string]interface{}{"t": "incon", "stream": stream, "case": i, "why": why})
	}
}

// Nontrivial records a distinct non-trivial case by hash.
func (c *Ctx) Nontrivial(h uint64) {
	c.mu.Lock()
	defer c.mu.Unlock()
	if _, ok := c.seen[h]; ok {
		return
	}
	c.seen[h] = struct{}{}
	if c.hashFile != nil {
		var b [8]byte
		binary.LittleEndian.PutUint64(b[:], h)
		c.hashFile.Write(b[:])
	}
}

// Count adds to a named counter (reported in evidence).
func (c *Ctx) Count(name string, d int64) {
	c.mu.Lock()
	c.counters[name] += d
	c.mu.Unlock()
}

// Max keeps the maximum of a named counter.
func (c *Ctx) Max(name string, v int64) {
	c.mu.Lock()
	if v > c.counters[name] {
		c.counters[name] = v
	}
	c.mu.Unlock()
}

// Abandon ends the worker process after a case whose violation has been reported left the process in a
// state that cannot be cleaned up (goroutines blocked for ever inside the code under test): the driver
// resumes with the next case in a fresh process.
func (c *Ctx) Abandon(why string) {
	c.mu.Lock()
	c.snapLocked(false)
	c.mu.Unlock()
	fmt.Fprintf(os.Stderr, "GUARD-EXIT abandoned after a reported case: %s\n", why)
	os.Exit(3)
}

// Note sets a free-text note (reported in evidence).
func (c *Ctx) Note(name, v string) {
	c.mu.Lock()
	c.notes[name] = v
	c.mu.Unlock()
}

// Sample keeps a few actual cases for the evidence file.
func (c *Ctx) Sample(v interface{}) {
	c.mu.Lock()
	defer c.mu.Unlock()
	// at most 2 samples per stream, so that every stream of a check shows up in the evidence
	key := ""
	if m, ok := v.(map[string]interface{}); ok {
		if s, ok := m["stream"].(string); ok {
			key = s
		}
	}
	if c.samplePer == nil {
		c.samplePer = map[string]int{}
	}
	if c.samplePer[key] >= 2 && key != "" || len(c.samples) >= 12 {
		return
	}
	if key == "" && c.samplePer[key] >= c.sampleCap {
		return
	}
	c.samplePer[key]++
	c.samples = append(c.samples, v)
}

// WantSample reports whether more samples are wanted.
func (c *Ctx) WantSample() bool {
	c.mu.Lock()
	defer c.mu.Unlock()
	return len(c.samples) < 12
}

func (c *Ctx) snapLocked(final bool) {
	if y, s, l := vsync.Stats(); y+s+l > 0 {
		// perturbations injected so far at the lock boundaries of lugu/qiloop's bus packages (approximate:
		// the hook counts without synchronization so as not to hide races from the race detector)
		c.counters["lock_boundary_yields"] = int64(y)
		c.counters["lock_boundary_short_sleeps"] = int64(s)
		c.counters["lock_boundary_long_sleeps"] = int64(l)
	}
	m := map[string]interface{}{"t": "snap", "evals": c.evals, "viols": c.viols, "incon": c.incon,
		"distinct": len(c.seen), "counters": c.counters, "samples": c.samples, "notes": c.notes, "violkeys": c.violKeys}
	if final {
		m["t"] = "done"
	}
	c.emit(m)
	c.out.Flush()
	if c.hashFile != nil {
		c.hashFile.Flush()
	}
}

func (c *Ctx) maybeSnap() {
	c.mu.Lock()
	defer c.mu.Unlock()
	if time.Since(c.lastSnap) > 500*time.Millisecond {
		c.lastSnap = time.Now()
		c.snapLocked(false)
	}
}

// Snap forces a snapshot (before a risky operation).
func (c *Ctx) Snap() {
	c.mu.Lock()
	defer c.mu.Unlock()
	c.snapLocked(false)
}

// Done writes the final record.
func (c *Ctx) Done() {
	c.mu.Lock()
	defer c.mu.Unlock()
	c.snapLocked(true)
	if c.outFile != nil {
		c.outFile.Close()
	}
}

// Guard starts a watchdog that ends the process (exit 3) when the case in
// progress exceeds the heap limit or the CPU budget. Before exiting it emits the
// violation itself, with the key announced through SetGuardKey, so that the
// finding has the same key whether it was caught by the in-line accounting or
// by the guard. The driver restarts the shard after the case.
func (c *Ctx) Guard(heapLimit uint64, cpuBudget time.Duration) {
	go func() {
		var ms runtime.MemStats
		for {
			time.Sleep(100 * time.Millisecond)
			runtime.ReadMemStats(&ms)
			c.guardMu.Lock()
			key, stream, idx, what, start := c.guardKey, c.guardStream, c.guardCase, c.guardWhat, c.guardCPU
			c.guardMu.Unlock()
			if key == "" {
				continue
			}
			kind := ""
			if ms.HeapInuse > heapLimit {
				kind = fmt.Sprintf("memory: heap in use %d MiB", ms.HeapInuse>>20)
				key += "/kind=alloc"
			} else if cpu := CPUTime() - start; cpu > cpuBudget {
				kind = fmt.Sprintf("cpu: %.1fs of CPU time and still running", cpu.Seconds())
				key += "/kind=cpu"
			}
			if kind == "" {
				continue
			}
			buf := make([]byte, 1<<16)
			n := runtime.Stack(buf, true)
			c.Viol(stream, idx, key, what+" exceeded the resource budget ("+kind+")", map[string]interface{}{"guard": kind, "stacks": string(buf[:n])})
			c.mu.Lock()
			c.snapLocked(false)
			c.mu.Unlock()
			fmt.Fprintf(os.Stderr, "GUARD-EXIT %s\n", kind)
			os.Exit(3)
		}
	}()
}

// SetGuardKey announces the case in progress to the guard ("" = none).
func (c *Ctx) SetGuardKey(stream string, i int, key, what string) {
	c.guardMu.Lock()
	c.guardKey, c.guardStream, c.guardCase, c.guardWhat = key, stream, i, what
	if key != "" {
		c.guardCPU = CPUTime()
	}
	c.guardMu.Unlock()
}

// CPUTime returns the process CPU time (user+system), load independent.
func CPUTime() time.Duration {
	var ru syscall.Rusage
	syscall.Getrusage(syscall.RUSAGE_SELF, &ru)
	return time.Duration(ru.Utime.Nano() + ru.Stime.Nano())
}

// PanicSite extracts "pkg.func" of the innermost qiloop frame from a stack.
func PanicSite(stack string) string {
	lines := strings.Split(stack, "\n")
	for _, l := range lines {
		l = strings.TrimSpace(l)
		if strings.HasPrefix(l, "github.com/lugu/qiloop/") {
			l = strings.TrimPrefix(l, "github.com/lugu/qiloop/")
			if k := strings.LastIndex(l, "("); k > 0 {
				l = l[:k]
			}
			return l
		}
	}
	return "unknown"
}

// Try runs f and converts a panic into (stack, panic value).
func Try(f func()) (pv interface{}, stack string) {
	defer func() {
		if r := recover(); r != nil {
			pv = r
			buf := make([]byte, 16<<10)
			n := runtime.Stack(buf, false)
			stack = string(buf[:n])
		}
	}()
	f()
	return nil, ""
}

// Try2 runs f and reports whether it panicked.
func Try2(f func()) (panicked bool) {
	pv, _ := Try(f)
	return pv != nil
}

var reNumWk = regexp.MustCompile(`0x[0-9a-f]+|\d+`)

// ClassifyCrash extracts (kind, normalized message, innermost qiloop frame) from the stderr of a crashed Go process.
func ClassifyCrash(stderr string) (kind, msg, site string) {
	lines := strings.Split(stderr, "\n")
	for i, l := range lines {
		if strings.HasPrefix(l, "panic: ") || strings.HasPrefix(l, "fatal error: ") {
			kind = "panic"
			if strings.HasPrefix(l, "fatal error: ") {
				kind = "fatal"
			}
			msg = reNumWk.ReplaceAllString(l, "N")
			msg = strings.Map(func(r rune) rune {
				if r == ' ' || r == '\t' {
					return '_'
				}
				return r
			}, msg)
			if len(msg) > 90 {
				msg = msg[:90]
			}
			rest := strings.Join(lines[i:], "\n")
			blocks := strings.SplitN(rest, "\n\n", 3)
			search := rest
			if len(blocks) >= 2 {
				search = blocks[0] + "\n\n" + blocks[1]
			}
			site = PanicSite(search)
			return
		}
	}
	return "", "", ""
}
