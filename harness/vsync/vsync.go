// Package vsync stands for package sync in lugu/qiloop's sources when the workers of the
// concurrency engines are built (see cmd/driver/overlay.go: go build -overlay, no change to the
// repository). Mutex and RWMutex wrap the mutexes of the standard library and, with the probability
// given by the environment variable VERIF_PERTURB (per thousand, default 0), yield the processor or
// sleep for a short while before a lock is taken and after it is released. A goroutine may lose its
// processor at any instruction, so no interleaving is added which the program could not have anyway;
// the ones in which something happens between two critical sections just become frequent. The
// happens-before relation seen by the race detector is that of the wrapped mutexes: the random source
// is the runtime's per-thread generator and the counters are updated without synchronization on
// purpose (an atomic counter would order otherwise unordered accesses and hide races).
package vsync

import (
	"math/rand/v2"
	"os"
	"runtime"
	"strconv"
	"sync"
	"time"
)

var permille uint64

var counters [3]uint64

func init() {
	n, err := strconv.Atoi(os.Getenv("VERIF_PERTURB"))
	if err == nil && n > 0 {
		permille = uint64(n)
	}
}

// Stats returns (approximately) the number of perturbations injected
// so far.
//
//go:norace
func Stats() (yields, shortSleeps, longSleeps uint64) {
	return counters[0], counters[1], counters[2]
}

//go:norace
func perturb() {
	if permille == 0 {
		return
	}
	r := rand.Uint64()
	if r%1000 >= permille {
		return
	}
	switch (r >> 32) % 8 {
	case 0, 1, 2, 3:
		counters[0]++
		runtime.Gosched()
	case 4, 5, 6:
		counters[1]++
		time.Sleep(time.Duration(1+(r>>40)%200) * time.Microsecond)
	default:
		counters[2]++
		time.Sleep(time.Duration(1+(r>>40)%3) * time.Millisecond)
	}
}

// Mutex is a sync.Mutex with perturbed Lock and Unlock.
type Mutex struct {
	m sync.Mutex
}

// Lock locks m.
func (m *Mutex) Lock() {
	perturb()
	m.m.Lock()
}

// TryLock tries to lock m.
func (m *Mutex) TryLock() bool {
	return m.m.TryLock()
}

// Unlock unlocks m.
func (m *Mutex) Unlock() {
	m.m.Unlock()
	perturb()
}

// RWMutex is a sync.RWMutex with perturbed operations.
type RWMutex struct {
	m sync.RWMutex
}

// Lock locks rw for writing.
func (rw *RWMutex) Lock() {
	perturb()
	rw.m.Lock()
}

// TryLock tries to lock rw for writing.
func (rw *RWMutex) TryLock() bool {
	return rw.m.TryLock()
}

// Unlock unlocks rw for writing.
func (rw *RWMutex) Unlock() {
	rw.m.Unlock()
	perturb()
}

// RLock locks rw for reading.
func (rw *RWMutex) RLock() {
	perturb()
	rw.m.RLock()
}

// TryRLock tries to lock rw for reading.
func (rw *RWMutex) TryRLock() bool {
	return rw.m.TryRLock()
}

// RUnlock undoes a single RLock call.
func (rw *RWMutex) RUnlock() {
	rw.m.RUnlock()
	perturb()
}

// RLocker returns a Locker that calls rw.RLock and rw.RUnlock.
func (rw *RWMutex) RLocker() Locker {
	return (*rlocker)(rw)
}

type rlocker RWMutex

func (r *rlocker) Lock()   { (*RWMutex)(r).RLock() }
func (r *rlocker) Unlock() { (*RWMutex)(r).RUnlock() }

// WaitGroup is sync.WaitGroup.
type WaitGroup = sync.WaitGroup

// Once is sync.Once.
type Once = sync.Once

// Cond is sync.Cond.
type Cond = sync.Cond

// Locker is sync.Locker.
type Locker = sync.Locker

// Map is sync.Map.
type Map = sync.Map

// Pool is sync.Pool.
type Pool = sync.Pool

// NewCond is sync.NewCond.
func NewCond(l Locker) *Cond {
	return sync.NewCond(l)
}

// OnceFunc is sync.OnceFunc.
func OnceFunc(f func()) func() {
	return sync.OnceFunc(f)
}

// OnceValue is sync.OnceValue.
func OnceValue[T any](f func() T) func() T {
	return sync.OnceValue(f)
}

// OnceValues is sync.OnceValues.
func OnceValues[T1, T2 any](f func() (T1, T2)) func() (T1, T2) {
	return sync.OnceValues(f)
}
