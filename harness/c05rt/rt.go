// Package c05rt is the runtime used by the generated drivers of the C05 check:
// reflection-based random values, structural comparison, a recorder that the
// generated implementors call, and the round-trip driver itself.
package c05rt

import (
	"bytes"
	"context"
	"encoding/binary"
	"encoding/json"
	"fmt"
	"math"
	"math/rand"
	"os"
	"reflect"
	"runtime"
	"strings"
	"sync"
	"sync/atomic"
	"time"

	"github.com/lugu/qiloop/bus"
	"github.com/lugu/qiloop/bus/directory"
	"github.com/lugu/qiloop/bus/session"
	"github.com/lugu/qiloop/type/value"

	"verif/stuck"
)

// M, S, P map IDL actions to the Go names found in the generated code.
type M struct {
	IDL, Impl, Proxy string
	HasRet           bool
}

// S is a signal.
type S struct {
	IDL, Helper, Sub string
	NParams          int
}

// P is a property.
type P struct{ IDL, Update, Get, Set, Sub, On string }

// Iface describes one generated interface.
type Iface struct {
	Pkg, Name string
	Methods   []M
	Signals   []S
	Props     []P
	NewActor  func(rec *Recorder) bus.Actor
	MakeProxy func(bus.Session, bus.Proxy) interface{}
}

// Registry collects the interfaces of all packages linked in the runner.
type Registry struct{ Ifaces []*Iface }

// Add registers an interface.
func (r *Registry) Add(i *Iface) { r.Ifaces = append(r.Ifaces, i) }

var valueIface = reflect.TypeOf((*value.Value)(nil)).Elem()

// Recorder is what generated implementors report to.
type Recorder struct {
	mu     sync.Mutex
	rng    *rand.Rand
	last   map[string][]interface{}
	count  map[string]int
	preset map[string]reflect.Value
	Helper interface{}
	iface  *Iface
	conc   bool // concurrent phase: every received argument list is kept
	got    map[string][][]interface{}
}

// Call records the arguments of an implementor method and fills its result.
func (r *Recorder) Call(key string, args []interface{}, ret interface{}) error {
	r.mu.Lock()
	defer r.mu.Unlock()
	r.last[key] = args
	r.count[key]++
	if r.conc {
		r.got[key] = append(r.got[key], args)
	}
	if ret != nil {
		if p, ok := r.preset[key]; ok {
			reflect.ValueOf(ret).Elem().Set(p)
		}
	}
	return nil
}

// Activate stores the signal helper and initializes the properties.
func (r *Recorder) Activate(helper interface{}) error {
	r.mu.Lock()
	r.Helper = helper
	r.mu.Unlock()
	hv := reflect.ValueOf(helper)
	for _, p := range r.iface.Props {
		m := hv.MethodByName(p.Update)
		if !m.IsValid() {
			return fmt.Errorf("helper has no %s", p.Update)
		}
		args := make([]reflect.Value, m.Type().NumIn())
		for k := range args {
			args[k] = Random(r.rng, m.Type().In(k), 2)
		}
		if e := m.Call(args)[0]; !e.IsNil() {
			return fmt.Errorf("%s: %v", p.Update, e.Interface())
		}
	}
	return nil
}

var edge = []int64{0, 1, -1, 127, -128, 255, 256, 32767, -32768, 65535, 1 << 31, -(1 << 31), math.MaxInt64, math.MinInt64}

// Random builds a random value of type t.
func Random(rng *rand.Rand, t reflect.Type, depth int) reflect.Value {
	v := reflect.New(t).Elem()
	switch t.Kind() {
	case reflect.Bool:
		v.SetBool(rng.Intn(2) == 1)
	case reflect.Int, reflect.Int8, reflect.Int16, reflect.Int32, reflect.Int64:
		x := edge[rng.Intn(len(edge))]
		if rng.Intn(2) == 0 {
			x = int64(rng.Uint64())
		}
		bits := uint(t.Bits())
		v.SetInt(x << (64 - bits) >> (64 - bits))
	case reflect.Uint, reflect.Uint8, reflect.Uint16, reflect.Uint32, reflect.Uint64:
		x := uint64(edge[rng.Intn(len(edge))])
		if rng.Intn(2) == 0 {
			x = rng.Uint64()
		}
		bits := uint(t.Bits())
		v.SetUint(x << (64 - bits) >> (64 - bits))
	case reflect.Float32:
		v.SetFloat(float64(float32(rng.NormFloat64() * 1000)))
	case reflect.Float64:
		v.SetFloat(rng.NormFloat64() * 1e6)
	case reflect.String:
		n := rng.Intn(12)
		b := make([]byte, n)
		for i := range b {
			b[i] = byte('a' + rng.Intn(26))
		}
		if rng.Intn(6) == 0 {
			b = []byte("é\x00日本")
		}
		v.SetString(string(b))
	case reflect.Slice:
		n := rng.Intn(4)
		if depth <= 0 {
			n = rng.Intn(2)
		}
		s := reflect.MakeSlice(t, n, n)
		for i := 0; i < n; i++ {
			s.Index(i).Set(Random(rng, t.Elem(), depth-1))
		}
		v.Set(s)
	case reflect.Map:
		n := rng.Intn(4)
		if depth <= 0 {
			n = rng.Intn(2)
		}
		m := reflect.MakeMap(t)
		for i := 0; i < n; i++ {
			m.SetMapIndex(Random(rng, t.Key(), depth-1), Random(rng, t.Elem(), depth-1))
		}
		v.Set(m)
	case reflect.Struct:
		for i := 0; i < t.NumField(); i++ {
			if v.Field(i).CanSet() {
				v.Field(i).Set(Random(rng, t.Field(i).Type, depth-1))
			}
		}
	case reflect.Interface:
		if t == valueIface || t.NumMethod() > 0 && valueIface.Implements(t) {
			var x value.Value
			switch rng.Intn(12) {
			case 6: // float64 (carried opaquely: there is no constructor for it)
				b := make([]byte, 8)
				binary.LittleEndian.PutUint64(b, math.Float64bits(float64(rng.Intn(1000))+0.5))
				x = value.Opaque("d", b)
			case 7:
				x = value.Ulong(rng.Uint64())
			case 8: // a raw buffer
				b := make([]byte, rng.Intn(9))
				rng.Read(b)
				x = value.Raw(b)
			case 9:
				x = value.Void()
			case 10: // a tuple (is)
				b := make([]byte, 4)
				binary.LittleEndian.PutUint32(b, rng.Uint32())
				x = value.Opaque("(is)", append(b, 3, 0, 0, 0, 'a', 'b', 'c'))
			case 11:
				x = value.Uint(rng.Uint32())
			case 0:
				x = value.Int(int32(rng.Uint32()))
			case 1:
				x = value.String("dyn")
			case 2:
				x = value.Bool(true)
			case 3:
				x = value.Long(rng.Int63())
			case 4:
				x = value.Float(float32(rng.Intn(100)))
			default:
				x = value.List([]value.Value{value.Uint(7), value.String("x")})
			}
			v.Set(reflect.ValueOf(x))
		}
	case reflect.Ptr:
		p := reflect.New(t.Elem())
		p.Elem().Set(Random(rng, t.Elem(), depth-1))
		v.Set(p)
	}
	return v
}

// Equal compares structurally: nil and empty containers are equal, dynamic values by encoding.
func Equal(a, b reflect.Value) bool {
	if !a.IsValid() || !b.IsValid() {
		return a.IsValid() == b.IsValid()
	}
	for a.Kind() == reflect.Interface && !a.IsNil() {
		a = a.Elem()
	}
	for b.Kind() == reflect.Interface && !b.IsNil() {
		b = b.Elem()
	}
	if a.Kind() != reflect.Interface && b.Kind() != reflect.Interface && a.CanInterface() && b.CanInterface() {
		va, ok1 := a.Interface().(value.Value)
		vb, ok2 := b.Interface().(value.Value)
		if ok1 && ok2 {
			var x, y bytes.Buffer
			va.Write(&x)
			vb.Write(&y)
			return bytes.Equal(x.Bytes(), y.Bytes())
		}
	}
	if a.Type() != b.Type() {
		return false
	}
	switch a.Kind() {
	case reflect.Slice:
		if a.Len() != b.Len() {
			return false
		}
		for i := 0; i < a.Len(); i++ {
			if !Equal(a.Index(i), b.Index(i)) {
				return false
			}
		}
		return true
	case reflect.Map:
		if a.Len() != b.Len() {
			return false
		}
		it := a.MapRange()
		for it.Next() {
			o := b.MapIndex(it.Key())
			if !o.IsValid() || !Equal(it.Value(), o) {
				return false
			}
		}
		return true
	case reflect.Struct:
		for i := 0; i < a.NumField(); i++ {
			if !Equal(a.Field(i), b.Field(i)) {
				return false
			}
		}
		return true
	case reflect.Interface:
		if a.IsNil() || b.IsNil() {
			return a.IsNil() == b.IsNil()
		}
		va, ok1 := a.Interface().(value.Value)
		vb, ok2 := b.Interface().(value.Value)
		if ok1 && ok2 {
			var x, y bytes.Buffer
			va.Write(&x)
			vb.Write(&y)
			return bytes.Equal(x.Bytes(), y.Bytes())
		}
		return Equal(a.Elem(), b.Elem())
	case reflect.Ptr:
		if a.IsNil() || b.IsNil() {
			return a.IsNil() == b.IsNil()
		}
		return Equal(a.Elem(), b.Elem())
	case reflect.Float32, reflect.Float64:
		return a.Float() == b.Float()
	default:
		return a.Interface() == b.Interface()
	}
}

// Result is one line of the runner's output.
type Result struct {
	T      string `json:"t"` // begin | viol | ok | done
	Pkg    string `json:"pkg"`
	Iface  string `json:"iface,omitempty"`
	Key    string `json:"key,omitempty"`
	What   string `json:"what,omitempty"`
	Checks int    `json:"checks,omitempty"`
	Mixed  int    `json:"mixed,omitempty"` // members used at the same moment in the mixed concurrent phase
}

func emit(r Result) {
	b, _ := json.Marshal(r)
	fmt.Println(string(b))
	os.Stdout.Sync()
}

func show(v reflect.Value) string {
	s := fmt.Sprintf("(%s) %+v", v.Type(), v.Interface())
	if len(s) > 200 {
		s = s[:200] + "..."
	}
	return s
}

// callStuck calls f; a call that never returns is decided by process quiescence.
func callStuck(f reflect.Value, args []reflect.Value) ([]reflect.Value, bool) {
	var out []reflect.Value
	done := make(chan struct{})
	go func() {
		out = f.Call(args)
		close(done)
	}()
	v, _ := stuck.Wait(done, nil, 2*time.Minute)
	if v != stuck.Returned {
		return nil, false
	}
	return out, true
}

// waitRecv receives one value from ch; "never delivered" is decided by quiescence.
func waitRecv(ch reflect.Value) (reflect.Value, bool) {
	type res struct {
		v  reflect.Value
		ok bool
	}
	rc := make(chan res, 1)
	done := make(chan struct{})
	go func() {
		v, ok := ch.Recv()
		rc <- res{v, ok}
		close(done)
	}()
	v, _ := stuck.Wait(done, nil, 2*time.Minute)
	if v != stuck.Returned {
		return reflect.Value{}, false
	}
	r := <-rc
	return r.v, r.ok
}

// Run drives every registered interface over a real directory server and session.
func Run(reg *Registry, seed int64, rounds int) {
	addr := fmt.Sprintf("unix://%s/c05-%d.sock", os.TempDir(), os.Getpid())
	srv, err := directory.NewServer(addr, nil)
	if err != nil {
		emit(Result{T: "viol", Pkg: "-", Key: "runner=server", What: err.Error()})
		return
	}
	defer srv.Terminate()
	for n, it := range reg.Ifaces {
		emit(Result{T: "begin", Pkg: it.Pkg, Iface: it.Name})
		rng := rand.New(rand.NewSource(seed + int64(n)))
		rec := &Recorder{rng: rng, last: map[string][]interface{}{}, count: map[string]int{}, preset: map[string]reflect.Value{}, iface: it}
		svcName := fmt.Sprintf("%s_%s_%d", it.Pkg, it.Name, n)
		service, err := srv.NewService(svcName, it.NewActor(rec))
		if err != nil {
			emit(Result{T: "viol", Pkg: it.Pkg, Iface: it.Name, Key: "service=activation", What: "NewService failed: " + err.Error()})
			continue
		}
		sess, err := session.NewSession(addr)
		if err != nil {
			emit(Result{T: "viol", Pkg: it.Pkg, Iface: it.Name, Key: "runner=session", What: err.Error()})
			continue
		}
		p, err := sess.Proxy(svcName, 1)
		if err != nil {
			emit(Result{T: "viol", Pkg: it.Pkg, Iface: it.Name, Key: "proxy=unreachable", What: err.Error()})
			sess.Terminate()
			continue
		}
		px0 := reflect.ValueOf(it.MakeProxy(sess, p))
		// every generated proxy also offers WithContext(ctx): the proxy derived with a live context is
		// the second half of the generated client API and must behave the same
		pxs := []reflect.Value{px0}
		if wc := px0.MethodByName("WithContext"); wc.IsValid() && wc.Type().NumIn() == 1 && wc.Type().NumOut() == 1 {
			if out, ok := callStuck(wc, []reflect.Value{reflect.ValueOf(context.Background())}); ok && len(out) == 1 && !out[0].IsNil() {
				pxs = append(pxs, out[0])
			}
		}
		checks := 0
		mixed := 0
		bad := func(key, what string) {
			emit(Result{T: "viol", Pkg: it.Pkg, Iface: it.Name, Key: key, What: what})
		}
		failed := map[string]bool{}
		for round := 0; round < rounds; round++ {
			px := pxs[round%len(pxs)]
			for _, m := range it.Methods {
				if failed[m.IDL] {
					continue
				}
				pm := px.MethodByName(m.Proxy)
				if !pm.IsValid() {
					bad("proxy=method-missing", "proxy has no method "+m.Proxy)
					failed[m.IDL] = true
					continue
				}
				t := pm.Type()
				args := make([]reflect.Value, t.NumIn())
				for k := range args {
					args[k] = Random(rng, t.In(k), 2)
				}
				key := it.Name + "." + m.Impl
				var preset reflect.Value
				if t.NumOut() == 2 {
					preset = Random(rng, t.Out(0), 2)
					rec.mu.Lock()
					rec.preset[key] = preset
					rec.mu.Unlock()
				}
				rec.mu.Lock()
				before := rec.count[key]
				rec.mu.Unlock()
				out, returned := callStuck(pm, args)
				if !returned {
					bad("method=never-returned", fmt.Sprintf("%s: the call through the generated proxy never returned", m.IDL))
					emit(Result{T: "abort", Pkg: it.Pkg})
					os.Exit(0)
				}
				if e := out[len(out)-1]; !e.IsNil() {
					bad("method=call-error", fmt.Sprintf("%s(%s) failed: %v", m.IDL, t, e.Interface()))
					failed[m.IDL] = true
					continue
				}
				rec.mu.Lock()
				got := rec.last[key]
				cnt := rec.count[key] - before
				rec.mu.Unlock()
				if cnt != 1 {
					bad("method=not-invoked-once", fmt.Sprintf("%s: the implementation ran %d times for one call", m.IDL, cnt))
					failed[m.IDL] = true
					continue
				}
				if len(got) != len(args) {
					bad("method=arity", fmt.Sprintf("%s: %d arguments arrived, %d were passed", m.IDL, len(got), len(args)))
					failed[m.IDL] = true
					continue
				}
				for k := range args {
					if !Equal(args[k], reflect.ValueOf(got[k])) {
						bad("method=argument-differs", fmt.Sprintf("%s: argument %d arrived as %s, passed %s", m.IDL, k, show(reflect.ValueOf(got[k])), show(args[k])))
						failed[m.IDL] = true
						break
					}
				}
				if t.NumOut() == 2 && !failed[m.IDL] && !Equal(out[0], preset) {
					bad("method=return-differs", fmt.Sprintf("%s: returned %s, the implementation returned %s", m.IDL, show(out[0]), show(preset)))
					failed[m.IDL] = true
				}
				checks++
			}
			for _, s := range it.Signals {
				if failed["sig:"+s.IDL] {
					continue
				}
				sm := px.MethodByName(s.Sub)
				hm := reflect.ValueOf(rec.Helper).MethodByName(s.Helper)
				if !sm.IsValid() || !hm.IsValid() {
					bad("signal=method-missing", "no "+s.Sub+" / "+s.Helper)
					failed["sig:"+s.IDL] = true
					continue
				}
				so, returned := callStuck(sm, nil)
				if !returned {
					bad("signal=subscribe-never-returned", fmt.Sprintf("%s: subscribing never returned", s.IDL))
					emit(Result{T: "abort", Pkg: it.Pkg})
					os.Exit(0)
				}
				if !so[2].IsNil() {
					bad("signal=subscribe-error", fmt.Sprintf("%s: %v", s.Sub, so[2].Interface()))
					failed["sig:"+s.IDL] = true
					continue
				}
				args := make([]reflect.Value, hm.Type().NumIn())
				for k := range args {
					args[k] = Random(rng, hm.Type().In(k), 2)
				}
				if e := hm.Call(args)[0]; !e.IsNil() {
					bad("signal=emit-error", fmt.Sprintf("%s: %v", s.Helper, e.Interface()))
					failed["sig:"+s.IDL] = true
					so[0].Call(nil)
					continue
				}
				ev, ok := waitRecv(so[1])
				if !ok {
					bad("signal=not-delivered", fmt.Sprintf("%s: the emitted event never reached the generated subscriber", s.IDL))
					failed["sig:"+s.IDL] = true
					continue
				}
				switch {
				case len(args) == 1:
					if !Equal(ev, args[0]) {
						bad("signal=payload-differs", fmt.Sprintf("%s: received %s, emitted %s", s.IDL, show(ev), show(args[0])))
						failed["sig:"+s.IDL] = true
					}
				case len(args) > 1:
					if ev.Kind() != reflect.Struct || ev.NumField() != len(args) {
						bad("signal=payload-shape", fmt.Sprintf("%s: received %s for %d parameters", s.IDL, ev.Type(), len(args)))
						failed["sig:"+s.IDL] = true
						break
					}
					for k := range args {
						if !Equal(ev.Field(k), args[k]) {
							bad("signal=payload-differs", fmt.Sprintf("%s: field %d received %s, emitted %s", s.IDL, k, show(ev.Field(k)), show(args[k])))
							failed["sig:"+s.IDL] = true
							break
						}
					}
				}
				so[0].Call(nil)
				checks++
			}
			for _, pr := range it.Props {
				if failed["prop:"+pr.IDL] {
					continue
				}
				gm, sm2 := px.MethodByName(pr.Get), px.MethodByName(pr.Set)
				um := reflect.ValueOf(rec.Helper).MethodByName(pr.Update)
				if !gm.IsValid() || !sm2.IsValid() || !um.IsValid() {
					bad("property=method-missing", "no "+pr.Get+" / "+pr.Set+" / "+pr.Update)
					failed["prop:"+pr.IDL] = true
					continue
				}
				if sm2.Type().NumIn() != 1 {
					continue // multi-parameter properties: set/get shape not judged
				}
				v := Random(rng, sm2.Type().In(0), 2)
				so2, returned := callStuck(sm2, []reflect.Value{v})
				if !returned {
					bad("property=set-never-returned", fmt.Sprintf("%s: the property write never returned", pr.IDL))
					emit(Result{T: "abort", Pkg: it.Pkg})
					os.Exit(0)
				}
				if e := so2[0]; !e.IsNil() {
					bad("property=set-error/type="+typeClass(sm2.Type().In(0)), fmt.Sprintf("%s: %v", pr.Set, e.Interface()))
					failed["prop:"+pr.IDL] = true
					continue
				}
				g := gm.Call(nil)
				if !g[1].IsNil() {
					bad("property=get-error/type="+typeClass(sm2.Type().In(0)), fmt.Sprintf("%s: %v", pr.Get, g[1].Interface()))
					failed["prop:"+pr.IDL] = true
					continue
				}
				if !Equal(g[0], v) {
					bad("property=roundtrip-differs/type="+typeClass(sm2.Type().In(0)), fmt.Sprintf("%s: get returned %s after set %s", pr.IDL, show(g[0]), show(v)))
					failed["prop:"+pr.IDL] = true
					continue
				}
				rec.mu.Lock()
				on := rec.last[it.Name+"."+pr.On]
				rec.mu.Unlock()
				if len(on) != 1 || !Equal(reflect.ValueOf(on[0]), v) {
					bad("property=validator-argument-differs", fmt.Sprintf("%s: the change callback did not receive the written value", pr.IDL))
					failed["prop:"+pr.IDL] = true
					continue
				}
				w := Random(rng, um.Type().In(0), 2)
				if e := um.Call([]reflect.Value{w})[0]; !e.IsNil() {
					bad("property=update-error", fmt.Sprintf("%s: %v", pr.Update, e.Interface()))
					failed["prop:"+pr.IDL] = true
					continue
				}
				g = gm.Call(nil)
				if !g[1].IsNil() || !Equal(g[0], w) {
					bad("property=update-differs", fmt.Sprintf("%s: get returned %s after a service-side update to %s", pr.IDL, show(g[0]), show(w)))
					failed["prop:"+pr.IDL] = true
					continue
				}
				checks++
			}
		}
		// concurrent phase: the generated proxy is used by several goroutines at once; the argument lists
		// which reach the implementation are, as a multiset, the argument lists which were passed
		for _, m := range it.Methods {
			if failed[m.IDL] {
				continue
			}
			pm := px0.MethodByName(m.Proxy)
			if !pm.IsValid() || pm.Type().NumIn() == 0 {
				continue
			}
			t := pm.Type()
			const workers, each = 4, 12
			sent := make([][][]reflect.Value, workers)
			for w := range sent {
				for k := 0; k < each; k++ {
					args := make([]reflect.Value, t.NumIn())
					for a := range args {
						args[a] = Random(rng, t.In(a), 2)
					}
					sent[w] = append(sent[w], args)
				}
			}
			key := it.Name + "." + m.Impl
			rec.mu.Lock()
			rec.conc, rec.got = true, map[string][][]interface{}{}
			rec.mu.Unlock()
			errs := make([]error, workers)
			var wg sync.WaitGroup
			done := make(chan struct{})
			for w := 0; w < workers; w++ {
				w := w
				wg.Add(1)
				go func() {
					defer wg.Done()
					for _, args := range sent[w] {
						out := pm.Call(args)
						if e := out[len(out)-1]; !e.IsNil() && errs[w] == nil {
							errs[w] = e.Interface().(error)
						}
					}
				}()
			}
			go func() { wg.Wait(); close(done) }()
			if v, _ := stuck.Wait(done, nil, 2*time.Minute); v != stuck.Returned {
				bad("method=never-returned/concurrent", fmt.Sprintf("%s: calls made by %d goroutines through one generated proxy never returned", m.IDL, workers))
				emit(Result{T: "abort", Pkg: it.Pkg})
				os.Exit(0)
			}
			rec.mu.Lock()
			got := rec.got[key]
			rec.conc = false
			rec.mu.Unlock()
			var callErr error
			for _, e := range errs {
				if e != nil {
					callErr = e
				}
			}
			if callErr != nil {
				bad("method=call-error/concurrent", fmt.Sprintf("%s failed when called by %d goroutines at once: %v", m.IDL, workers, callErr))
				continue
			}
			if len(got) != workers*each {
				bad("method=not-invoked-once/concurrent", fmt.Sprintf("%s: %d calls made by %d goroutines, the implementation ran %d times", m.IDL, workers*each, workers, len(got)))
				continue
			}
			used := make([]bool, len(got))
		match:
			for w := range sent {
				for _, args := range sent[w] {
					found := false
					for g := range got {
						if used[g] || len(got[g]) != len(args) {
							continue
						}
						same := true
						for a := range args {
							if !Equal(args[a], reflect.ValueOf(got[g][a])) {
								same = false
								break
							}
						}
						if same {
							used[g], found = true, true
							break
						}
					}
					if !found {
						bad("method=argument-differs/concurrent", fmt.Sprintf("%s: called by %d goroutines at once, the arguments %s of one call never reached the implementation (it ran %d times, once per call)", m.IDL, workers, show(args[0]), len(got)))
						break match
					}
				}
			}
			checks++
		}
		// mixed concurrent phase: DIFFERENT members of the interface are used at the same moment - one goroutine
		// per property (set a fresh value, read it back: nobody else writes that property) and one per method
		// (up to four), all released together: values of different types are then encoded and decoded at once
		{
			type job struct {
				name string
				run  func(r *rand.Rand) (string, string)
			}
			var jobs []job
			for _, pr := range it.Props {
				pr := pr
				if failed["prop:"+pr.IDL] {
					continue
				}
				gm, sm2 := px0.MethodByName(pr.Get), px0.MethodByName(pr.Set)
				if !gm.IsValid() || !sm2.IsValid() || sm2.Type().NumIn() != 1 {
					continue
				}
				jobs = append(jobs, job{pr.IDL, func(r *rand.Rand) (string, string) {
					v := Random(r, sm2.Type().In(0), 2)
					if e := sm2.Call([]reflect.Value{v})[0]; !e.IsNil() {
						return "property=set-error/concurrent-mixed", fmt.Sprintf("%s: %v", pr.Set, e.Interface())
					}
					g := gm.Call(nil)
					if !g[1].IsNil() {
						return "property=get-error/concurrent-mixed", fmt.Sprintf("%s: %v", pr.Get, g[1].Interface())
					}
					if !Equal(g[0], v) {
						return "property=roundtrip-differs/concurrent-mixed", fmt.Sprintf("%s: get returned %s after set %s (no other goroutine writes this property)", pr.IDL, show(g[0]), show(v))
					}
					return "", ""
				}})
			}
			nm := 0
			for _, m := range it.Methods {
				m := m
				pm := px0.MethodByName(m.Proxy)
				if failed[m.IDL] || !pm.IsValid() || pm.Type().NumIn() == 0 || nm >= 4 {
					continue
				}
				nm++
				t := pm.Type()
				jobs = append(jobs, job{m.IDL, func(r *rand.Rand) (string, string) {
					args := make([]reflect.Value, t.NumIn())
					for a := range args {
						args[a] = Random(r, t.In(a), 2)
					}
					out := pm.Call(args)
					if e := out[len(out)-1]; !e.IsNil() {
						return "method=call-error/concurrent-mixed", fmt.Sprintf("%s failed while other members of the interface were in use: %v", m.IDL, e.Interface())
					}
					return "", ""
				}})
			}
			// at most six operations in flight: an object's mailbox holds ten messages and refuses the eleventh
			// ("consumer blocked"), which is load shedding, not a failure of the generated code
			rng.Shuffle(len(jobs), func(a, b int) { jobs[a], jobs[b] = jobs[b], jobs[a] })
			if len(jobs) > 6 {
				jobs = jobs[:6]
			}
			if len(jobs) >= 2 {
				const each = 25
				keys := make([][2]string, len(jobs))
				var wg sync.WaitGroup
				var start int32
				done := make(chan struct{})
				for j := range jobs {
					j := j
					r := rand.New(rand.NewSource(rng.Int63()))
					wg.Add(1)
					go func() {
						defer wg.Done()
						for atomic.LoadInt32(&start) == 0 {
							runtime.Gosched()
						}
						for k := 0; k < each; k++ {
							if key, what := jobs[j].run(r); key != "" {
								if strings.Contains(what, "consumer blocked") {
									continue // refused by an overloaded mailbox: not judged
								}
								keys[j] = [2]string{key, what}
								return
							}
						}
					}()
				}
				atomic.StoreInt32(&start, 1)
				go func() { wg.Wait(); close(done) }()
				if v, _ := stuck.Wait(done, nil, 2*time.Minute); v != stuck.Returned {
					bad("member=never-returned/concurrent-mixed", fmt.Sprintf("%s: %d members used at the same moment through one generated proxy: some operation never returned", it.Name, len(jobs)))
					emit(Result{T: "abort", Pkg: it.Pkg})
					os.Exit(0)
				}
				for _, k := range keys {
					if k[0] != "" {
						bad(k[0], k[1])
						break
					}
				}
				checks++
				mixed = len(jobs)
			}
		}
		emit(Result{T: "ok", Pkg: it.Pkg, Iface: it.Name, Checks: checks, Mixed: mixed})
		sess.Terminate()
		service.Terminate()
	}
	emit(Result{T: "done"})
}

// typeClass tells whether a Go type involves a dynamic value ("any") or is fully typed.
func typeClass(t reflect.Type) string {
	var has func(t reflect.Type, d int) bool
	has = func(t reflect.Type, d int) bool {
		if d > 6 {
			return false
		}
		switch t.Kind() {
		case reflect.Interface:
			return true
		case reflect.Slice, reflect.Ptr:
			return has(t.Elem(), d+1)
		case reflect.Map:
			return has(t.Key(), d+1) || has(t.Elem(), d+1)
		case reflect.Struct:
			for i := 0; i < t.NumField(); i++ {
				if has(t.Field(i).Type, d+1) {
					return true
				}
			}
		}
		return false
	}
	if has(t, 0) {
		return "any"
	}
	return "typed"
}
