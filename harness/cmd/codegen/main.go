// codegen worker (C05): generates well-formed IDL packages, runs the stub/proxy
// generator built from /repo's current tree, emits implementors and drivers by
// reading the generated Go code, compiles everything into one runner binary and
// runs it against a real directory server.
package main

import (
	"bufio"
	"bytes"
	"encoding/json"
	"fmt"
	"go/ast"
	"go/parser"
	"go/printer"
	"go/token"
	"io/ioutil"
	"math/rand"
	"os"
	"os/exec"
	"path/filepath"
	"regexp"
	"sort"
	"strings"
	"time"

	"github.com/lugu/qiloop/meta/idl"

	"verif/c05rt"
	"verif/wk"
)

var benign = []string{"alpha", "beta", "gamma", "delta", "count", "label", "items", "ratio", "flag", "total", "first", "second", "third", "xs", "ys", "data1", "data_2", "Mixed", "camelCase", "n1"}

var nasty = []string{
	// Go keywords and predeclared identifiers
	"func", "type", "range", "map", "chan", "go", "select", "var", "const", "import", "return", "default", "switch", "case", "for", "if", "else", "break", "continue", "defer", "goto", "fallthrough",
	"string", "error", "int", "bool", "len", "nil", "true", "false", "make", "new", "byte", "uint32", "float64", "append", "panic",
	// identifiers the generators use themselves
	"c", "p", "msg", "buf", "err", "ret", "out", "s", "r", "w", "from", "args", "resp", "id", "obj", "stb", "impl", "session", "service", "signal", "meta", "ch", "cancel", "e", "i", "v", "b", "m", "size", "payload", "name", "value", "update", "ctx", "sess", "proxy", "callErr", "errOut", "updates", "unsubscribe", "prop", "data", "k",
	// packages imported by generated code
	"bytes", "fmt", "bus", "net", "basic", "object", "log", "io", "context",
	// reserved proxy / object methods
	"subscribe", "metaObject", "terminate", "call", "withContext", "registerEvent", "property", "setProperty", "properties", "proxy", "onTerminate", "activate", "receive",
}

type idlMethod struct {
	Name    string
	NParams int
	HasRet  bool
}
type idlSignal struct {
	Name    string
	NParams int
}
type idlIface struct {
	Name    string
	Methods []idlMethod
	Signals []idlSignal
	Props   []string
}
type idlPkg struct {
	Name   string
	Text   string
	Ifaces []idlIface
	Class  string
	Roles  map[string]string // user identifier -> role in the IDL
	// SweepKey identifies the single special (role, identifier) of a package of class sweep.
	SweepKey string
}

func (p *idlPkg) role(id, role string) {
	if p.Roles == nil {
		p.Roles = map[string]string{}
	}
	if _, ok := p.Roles[id]; !ok {
		p.Roles[id] = role
	}
}

type nameSrc struct {
	rng  *rand.Rand
	pool []string
	used map[string]bool
	role string          // role the next names are picked for
	bad  map[string]bool // "role/identifier" pairs known not to work: never drawn (class hygiene)
}

func (n *nameSrc) pick(scope map[string]bool, capTwin bool) string {
	for try := 0; try < 200; try++ {
		s := n.pool[n.rng.Intn(len(n.pool))]
		if n.bad[n.role+"/"+s] {
			continue
		}
		if n.rng.Intn(6) == 0 {
			s = fmt.Sprintf("%s%d", s, n.rng.Intn(9))
		}
		if capTwin && false && len(scope) > 0 { // capitalisation twins are swept deterministically (class sweep)
			// capitalisation twin of a name already in scope
			for o := range scope {
				t := strings.ToUpper(o[:1]) + o[1:]
				if t == o {
					t = strings.ToLower(o[:1]) + o[1:]
				}
				s = t
				break
			}
		}
		if !scope[s] && s != "end" {
			scope[s] = true
			return s
		}
	}
	s := fmt.Sprintf("n%d", len(scope))
	scope[s] = true
	return s
}

var basicTypes = []string{"int8", "uint8", "int16", "uint16", "int32", "uint32", "int64", "uint64", "float32", "float64", "bool", "str", "any"}
var keyTypes = []string{"int8", "uint8", "int16", "uint16", "int32", "uint32", "int64", "uint64", "bool", "str"}

func genIDLType(rng *rand.Rand, structs []string, depth int, tuples bool) string {
	if depth <= 0 || rng.Intn(10) < 4 {
		if len(structs) > 0 && rng.Intn(4) == 0 {
			return structs[rng.Intn(len(structs))]
		}
		return basicTypes[rng.Intn(len(basicTypes))]
	}
	switch rng.Intn(6) {
	case 0, 1, 2:
		return "Vec<" + genIDLType(rng, structs, depth-1, tuples) + ">"
	case 3, 4:
		return "Map<" + keyTypes[rng.Intn(len(keyTypes))] + "," + genIDLType(rng, structs, depth-1, tuples) + ">"
	default:
		if !tuples {
			return "Vec<" + genIDLType(rng, structs, depth-1, tuples) + ">"
		}
		n := 1 + rng.Intn(3)
		parts := make([]string, n)
		for i := range parts {
			parts[i] = genIDLType(rng, structs, depth-1, false)
		}
		return "Tuple<" + strings.Join(parts, ",") + ">"
	}
}

// genPackage builds one well-formed IDL package. class: plain | hygiene | tuples.
func genPackage(rng *rand.Rand, n int, class string) idlPkg {
	pool := benign
	if class == "hygiene" {
		pool = append(append([]string{}, nasty...), benign...)
	}
	ns := &nameSrc{rng: rng, pool: pool}
	if class == "hygiene" {
		ns.bad = knownBadPairs
	}
	pkg := idlPkg{Name: fmt.Sprintf("p%04d", n), Class: class}
	var b strings.Builder
	fmt.Fprintf(&b, "package %s\n", pkg.Name)
	global := map[string]bool{}
	var structs []string
	for k := rng.Intn(4); k > 0; k-- {
		ns.role = "struct-name"
		name := strings.Title(ns.pick(global, false)) + "T"
		if global[name] {
			continue
		}
		global[name] = true
		fmt.Fprintf(&b, "struct %s\n", name)
		pkg.role(name, "struct-name")
		fields := map[string]bool{}
		for f := 1 + rng.Intn(4); f > 0; f-- {
			ns.role = "struct-field"
			fn := ns.pick(fields, false)
			pkg.role(fn, "struct-field")
			fmt.Fprintf(&b, "\t%s: %s\n", fn, genIDLType(rng, structs, 2, false))
		}
		b.WriteString("end\n")
		structs = append(structs, name)
	}
	for k := 1 + rng.Intn(3); k > 0; k-- {
		ns.role = "interface-name"
		iname := strings.Title(ns.pick(global, false)) + "I"
		if global[iname] {
			continue
		}
		global[iname] = true
		it := idlIface{Name: iname}
		pkg.role(iname, "interface-name")
		fmt.Fprintf(&b, "interface %s\n", iname)
		actions := map[string]bool{}
		for m := rng.Intn(6); m > 0; m-- {
			ns.role = "method-name"
			mn := ns.pick(actions, class == "hygiene")
			pkg.role(mn, "method-name")
			np := rng.Intn(6)
			params := map[string]bool{}
			var ps []string
			same := ""
			if rng.Intn(3) == 0 {
				same = genIDLType(rng, structs, 1, false) // every parameter of the same type
			}
			for q := 0; q < np; q++ {
				ns.role = "method-parameter"
				pn := ns.pick(params, class == "hygiene")
				pkg.role(pn, "method-parameter")
				ty := same
				if ty == "" {
					ty = genIDLType(rng, structs, 2, class == "tuples")
				}
				ps = append(ps, pn+": "+ty)
			}
			ret := ""
			hasRet := rng.Intn(3) != 0
			if hasRet {
				ret = " -> " + genIDLType(rng, structs, 2, class == "tuples")
			}
			fmt.Fprintf(&b, "\tfn %s(%s)%s\n", mn, strings.Join(ps, ", "), ret)
			it.Methods = append(it.Methods, idlMethod{mn, np, hasRet})
		}
		for s := rng.Intn(3); s > 0; s-- {
			ns.role = "signal-name"
			sn := ns.pick(actions, class == "hygiene")
			pkg.role(sn, "signal-name")
			np := 1 + rng.Intn(3)
			params := map[string]bool{}
			var ps []string
			for q := 0; q < np; q++ {
				ns.role = "signal-parameter"
				pn := ns.pick(params, false)
				pkg.role(pn, "signal-parameter")
				ps = append(ps, pn+": "+genIDLType(rng, structs, 2, false))
			}
			fmt.Fprintf(&b, "\tsig %s(%s)\n", sn, strings.Join(ps, ", "))
			it.Signals = append(it.Signals, idlSignal{sn, np})
		}
		for s := rng.Intn(3); s > 0; s-- {
			ns.role = "property-name"
			pn := ns.pick(actions, class == "hygiene")
			pkg.role(pn, "property-name")
			params := map[string]bool{}
			ns.role = "property-parameter"
			ppn := ns.pick(params, false)
			pkg.role(ppn, "property-parameter")
			fmt.Fprintf(&b, "\tprop %s(%s: %s)\n", pn, ppn, genIDLType(rng, structs, 2, false))
			it.Props = append(it.Props, pn)
		}
		b.WriteString("end\n")
		pkg.Ifaces = append(pkg.Ifaces, it)
	}
	pkg.Text = b.String()
	return pkg
}

// knownBadPairs holds the "role/identifier" pairs listed as known findings (KNOWN_FINDINGS.txt,
// keys hygiene/role=R/ident=I): the random hygiene class never draws them, so that every package of
// that class is expected to compile and to round-trip.
var knownBadPairs = map[string]bool{}

var reBadPair = regexp.MustCompile(`key=hygiene/role=([a-z-]+)/ident=([^/\s]+)`)

func loadKnownBadPairs(root string) {
	b, err := ioutil.ReadFile(root + "/KNOWN_FINDINGS.txt")
	if err != nil {
		return
	}
	for _, l := range strings.Split(string(b), "\n") {
		if !strings.HasPrefix(l, "known:") {
			continue
		}
		if m := reBadPair.FindStringSubmatch(l); m != nil {
			knownBadPairs[m[1]+"/"+m[2]] = true
		}
	}
}

var sweepRoles = []string{"struct-name", "struct-field", "interface-name", "method-name", "method-parameter", "signal-name", "signal-parameter", "property-name", "property-parameter"}
var twinKinds = []string{"method+method", "method+signal", "method+property", "signal+signal", "signal+property", "property+property"}

// sweepPairs lists every (role, identifier) of the deterministic sweep.
func sweepPairs() [][2]string {
	var out [][2]string
	for _, r := range sweepRoles {
		for _, id := range nasty {
			out = append(out, [2]string{r, id})
		}
	}
	for _, k := range twinKinds {
		out = append(out, [2]string{"capitalisation-twin", k})
	}
	return out
}

// genSweepPackage builds a small fixed package in which exactly one identifier is special: ident used
// in the given role (or two action names that differ by the case of their first letter only).
func genSweepPackage(n int, role, ident string) idlPkg {
	pkg := idlPkg{Name: fmt.Sprintf("p%04d", n), Class: "sweep", SweepKey: "hygiene/role=" + role + "/ident=" + ident}
	name := map[string]string{"struct-name": "BoxT", "struct-field": "width", "interface-name": "SweepI", "method-name": "compute", "method-parameter": "first",
		"signal-name": "moved", "signal-parameter": "dx", "property-name": "gauge", "property-parameter": "level"}
	if _, ok := name[role]; ok {
		name[role] = ident
		switch role {
		case "struct-name":
			name[role] = strings.Title(ident) + "T"
		case "interface-name":
			name[role] = strings.Title(ident) + "I"
		}
		pkg.role(name[role], role)
	}
	// the special identifier is used with a scalar, a nested container and a structure type
	shapes := []string{"int32", "Vec<Map<int8,str>>", name["struct-name"]}
	var b strings.Builder
	fmt.Fprintf(&b, "package %s\nstruct %s\n\t%s: int32\n\tother: str\nend\n", pkg.Name, name["struct-name"], name["struct-field"])
	fmt.Fprintf(&b, "struct WrapT\n\t%s: Vec<Map<int8,str>>\n\tmore: int8\nend\nstruct OuterT\n\t%s: %s\n\tlast: bool\nend\n", name["struct-field"], name["struct-field"], name["struct-name"])
	fmt.Fprintf(&b, "struct WideT\n\t%s: Vec<str>\n\tf1: Vec<float64>\n\tf2: Vec<Vec<float32>>\n\tf3: Map<str,int64>\n\tf4: Vec<bool>\n\tf5: str\n\tf6: Vec<uint32>\n\tf7: Map<uint8,Vec<int16>>\n\tf8: Vec<int8>\n\tf9: Vec<uint64>\n\tf10: Vec<uint16>\n\tf11: any\n\tf12: %s\n\tf13: Vec<int32>\nend\n", name["struct-field"], name["struct-name"])
	it := idlIface{Name: name["interface-name"]}
	fmt.Fprintf(&b, "interface %s\n", it.Name)
	fmt.Fprintf(&b, "\tfn %s(%s: int32, second: %s) -> int32\n", name["method-name"], name["method-parameter"], name["struct-name"])
	it.Methods = append(it.Methods, idlMethod{name["method-name"], 2, true})
	fmt.Fprintf(&b, "\tfn nested(%s: %s, w: WrapT) -> OuterT\n", name["method-parameter"], shapes[1])
	it.Methods = append(it.Methods, idlMethod{"nested", 2, true})
	fmt.Fprintf(&b, "\tfn boxed(lead: str, %s: %s)\n", name["method-parameter"], shapes[2])
	it.Methods = append(it.Methods, idlMethod{"boxed", 2, false})
	// next to parameters of every kind: the generated body then uses the predeclared identifiers and the
	// generator's own locals that the special name may shadow
	wide := "a1: Vec<float64>, a2: Vec<Vec<float32>>, a3: Map<str,int64>, a4: Vec<bool>, a5: str, a6: Vec<uint32>, a7: Map<uint8,Vec<int16>>, a8: Vec<int8>, a9: Vec<uint64>, a10: Vec<uint16>, a11: Vec<str>, a12: any, a13: Vec<int32>, a14: " + name["struct-name"]
	fmt.Fprintf(&b, "\tfn wide(%s: int32, %s) -> Vec<Map<bool,float64>>\n", name["method-parameter"], wide)
	it.Methods = append(it.Methods, idlMethod{"wide", 15, true})
	fmt.Fprintf(&b, "\tfn wideLast(%s, %s: Vec<str>) -> Map<str,Vec<uint8>>\n", wide, name["method-parameter"])
	it.Methods = append(it.Methods, idlMethod{"wideLast", 15, true})
	sigs := [][3]string{{name["signal-name"], name["signal-parameter"], shapes[0]}, {"turned", name["signal-parameter"], shapes[1]}, {"packed", name["signal-parameter"], shapes[2]}}
	wideSig := fmt.Sprintf("\tsig broad(%s: float64, %s)\n", name["signal-parameter"], wide)
	props := [][3]string{{name["property-name"], name["property-parameter"], shapes[0]}, {"spread", name["property-parameter"], shapes[1]}, {"crate", name["property-parameter"], shapes[2]}}
	if role == "capitalisation-twin" {
		parts := strings.Split(ident, "+")
		for k, kind := range parts {
			tw := []string{"zoom", "Zoom"}[k]
			pkg.role(tw, role)
			switch kind {
			case "method":
				fmt.Fprintf(&b, "\tfn %s(q: int32) -> int32\n", tw)
				it.Methods = append(it.Methods, idlMethod{tw, 1, true})
			case "signal":
				sigs = append(sigs, [3]string{tw, "q", "int32"})
			case "property":
				props = append(props, [3]string{tw, "q", "int32"})
			}
		}
	}
	for _, sg := range sigs {
		fmt.Fprintf(&b, "\tsig %s(%s: %s, sb: str)\n", sg[0], sg[1], sg[2])
		it.Signals = append(it.Signals, idlSignal{sg[0], 2})
	}
	b.WriteString(wideSig)
	it.Signals = append(it.Signals, idlSignal{"broad", 15})
	props = append(props, [3]string{"deep", name["property-parameter"], "Map<str,Vec<Map<uint8,float64>>>"}, [3]string{"whole", name["property-parameter"], "WideT"})
	for _, pr := range props {
		fmt.Fprintf(&b, "\tprop %s(%s: %s)\n", pr[0], pr[1], pr[2])
		it.Props = append(it.Props, pr[0])
	}
	b.WriteString("end\n")
	pkg.Ifaces = []idlIface{it}
	// the same action names with other shapes: no parameter and no result, one parameter only
	it2 := idlIface{Name: "Shape2I"}
	fmt.Fprintf(&b, "interface %s\n\tfn %s()\n\tsig %s(only: int8)\n\tprop %s(%s: str)\nend\n", it2.Name, name["method-name"], name["signal-name"], name["property-name"], name["property-parameter"])
	it2.Methods = []idlMethod{{name["method-name"], 0, false}}
	it2.Signals = []idlSignal{{name["signal-name"], 1}}
	it2.Props = []string{name["property-name"]}
	it3 := idlIface{Name: "Shape3I"}
	fmt.Fprintf(&b, "interface %s\n\tfn %s(%s: str)\n\tfn other() -> Vec<%s>\nend\n", it3.Name, name["method-name"], name["method-parameter"], name["struct-name"])
	it3.Methods = []idlMethod{{name["method-name"], 1, false}, {"other", 0, true}}
	pkg.Ifaces = append(pkg.Ifaces, it2, it3)
	// and with the parameter lists of the generic object methods (terminate, property, registerEvent, setProperty)
	for k, params := range []string{"objectID: uint32", "name: any", "objectID: uint32, actionID: uint32, handler: uint64", "name: any, value: any"} {
		itk := idlIface{Name: fmt.Sprintf("Generic%dI", k)}
		fmt.Fprintf(&b, "interface %s\n\tfn %s(%s)\nend\n", itk.Name, name["method-name"], params)
		itk.Methods = []idlMethod{{name["method-name"], strings.Count(params, ":"), false}}
		pkg.Ifaces = append(pkg.Ifaces, itk)
	}
	pkg.Text = b.String()
	return pkg
}

// genKindsPackage builds the fixed package that has one method, one signal and one property for every
// basic IDL type (the dynamic type included for methods and signals), so that every scalar kind goes
// through every generated path in every run.
func genKindsPackage(n int) idlPkg {
	pkg := idlPkg{Name: fmt.Sprintf("p%04d", n), Class: "kinds"}
	var b strings.Builder
	fmt.Fprintf(&b, "package %s\ninterface KindsI\n", pkg.Name)
	it := idlIface{Name: "KindsI"}
	for _, t := range basicTypes {
		id := strings.Title(t)
		fmt.Fprintf(&b, "\tfn m%s(a: %s, b: Vec<%s>) -> %s\n", id, t, t, t)
		it.Methods = append(it.Methods, idlMethod{"m" + id, 2, true})
	}
	for _, t := range basicTypes {
		id := strings.Title(t)
		fmt.Fprintf(&b, "\tsig s%s(a: %s, tail: str)\n", id, t)
		it.Signals = append(it.Signals, idlSignal{"s" + id, 2})
	}
	for _, t := range basicTypes {
		if t == "any" {
			continue // known finding: a property of the dynamic type cannot be set through the proxy
		}
		id := strings.Title(t)
		fmt.Fprintf(&b, "\tprop p%s(v: %s)\n", id, t)
		it.Props = append(it.Props, "p"+id)
	}
	b.WriteString("end\n")
	pkg.Ifaces = []idlIface{it}
	pkg.Text = b.String()
	return pkg
}

// genOverloadPackage builds a package whose interfaces have three to six members sharing ONE name:
// overloaded methods (same name, different parameter lists), possibly a signal and a property of
// that name too, next to ordinary members; the generators must give each of them its own Go name.
func genOverloadPackage(rng *rand.Rand, n int) idlPkg {
	pkg := idlPkg{Name: fmt.Sprintf("p%04d", n), Class: "overloads"}
	var b strings.Builder
	fmt.Fprintf(&b, "package %s\nstruct CellT\n\tx: int32\n\tlabel: str\nend\n", pkg.Name)
	shared := []string{"level", "over", "apply", "state", "run", "put"}
	paramLists := []string{"a: int32", "a: str", "a: bool", "", "a: int32, b: str", "a: Vec<float64>", "a: CellT", "a: Map<str,int64>, b: uint8", "a: any"}
	for k := 0; k < 1+rng.Intn(2); k++ {
		it := idlIface{Name: fmt.Sprintf("Over%dI", k)}
		name := shared[rng.Intn(len(shared))]
		nm := 1 + rng.Intn(4)
		withSig := rng.Intn(2) == 0
		withProp := rng.Intn(2) == 0
		for nm+b2i(withSig)+b2i(withProp) < 3 {
			nm++
		}
		fmt.Fprintf(&b, "interface %s\n", it.Name)
		fmt.Fprintf(&b, "\tfn first(q: int32) -> int32\n")
		it.Methods = append(it.Methods, idlMethod{"first", 1, true})
		for j, pi := range rng.Perm(len(paramLists))[:nm] {
			pl := paramLists[pi]
			ret := j%2 == 0
			if ret {
				fmt.Fprintf(&b, "\tfn %s(%s) -> Vec<str>\n", name, pl)
			} else {
				fmt.Fprintf(&b, "\tfn %s(%s)\n", name, pl)
			}
			np := 0
			if pl != "" {
				np = strings.Count(pl, ":")
			}
			it.Methods = append(it.Methods, idlMethod{name, np, ret})
		}
		fmt.Fprintf(&b, "\tfn last() -> str\n")
		it.Methods = append(it.Methods, idlMethod{"last", 0, true})
		if withSig {
			fmt.Fprintf(&b, "\tsig %s(v: int32, w: str)\n", name)
			it.Signals = append(it.Signals, idlSignal{name, 2})
		}
		fmt.Fprintf(&b, "\tsig other(v: uint8)\n")
		it.Signals = append(it.Signals, idlSignal{"other", 1})
		if withProp {
			fmt.Fprintf(&b, "\tprop %s(v: int64)\n", name)
			it.Props = append(it.Props, name)
		}
		fmt.Fprintf(&b, "\tprop plain(v: str)\n")
		it.Props = append(it.Props, "plain")
		b.WriteString("end\n")
		pkg.Ifaces = append(pkg.Ifaces, it)
	}
	pkg.Text = b.String()
	return pkg
}

func b2i(v bool) int {
	if v {
		return 1
	}
	return 0
}

// hygKey is the finding key of a failing package of class sweep / hygiene.
func hygKey(p *idlPkg, msg, symptom string) string {
	if p.SweepKey != "" {
		return p.SweepKey + "/symptom=" + symptom
	}
	// class hygiene only draws identifiers that work on their own: nothing explains this failure
	return "hygiene=unexplained/" + culprit(p, msg)
}

// ifaceMethods returns the method names (and field nodes) of an interface type declared in the file.
func ifaceMethods(f *ast.File, name string) []*ast.Field {
	for _, d := range f.Decls {
		gd, ok := d.(*ast.GenDecl)
		if !ok {
			continue
		}
		for _, sp := range gd.Specs {
			ts, ok := sp.(*ast.TypeSpec)
			if !ok || ts.Name.Name != name {
				continue
			}
			it, ok := ts.Type.(*ast.InterfaceType)
			if !ok {
				return nil
			}
			var out []*ast.Field
			for _, m := range it.Methods.List {
				if len(m.Names) == 1 {
					if _, ok := m.Type.(*ast.FuncType); ok {
						out = append(out, m)
					}
				}
			}
			return out
		}
	}
	return nil
}

func typeStr(fset *token.FileSet, e ast.Expr) string {
	var b bytes.Buffer
	printer.Fprint(&b, fset, e)
	return b.String()
}

// emitDriver writes zz_verif.go next to the generated code.
func emitDriver(dir string, pkg idlPkg) error {
	fset := token.NewFileSet()
	f, err := parser.ParseFile(fset, dir+"/gen.go", nil, 0)
	if err != nil {
		return fmt.Errorf("generated code does not parse: %v", err)
	}
	var b strings.Builder
	fmt.Fprintf(&b, "package %s\n\nimport (\n\tverifbus \"github.com/lugu/qiloop/bus\"\n\tverifrt \"verif/c05rt\"\n)\n\n", f.Name.Name)
	fmt.Fprintf(&b, "// VerifRegister registers the interfaces of this package.\nfunc VerifRegister(reg *verifrt.Registry) {\n")
	var impls strings.Builder
	for _, it := range pkg.Ifaces {
		// the generator capitalises / cleans names: find the declared identifiers by position
		gname := ""
		for _, d := range f.Decls {
			if gd, ok := d.(*ast.GenDecl); ok {
				for _, sp := range gd.Specs {
					if ts, ok := sp.(*ast.TypeSpec); ok && strings.HasSuffix(ts.Name.Name, "Implementor") {
						cand := strings.TrimSuffix(ts.Name.Name, "Implementor")
						if strings.EqualFold(cand, it.Name) || strings.EqualFold(strings.Replace(cand, "_", "", -1), strings.Replace(it.Name, "_", "", -1)) {
							gname = cand
						}
					}
				}
			}
		}
		if gname == "" {
			return fmt.Errorf("no Implementor interface found for %s", it.Name)
		}
		implM := ifaceMethods(f, gname+"Implementor")
		proxyM := ifaceMethods(f, gname+"Proxy")
		helperM := ifaceMethods(f, gname+"SignalHelper")
		// Implementor: Activate, OnTerminate, methods..., On<Prop>Change...
		if len(implM) != 2+len(it.Methods)+len(it.Props) {
			return fmt.Errorf("%sImplementor has %d methods, expected %d", gname, len(implM), 2+len(it.Methods)+len(it.Props))
		}
		if len(helperM) != len(it.Signals)+len(it.Props) {
			return fmt.Errorf("%sSignalHelper has %d methods, expected %d", gname, len(helperM), len(it.Signals)+len(it.Props))
		}
		// Proxy: methods..., Subscribe per signal, (Get, Set, Subscribe) per property, WithContext
		if len(proxyM) != len(it.Methods)+len(it.Signals)+3*len(it.Props)+1 {
			return fmt.Errorf("%sProxy has %d methods, expected %d", gname, len(proxyM), len(it.Methods)+len(it.Signals)+3*len(it.Props)+1)
		}
		tn := "verifImpl" + gname
		fmt.Fprintf(&impls, "type %s struct{ rec *verifrt.Recorder }\n\n", tn)
		fmt.Fprintf(&impls, "func (x *%s) Activate(a0 verifbus.Activation, a1 %sSignalHelper) error { return x.rec.Activate(a1) }\n", tn, gname)
		fmt.Fprintf(&impls, "func (x *%s) OnTerminate() {}\n", tn)
		for k, m := range implM[2:] {
			ft := m.Type.(*ast.FuncType)
			var params, names []string
			n := 0
			if ft.Params != nil {
				for _, p := range ft.Params.List {
					cnt := len(p.Names)
					if cnt == 0 {
						cnt = 1
					}
					for q := 0; q < cnt; q++ {
						params = append(params, fmt.Sprintf("a%d %s", n, typeStr(fset, p.Type)))
						names = append(names, fmt.Sprintf("a%d", n))
						n++
					}
				}
			}
			var results []string
			if ft.Results != nil {
				for _, r := range ft.Results.List {
					cnt := len(r.Names)
					if cnt == 0 {
						cnt = 1
					}
					for q := 0; q < cnt; q++ {
						results = append(results, typeStr(fset, r.Type))
					}
				}
			}
			key := it.Name + "." + m.Names[0].Name
			_ = k
			switch len(results) {
			case 1:
				fmt.Fprintf(&impls, "func (x *%s) %s(%s) error { return x.rec.Call(%q, []interface{}{%s}, nil) }\n", tn, m.Names[0].Name, strings.Join(params, ", "), key, strings.Join(names, ", "))
			case 2:
				fmt.Fprintf(&impls, "func (x *%s) %s(%s) (%s, error) { var r0 %s; e0 := x.rec.Call(%q, []interface{}{%s}, &r0); return r0, e0 }\n", tn, m.Names[0].Name, strings.Join(params, ", "), results[0], results[0], key, strings.Join(names, ", "))
			default:
				return fmt.Errorf("unexpected result count for %s", m.Names[0].Name)
			}
		}
		impls.WriteString("\n")
		fmt.Fprintf(&b, "\treg.Add(&verifrt.Iface{Pkg: %q, Name: %q,\n", pkg.Name, it.Name)
		b.WriteString("\t\tMethods: []verifrt.M{")
		for k, m := range it.Methods {
			fmt.Fprintf(&b, "{IDL: %q, Impl: %q, Proxy: %q, HasRet: %v}, ", m.Name, implM[2+k].Names[0].Name, proxyM[k].Names[0].Name, m.HasRet)
		}
		b.WriteString("},\n\t\tSignals: []verifrt.S{")
		for k, s := range it.Signals {
			fmt.Fprintf(&b, "{IDL: %q, Helper: %q, Sub: %q, NParams: %d}, ", s.Name, helperM[k].Names[0].Name, proxyM[len(it.Methods)+k].Names[0].Name, s.NParams)
		}
		b.WriteString("},\n\t\tProps: []verifrt.P{")
		for k, p := range it.Props {
			base := len(it.Methods) + len(it.Signals) + 3*k
			fmt.Fprintf(&b, "{IDL: %q, Update: %q, Get: %q, Set: %q, Sub: %q, On: %q}, ", p, helperM[len(it.Signals)+k].Names[0].Name,
				proxyM[base].Names[0].Name, proxyM[base+1].Names[0].Name, proxyM[base+2].Names[0].Name, implM[2+len(it.Methods)+k].Names[0].Name)
		}
		fmt.Fprintf(&b, "},\n\t\tNewActor: func(rec *verifrt.Recorder) verifbus.Actor { return %sObject(&%s{rec}) },\n", gname, tn)
		fmt.Fprintf(&b, "\t\tMakeProxy: func(s verifbus.Session, p verifbus.Proxy) interface{} { return Make%s(s, p) },\n\t})\n", gname)
	}
	b.WriteString("}\n\n")
	b.WriteString(impls.String())
	// the type expressions copied from the generated code may be qualified: import what they use,
	// under the names the generated file uses
	out := b.String()
	extra := ""
	for _, im := range f.Imports {
		path := strings.Trim(im.Path.Value, "\"")
		alias := path[strings.LastIndex(path, "/")+1:]
		if im.Name != nil {
			alias = im.Name.Name
		}
		if alias == "verifbus" || alias == "verifrt" {
			continue
		}
		if regexp.MustCompile(`[^A-Za-z0-9_.]` + regexp.QuoteMeta(alias) + `\.[A-Z]`).MatchString(impls.String()) {
			extra += fmt.Sprintf("\t%s %q\n", alias, path)
		}
	}
	out = strings.Replace(out, "\tverifrt \"verif/c05rt\"\n)", "\tverifrt \"verif/c05rt\"\n"+extra+")", 1)
	return ioutil.WriteFile(dir+"/zz_verif.go", []byte(out), 0644)
}

var reGoErr = regexp.MustCompile(`gen/c05/[^/]+/(p\d+)/[a-z_]+\.go:\d+:\d+: (.*)`)

var reIdent = regexp.MustCompile(`\b[A-Za-z_][A-Za-z0-9_]*\b`)

// errClass normalises a compiler message into a finding class.
func errClass(msg string) string {
	msg = regexp.MustCompile(`\d+`).ReplaceAllString(msg, "N")
	switch {
	case strings.Contains(msg, "redeclared"):
		return "redeclared"
	case strings.Contains(msg, "declared and not used"):
		return "declared-and-not-used"
	case strings.Contains(msg, "undefined"):
		return "undefined"
	case strings.Contains(msg, "cannot use"):
		return "cannot-use"
	case strings.Contains(msg, "is not a type"):
		return "is-not-a-type"
	case strings.Contains(msg, "syntax error"), strings.Contains(msg, "expected"):
		return "syntax-error"
	case strings.Contains(msg, "duplicate"):
		return "duplicate"
	case strings.Contains(msg, "missing method"), strings.Contains(msg, "does not implement"):
		return "does-not-implement"
	case strings.Contains(msg, "not enough arguments"), strings.Contains(msg, "too many arguments"):
		return "argument-count"
	}
	w := strings.Fields(msg)
	if len(w) > 4 {
		w = w[:4]
	}
	return strings.Join(w, "-")
}

// culprit finds the user identifier an error message talks about and returns its role in the IDL
// ("role=method-parameter"), so that findings are keyed by where the offending name was used, not by the name.
func culprit(p *idlPkg, msg string) string {
	best := ""
	for _, id := range reIdent.FindAllString(msg, -1) {
		if r, ok := p.Roles[id]; ok {
			return "role=" + r
		}
		for u, r := range p.Roles {
			if strings.EqualFold(u, id) || strings.EqualFold("stub"+u, id) || strings.EqualFold("proxy"+u, id) || strings.EqualFold(strings.TrimSuffix(id, "Proxy"), u) ||
				strings.EqualFold(strings.TrimPrefix(id, "Subscribe"), u) || strings.EqualFold(strings.TrimPrefix(id, "Signal"), u) {
				if best == "" || r < best {
					best = r
				}
			}
		}
		if best != "" {
			return "role=" + best
		}
	}
	return "role=unknown"
}

func run(dir string, name string, args ...string) (string, error) {
	cmd := exec.Command(name, args...)
	cmd.Dir = dir
	env := []string{}
	for _, kv := range os.Environ() {
		if strings.HasPrefix(kv, "GOFLAGS=") || strings.HasPrefix(kv, "GORACE=") {
			continue
		}
		env = append(env, kv)
	}
	cmd.Env = append(env, "GOFLAGS=-mod=mod", "GOPROXY=off", "GOSUMDB=off", "GOTOOLCHAIN=local")
	out, err := cmd.CombinedOutput()
	return string(out), err
}

func main() {
	if len(os.Args) < 2 || os.Args[1] != "C05" {
		fmt.Fprintln(os.Stderr, "usage: codegen C05 [flags]")
		os.Exit(2)
	}
	c := wk.Parse("C05", os.Args[2:])
	c.NoViolationCap = true // the sweep reports every failing (role, identifier) pair
	c05(c)
	c.Done()
}

func c05(c *wk.Ctx) {
	c.Note("rule", "each case is a generated well-formed IDL package (1-3 interfaces; 0-3 structs, shared and nested; methods with 0-5 parameters and optional return; signals with 1-3 parameters; single-parameter properties; all scalar types, any, Vec, Map, struct references; class tuples adds Tuple<...>; class hygiene draws identifiers from Go keywords, predeclared names, the generators' own local names, imported package names and reserved proxy method names, leaving out the (role, identifier) pairs that are listed as known findings, so that every package of the class is expected to work; class overloads = interfaces with three to six members sharing one name (overloaded methods with different parameter lists, a signal and a property of that name); class kinds = one fixed package with a method, a signal and a property for every basic IDL type; class sweep = a small fixed package with exactly ONE special identifier in ONE role, or two action names differing by the case of the first letter: every (role, identifier) pair in the thorough tier; in the quick tier the 45 pairs made of reserved object / proxy method names used as action names and of capitalisation twins, plus 115 seed-chosen ones; a failing pair is reported under hygiene/role=R/ident=I/symptom=generator-fails | declarations-missing | does-not-compile | round-trip-fails | runner-crashes). The IDL is first accepted by the real IDL parser, then the stub/proxy generator built from the current tree produces Go code; implementors and drivers are emitted by reading the generated code's own interfaces (go/ast). Oracle 1: everything compiles (go build; failing packages are identified from the compiler output and excluded, the rest is rebuilt). Oracle 2 (runner process, real directory server + session): for every method, reflection-filled random arguments arrive at the implementation equal and exactly once and the preset return value arrives at the caller equal; every signal emitted through the generated helper reaches the generated subscriber equal; property set/get/update round-trip and the change callback sees the written value. Distinct non-trivial = distinct packages that compiled and completed at least one round-trip check.; mixed concurrent phase: one goroutine per property (set a fresh value, read it back) and per method (up to four) of an interface, all released together through one generated proxy, 25 operations each: no error, every property reads back what its only writer wrote")
	root := os.Getenv("VERIF_ROOT")
	if root == "" {
		root = "/verif"
	}
	harness := root + "/harness"
	stubgen := root + "/build/stubgen"
	rounds := c.Pick(8, 20)
	total := c.Pick(36, 8000)
	base := fmt.Sprintf("%s/gen/c05/s%02d", harness, c.Shard)
	os.RemoveAll(base)
	os.MkdirAll(base, 0755)
	defer os.RemoveAll(base)

	type built struct {
		pkg idlPkg
		idx int
	}
	var pkgs []built
	loadKnownBadPairs(root)
	// deterministic sweep: cases total .. total+nSweep-1 are the (role, identifier) pairs, in an order fixed
	// by the seed; the quick tier takes the first 160 of that order, the thorough tier all of them
	pairs := sweepPairs()
	sweepOrder := rand.New(rand.NewSource(c.Seed ^ 0x5eed)).Perm(len(pairs))
	// the reserved object / proxy method names used as action names come first (always in the quick tier)
	reserved := map[string]bool{}
	for _, r := range []string{"subscribe", "metaObject", "terminate", "call", "withContext", "registerEvent", "property", "setProperty", "properties", "proxy", "onTerminate", "activate", "receive"} {
		reserved[r] = true
	}
	prio := func(k int) bool {
		pr := pairs[k]
		return reserved[pr[1]] && (pr[0] == "method-name" || pr[0] == "signal-name" || pr[0] == "property-name") || pr[0] == "capitalisation-twin"
	}
	sort.SliceStable(sweepOrder, func(a, b int) bool { return prio(sweepOrder[a]) && !prio(sweepOrder[b]) })
	nSweep := c.Pick(160, len(pairs))
	nOver := c.Pick(12, 400)
	c.Cases("package", total+nSweep+1+nOver, func(i int, rng *rand.Rand) {
		class := []string{"plain", "plain", "hygiene", "tuples"}[i%4]
		if o := os.Getenv("C05_CLASS"); o != "" {
			class = o
		}
		var pkg idlPkg
		if i > total+nSweep {
			class = "overloads"
			pkg = genOverloadPackage(rng, i)
			c.Count("packages_with_three_or_more_members_of_one_name", 1)
		} else if i == total+nSweep {
			class = "kinds"
			pkg = genKindsPackage(i)
		} else if i >= total {
			pr := pairs[sweepOrder[i-total]]
			class = "sweep"
			pkg = genSweepPackage(i, pr[0], pr[1])
			c.Count("sweep_packages_one_special_identifier_in_one_role", 1)
		} else {
			pkg = genPackage(rng, i, class)
		}
		if len(pkg.Ifaces) == 0 {
			return
		}
		if _, err := idl.ParsePackage([]byte(pkg.Text)); err != nil {
			c.Count("idl_rejected_by_parser_"+class, 1)
			return
		}
		dir := fmt.Sprintf("%s/%s", base, pkg.Name)
		os.MkdirAll(dir, 0755)
		ioutil.WriteFile(dir+"/pkg.idl", []byte(pkg.Text), 0644)
		out, err := run(dir, stubgen, "--idl", "pkg.idl", "--output", "gen.go", "--path", fmt.Sprintf("verif/gen/c05/s%02d/%s", c.Shard, pkg.Name))
		if st, e := os.Stat(dir + "/gen.go"); err != nil || e != nil || st.Size() == 0 {
			gkey := "generator=failed/" + culprit(&pkg, out) + "/class=" + class
			if class == "hygiene" || class == "sweep" {
				gkey = hygKey(&pkg, out, "generator-fails")
			}
			c.Viol("package", i, gkey, "the generator failed on an IDL package the parser accepts: "+clip(out, 300), map[string]interface{}{"idl": pkg.Text})
			os.RemoveAll(dir)
			return
		}
		if err := emitDriver(dir, pkg); err != nil {
			skey := "generated=unexpected-shape/class=" + class
			if class == "hygiene" || class == "sweep" {
				skey = hygKey(&pkg, err.Error(), "declarations-missing")
			}
			c.Viol("package", i, skey, "generated code does not have the expected declarations: "+err.Error(), map[string]interface{}{"idl": pkg.Text})
			os.RemoveAll(dir)
			return
		}
		pkgs = append(pkgs, built{pkg, i})
		if c.WantSample() && i%9 == 0 {
			c.Sample(map[string]interface{}{"package": pkg.Name, "class": class, "idl": pkg.Text})
		}
	})
	if len(pkgs) == 0 {
		return
	}
	byName := map[string]built{}
	for _, b := range pkgs {
		byName[b.pkg.Name] = b
	}
	// build, excluding the packages that do not compile
	excluded := map[string]bool{}
	bin := base + "/runner"
	for attempt := 0; attempt < 8; attempt++ {
		var m strings.Builder
		m.WriteString("package main\n\nimport (\n\t\"os\"\n\t\"strconv\"\n\tverifrt \"verif/c05rt\"\n")
		names := []string{}
		for _, b := range pkgs {
			if !excluded[b.pkg.Name] {
				names = append(names, b.pkg.Name)
			}
		}
		sort.Strings(names)
		for _, n := range names {
			fmt.Fprintf(&m, "\t%s \"verif/gen/c05/s%02d/%s\"\n", n, c.Shard, n)
		}
		m.WriteString(")\n\nfunc main() {\n\treg := &verifrt.Registry{}\n")
		for _, n := range names {
			fmt.Fprintf(&m, "\t%s.VerifRegister(reg)\n", n)
		}
		m.WriteString("\tseed, _ := strconv.ParseInt(os.Args[1], 10, 64)\n\trounds, _ := strconv.Atoi(os.Args[2])\n\tverifrt.Run(reg, seed, rounds)\n}\n")
		os.MkdirAll(base+"/runnermain", 0755)
		ioutil.WriteFile(base+"/runnermain/main.go", []byte(m.String()), 0644)
		if len(names) == 0 {
			break
		}
		out, err := run(harness, "go", "build", "-o", bin, fmt.Sprintf("./gen/c05/s%02d/runnermain", c.Shard))
		if err == nil {
			break
		}
		found := map[string][]string{}
		for _, l := range strings.Split(out, "\n") {
			if mm := reGoErr.FindStringSubmatch(l); mm != nil {
				found[mm[1]] = append(found[mm[1]], mm[2])
			}
		}
		if len(found) == 0 {
			c.Inconclusive("package", -1, "go build failed without an attributable error: "+clip(out, 600))
			return
		}
		for name, msgs := range found {
			b := byName[name]
			excluded[name] = true
			cls := errClass(msgs[0]) + "/" + culprit(&b.pkg, msgs[0])
			key := "compile=" + cls + "/class=" + b.pkg.Class
			if b.pkg.Class == "hygiene" || b.pkg.Class == "sweep" {
				key = hygKey(&b.pkg, strings.Join(msgs, " "), "does-not-compile")
			}
			c.Viol("package", b.idx, key, "generated code does not compile: "+msgs[0], map[string]interface{}{"idl": b.pkg.Text, "errors": msgs})
		}
		os.Remove(bin)
	}
	if _, err := os.Stat(bin); err != nil {
		return
	}
	// run
	cmd := exec.Command(bin, fmt.Sprint(c.Seed*1000+int64(c.Shard)), fmt.Sprint(rounds))
	cmd.Dir = base
	var stderr bytes.Buffer
	cmd.Stderr = &stderr
	stdout, _ := cmd.StdoutPipe()
	if err := cmd.Start(); err != nil {
		c.Inconclusive("package", -1, "runner: "+err.Error())
		return
	}
	done := make(chan struct{})
	current := ""
	go func() {
		defer close(done)
		sc := bufio.NewScanner(stdout)
		sc.Buffer(make([]byte, 1<<20), 16<<20)
		for sc.Scan() {
			var r c05rt.Result
			if json.Unmarshal(sc.Bytes(), &r) != nil {
				continue
			}
			b := byName[r.Pkg]
			switch r.T {
			case "begin":
				current = r.Pkg
			case "viol":
				key := r.Key
				if strings.HasPrefix(key, "signal=") {
					// a multi-parameter signal declared under the same name in two interfaces of the package
					// makes the generator emit two payload structs with one name: qualify the finding
					sig := strings.SplitN(r.What, ":", 2)[0]
					n := 0
					for _, it := range b.pkg.Ifaces {
						for _, sg := range it.Signals {
							if sg.Name == sig {
								n++
							}
						}
					}
					if n >= 2 {
						key += "/cause=signal-name-shared-between-interfaces"
					}
				}
				key += "/class=" + b.pkg.Class
				if b.pkg.Class == "sweep" {
					key = b.pkg.SweepKey + "/symptom=round-trip-fails"
				}
				c.Viol("package", b.idx, key, r.What, map[string]interface{}{"idl": b.pkg.Text, "interface": r.Iface})
			case "ok":
				c.Eval(r.Checks)
				c.Count("roundtrip_checks", int64(r.Checks))
				c.Count("members_used_at_the_same_moment_(mixed_concurrent_phase)", int64(r.Mixed))
				if r.Checks > 0 {
					c.Nontrivial(wk.Hash64("C05", b.pkg.Text))
				}
			}
		}
	}()
	waitErr := make(chan error, 1)
	go func() { waitErr <- cmd.Wait() }()
	select {
	case err := <-waitErr:
		<-done
		if err != nil {
			b := byName[current]
			se := stderr.String()
			kind, msg, site := wk.ClassifyCrash(se)
			_ = kind
			ckey := "runner=crashed/site=" + site + "/msg=" + msg + "/class=" + b.pkg.Class
			if b.pkg.Class == "sweep" {
				ckey = b.pkg.SweepKey + "/symptom=runner-crashes"
			}
			c.Viol("package", b.idx, ckey, "the runner died while driving generated code: "+clip(se, 300), map[string]interface{}{"idl": b.pkg.Text, "stderr": clip(se, 4000)})
		}
	case <-time.After(20 * time.Minute):
		cmd.Process.Kill()
		c.Inconclusive("package", -1, "runner watchdog")
	}
	c.Count("packages_compiled", int64(len(pkgs)-len(excluded)))
	c.Count("packages_not_compiling", int64(len(excluded)))
	_ = filepath.Join
}

func clip(s string, n int) string {
	if len(s) > n {
		return s[:n] + "..."
	}
	return s
}
