package main

import (
	"bytes"
	"fmt"
	"io"
	"math/rand"
	"runtime"

	qnet "github.com/lugu/qiloop/bus/net"

	"verif/refcodec"
	"verif/wk"
)

func init() { engines["C01"] = c01 }

const maxPayload = 10 * 1024 * 1024 // documented/implemented payload limit

var edgeU32 = []uint32{0, 1, 2, 0x7fffffff, 0x80000000, 0xffffffff, 0x42dead42, 28, 255, 256, 65535, 65536}

func genU32(rng *rand.Rand) uint32 {
	if rng.Intn(2) == 0 {
		return edgeU32[rng.Intn(len(edgeU32))]
	}
	return rng.Uint32()
}

var edgeLens = []int{0, 1, 2, 3, 4, 27, 28, 29, 55, 56, 57, 255, 256, 4095, 4096, 4097, 65535, 65536}

func genPayload(rng *rand.Rand, max int) []byte {
	var n int
	switch rng.Intn(4) {
	case 0:
		n = edgeLens[rng.Intn(len(edgeLens))]
	case 1:
		n = rng.Intn(64)
	default:
		n = rng.Intn(max + 1)
	}
	if n > max {
		n = max
	}
	p := make([]byte, n)
	rng.Read(p)
	if n >= 28 && rng.Intn(3) == 0 {
		// header look-alike inside the payload
		h := refcodec.Header{Magic: refcodec.Magic, ID: rng.Uint32(), Size: uint32(rng.Intn(100)), Type: uint8(1 + rng.Intn(8))}
		copy(p[rng.Intn(n-27):], h.Bytes())
	}
	return p
}

func genHeader(rng *rand.Rand) refcodec.Header {
	return refcodec.Header{Magic: refcodec.Magic, ID: genU32(rng), Version: 0, Type: uint8(1 + rng.Intn(8)),
		Flags: uint8(rng.Intn(256)), Service: genU32(rng), Object: genU32(rng), Action: genU32(rng)}
}

func toMsg(h refcodec.Header, payload []byte) qnet.Message {
	return qnet.Message{Header: qnet.Header{Magic: h.Magic, ID: h.ID, Size: uint32(len(payload)), Version: h.Version, Type: h.Type,
		Flags: h.Flags, Service: h.Service, Object: h.Object, Action: h.Action}, Payload: payload}
}

func sameMsg(m *qnet.Message, h refcodec.Header, payload []byte) string {
	g := m.Header
	if g.Magic != h.Magic || g.ID != h.ID || g.Size != uint32(len(payload)) || g.Version != h.Version || g.Type != h.Type ||
		g.Flags != h.Flags || g.Service != h.Service || g.Object != h.Object || g.Action != h.Action {
		return fmt.Sprintf("header differs: got %+v want %+v size %d", g, h, len(payload))
	}
	if !bytes.Equal(m.Payload, payload) {
		return fmt.Sprintf("payload differs (len got %d want %d)", len(m.Payload), len(payload))
	}
	return ""
}

func lenClass(n int) string {
	switch {
	case n == 0:
		return "0"
	case n < 28:
		return "<28"
	case n == 28:
		return "28"
	case n < 4096:
		return "<4k"
	case n < 65536:
		return "<64k"
	case n < maxPayload:
		return "<limit"
	default:
		return "limit"
	}
}

type fragPlan struct {
	name string
	mk   func(rng *rand.Rand) func(int) int
	eof  bool
}

// writeCheck writes the message with the real code and compares with the reference layout.
func writeCheck(c *wk.Ctx, stream string, i int, h refcodec.Header, payload []byte) []byte {
	m := toMsg(h, payload)
	var w recWriter
	if err := m.Write(&w); err != nil {
		c.Viol(stream, i, "write=error", "Message.Write failed on a valid message: "+err.Error(), map[string]interface{}{"header": h, "len": len(payload)})
		return nil
	}
	want := refcodec.Frame(h, payload)
	if !bytes.Equal(w.buf, want) {
		k := 0
		for k < len(w.buf) && k < len(want) && w.buf[k] == want[k] {
			k++
		}
		c.Viol(stream, i, "wire=layout", fmt.Sprintf("bytes on the wire differ from the documented layout at offset %d", k),
			map[string]interface{}{"header": h, "len": len(payload), "got_prefix": fmt.Sprintf("%x", w.buf[:minI(len(w.buf), 40)]), "want_prefix": fmt.Sprintf("%x", want[:minI(len(want), 40)])})
		return nil
	}
	if len(w.calls) != 1 {
		c.Count("write_calls_not_single", 1)
	}
	return want
}

func minI(a, b int) int {
	if a < b {
		return a
	}
	return b
}

// failingWriter accepts `after` bytes, then fails in one of the ways a stream can fail.
type failingWriter struct {
	mode, after, seen int
	failed            bool
}

func (w *failingWriter) Write(p []byte) (int, error) {
	room := w.after - w.seen
	if room >= len(p) {
		w.seen += len(p)
		return len(p), nil
	}
	w.failed = true
	if room < 0 {
		room = 0
	}
	w.seen += room
	switch w.mode {
	case 0:
		return 0, io.EOF
	case 1:
		return room, io.EOF
	case 2:
		return 0, io.ErrClosedPipe
	case 3:
		return room, io.ErrShortWrite
	default:
		return room, fmt.Errorf("harness: write failed")
	}
}

func c01(c *wk.Ctx) {
	c.Note("rule", "streams: rt = random valid header x payload (edge and random lengths) written with Message.Write, compared byte-for-byte with the reference layout, read back with Message.Read under several fragmentation plans (fixed chunk 1..64, random chunks, all-at-once, final chunk delivered with io.EOF) with exact consumption accounting; seq = 1..20 messages back to back under a random fragmentation (once into fresh Message values, once into one reused Message variable) then a final read that must fail; seq-large = 2-5 messages back to back of which one or two carry 64 KiB - 1 MiB (not a multiple of 64 KiB) and are followed by others, the reader being offered everything at once, up to 256 KiB or up to 4 KiB per read; failed-write = 1-4 messages to a healthy stream, half of them preceded by a write to a stream that fails (0 or some bytes accepted, io.EOF / closed pipe / short write / other error): each healthy write puts exactly its own encoding on the wire; bad = invalid headers (magic, version, type, over-limit size) that must be refused with <=28 bytes consumed; big = messages of 1 MiB / limit-1 / limit. A case is non-trivial and distinct by (stream, payload length class, message type, fragmentation plan, verdict class).")
	plans := []fragPlan{
		{"all", func(*rand.Rand) func(int) int { return planAll() }, false},
		{"all+eof", func(*rand.Rand) func(int) int { return planAll() }, true},
		{"rand7", func(r *rand.Rand) func(int) int { return planRandom(r, 7) }, false},
		{"rand7+eof", func(r *rand.Rand) func(int) int { return planRandom(r, 7) }, true},
		{"rand4k", func(r *rand.Rand) func(int) int { return planRandom(r, 4096) }, true},
		{"one", func(*rand.Rand) func(int) int { return planFixed(1) }, false},
	}
	maxRand := c.Pick(16384, 65536)
	// reuse: the caller reads the whole sequence into ONE Message variable (what a read loop does)
	reuse := false
	readBack := func(stream string, i int, wire []byte, hs []refcodec.Header, ps [][]byte, name string, plan func(int) int, eof bool) {
		r := &fragReader{data: wire, plan: plan, eofWithData: eof}
		expect := 0
		var shared qnet.Message
		if reuse {
			name += "+reused"
		}
		for k := range hs {
			var fresh qnet.Message
			m := &fresh
			if reuse {
				m = &shared
			}
			err := m.Read(r)
			expect += 28 + len(ps[k])
			if err != nil {
				c.Viol(stream, i, "read=error", fmt.Sprintf("Message.Read failed on message %d/%d of a valid stream (plan %s): %v", k+1, len(hs), name, err),
					map[string]interface{}{"header": hs[k], "len": len(ps[k]), "plan": name})
				return
			}
			if d := sameMsg(m, hs[k], ps[k]); d != "" {
				c.Viol(stream, i, "read=differs", fmt.Sprintf("message %d/%d read back differs (plan %s): %s", k+1, len(hs), name, d),
					map[string]interface{}{"header": hs[k], "len": len(ps[k]), "plan": name})
				return
			}
			if r.off != expect {
				c.Viol(stream, i, "read=consumption", fmt.Sprintf("after message %d/%d the reader consumed %d bytes, expected exactly %d (plan %s)", k+1, len(hs), r.off, expect, name),
					map[string]interface{}{"header": hs[k], "len": len(ps[k]), "plan": name})
				return
			}
		}
		var m qnet.Message
		if err := m.Read(r); err == nil {
			c.Viol(stream, i, "read=phantom", fmt.Sprintf("a message was read past the end of a %d-message stream (plan %s)", len(hs), name), map[string]interface{}{"plan": name})
		} else if err != io.EOF {
			c.Count("final_read_error_not_io.EOF", 1)
		}
	}

	c.Cases("rt", c.Pick(24000, 480000), func(i int, rng *rand.Rand) {
		h := genHeader(rng)
		p := genPayload(rng, maxRand)
		wire := writeCheck(c, "rt", i, h, p)
		if wire == nil {
			return
		}
		// three plans per message: one fixed chunk size (cycling 1..64), two from the table
		k := 1 + i%64
		readBack("rt", i, wire, []refcodec.Header{h}, [][]byte{p}, fmt.Sprintf("fixed%d", k), planFixed(k), i%2 == 0)
		c.Nontrivial(wk.Hash64("rt", lenClass(len(p)), h.Type, "fixed", k))
		for n := 0; n < 2; n++ {
			pl := plans[rng.Intn(len(plans))]
			readBack("rt", i, wire, []refcodec.Header{h}, [][]byte{p}, pl.name, pl.mk(rng), pl.eof)
			c.Nontrivial(wk.Hash64("rt", lenClass(len(p)), h.Type, pl.name))
		}
		c.Eval(2)
		if c.WantSample() && i%7 == 0 {
			c.Sample(map[string]interface{}{"stream": "rt", "header": h, "payload_len": len(p), "fixed_chunk": k})
		}
	})

	if c.Thorough() {
		// every chunk size 1..64 for small messages
		c.Cases("rt-allchunks", 4000, func(i int, rng *rand.Rand) {
			h := genHeader(rng)
			p := genPayload(rng, 228)
			wire := writeCheck(c, "rt-allchunks", i, h, p)
			if wire == nil {
				return
			}
			for k := 1; k <= 64; k++ {
				readBack("rt-allchunks", i, wire, []refcodec.Header{h}, [][]byte{p}, fmt.Sprintf("fixed%d", k), planFixed(k), k%2 == 0)
			}
			c.Eval(63)
			c.Nontrivial(wk.Hash64("rt-allchunks", len(p), h.Type))
		})
	}

	c.Cases("seq", c.Pick(1500, 20000), func(i int, rng *rand.Rand) {
		n := 1 + rng.Intn(20)
		var wire []byte
		hs := make([]refcodec.Header, n)
		ps := make([][]byte, n)
		for k := 0; k < n; k++ {
			hs[k] = genHeader(rng)
			ps[k] = genPayload(rng, 3000)
			m := toMsg(hs[k], ps[k])
			var w recWriter
			if err := m.Write(&w); err != nil {
				c.Viol("seq", i, "write=error", "Message.Write failed: "+err.Error(), nil)
				return
			}
			wire = append(wire, w.buf...)
		}
		pl := plans[rng.Intn(len(plans))]
		readBack("seq", i, wire, hs, ps, pl.name, pl.mk(rng), pl.eof)
		k := 1 + rng.Intn(64)
		reuse = true
		readBack("seq", i, wire, hs, ps, fmt.Sprintf("fixed%d", k), planFixed(k), rng.Intn(2) == 0)
		reuse = false
		c.Count("sequences_read_into_one_reused_message", 1)
		c.Nontrivial(wk.Hash64("seq", n, pl.name, k))
		if c.WantSample() && i%97 == 0 {
			c.Sample(map[string]interface{}{"stream": "seq", "messages": n, "total_bytes": len(wire), "plan": pl.name, "fixed_chunk": k})
		}
	})

	// seq-large: back-to-back sequences in which one or two messages carry a payload larger than the
	// sizes at which implementations change strategy (64 KiB, 128 KiB, 256 KiB, 1 MiB; not a multiple
	// of them) and small messages follow immediately: a reader that is offered the whole stream at once
	// must still take exactly 28 + size bytes for the large message
	largeLens := []int{65537, 66000, 70001, 100000, 131071, 131073, 200003, 262145, 300001, 1<<20 + 5}
	c.Cases("seq-large", c.Pick(90, 2000), func(i int, rng *rand.Rand) {
		n := 2 + rng.Intn(4)
		var wire []byte
		hs := make([]refcodec.Header, n)
		ps := make([][]byte, n)
		big := rng.Intn(n - 1) // never the last one: something follows it
		for k := 0; k < n; k++ {
			hs[k] = genHeader(rng)
			if k == big || rng.Intn(6) == 0 {
				ps[k] = make([]byte, largeLens[rng.Intn(len(largeLens))]+rng.Intn(3))
				rng.Read(ps[k])
			} else {
				ps[k] = genPayload(rng, 3000)
			}
			m := toMsg(hs[k], ps[k])
			var w recWriter
			if err := m.Write(&w); err != nil {
				c.Viol("seq-large", i, "write=error", "Message.Write failed: "+err.Error(), nil)
				return
			}
			wire = append(wire, w.buf...)
		}
		switch rng.Intn(3) {
		case 0:
			readBack("seq-large", i, wire, hs, ps, "all", planAll(), rng.Intn(2) == 0)
		case 1:
			readBack("seq-large", i, wire, hs, ps, "rand256k", planRandom(rng, 262144), rng.Intn(2) == 0)
		default:
			readBack("seq-large", i, wire, hs, ps, "rand4k", planRandom(rng, 4096), rng.Intn(2) == 0)
		}
		c.Count("sequences_with_a_large_message_followed_by_others", 1)
		c.Nontrivial(wk.Hash64("seq-large", n, len(ps[big])))
		if c.WantSample() && i%29 == 0 {
			c.Sample(map[string]interface{}{"stream": "seq-large", "messages": n, "total_bytes": len(wire), "large_payload": len(ps[big])})
		}
	})

	// failed-write: a write that fails (in every way a stream can fail) must leave nothing behind: the
	// next message written, to the same or to another stream, is exactly its own 28+n bytes
	c.Cases("failed-write", c.Pick(3000, 60000), func(i int, rng *rand.Rand) {
		var good recWriter
		n := 1 + rng.Intn(4)
		for k := 0; k < n; k++ {
			h, p := genHeader(rng), genPayload(rng, 2000)
			m := toMsg(h, p)
			if rng.Intn(2) == 0 {
				// this one goes to a failing stream first
				fw := &failingWriter{mode: rng.Intn(5), after: rng.Intn(28 + len(p) + 1)}
				h2, p2 := genHeader(rng), genPayload(rng, 2000)
				m2 := toMsg(h2, p2)
				if err := m2.Write(fw); err == nil && fw.failed {
					c.Viol("failed-write", i, "write=error-swallowed", fmt.Sprintf("Message.Write returned nil although the stream failed (mode %d after %d bytes)", fw.mode, fw.after), nil)
					return
				}
				c.Count("writes_to_a_failing_stream", 1)
			}
			before := len(good.buf)
			if err := m.Write(&good); err != nil {
				c.Viol("failed-write", i, "write=error", "Message.Write to a healthy stream failed after a failed write elsewhere: "+err.Error(), nil)
				return
			}
			want := refcodec.Frame(h, p)
			if got := good.buf[before:]; !bytes.Equal(got, want) {
				c.Viol("failed-write", i, "write=layout/after-failed-write", fmt.Sprintf("after a failed write the next message put %d bytes on the wire, its encoding has %d", len(got), len(want)),
					map[string]interface{}{"wire": hx(got, 96), "expected": hx(want, 96)})
				return
			}
		}
		c.Nontrivial(wk.Hash64("failed-write", n, i%64))
	})

	c.Cases("bad", c.Pick(6000, 200000), func(i int, rng *rand.Rand) {
		h := genHeader(rng)
		h.Size = uint32(rng.Intn(64))
		what := ""
		switch i % 4 {
		case 0:
			switch rng.Intn(4) {
			case 0:
				h.Magic ^= 1 << uint(rng.Intn(32))
			case 1:
				h.Magic = 0x42adde42 // byte swapped
			case 2:
				h.Magic = 0
			default:
				h.Magic = rng.Uint32()
				if h.Magic == refcodec.Magic {
					h.Magic++
				}
			}
			what = "magic"
		case 1:
			h.Version = uint16(1 + rng.Intn(65535))
			what = "version"
		case 2:
			if rng.Intn(3) == 0 {
				h.Type = 0
			} else {
				h.Type = uint8(9 + rng.Intn(247))
			}
			what = "type"
		case 3:
			switch rng.Intn(4) {
			case 0:
				h.Size = maxPayload + 1
			case 1:
				h.Size = 0xffffffff
			case 2:
				h.Size = 0x80000000
			default:
				h.Size = maxPayload + 1 + uint32(rng.Int63n(int64(0xffffffff-maxPayload-1)))
			}
			what = "size"
		}
		// the stream offers the header and 64 further bytes
		wire := append(h.Bytes(), make([]byte, 64)...)
		r := &fragReader{data: wire, plan: planRandom(rng, 40)}
		var ms0, ms1 runtime.MemStats
		runtime.ReadMemStats(&ms0)
		var m qnet.Message
		err := m.Read(r)
		runtime.ReadMemStats(&ms1)
		if err == nil {
			c.Viol("bad", i, "bad="+what+"/accepted", "a header with an invalid "+what+" was accepted", map[string]interface{}{"header": h})
			return
		}
		if r.off > 28 {
			c.Viol("bad", i, "bad="+what+"/payload-read", fmt.Sprintf("%d payload bytes were read before the invalid %s was refused", r.off-28, what), map[string]interface{}{"header": h})
		}
		if d := ms1.TotalAlloc - ms0.TotalAlloc; d > 1<<20 {
			c.Viol("bad", i, "bad="+what+"/alloc", fmt.Sprintf("%d bytes allocated while refusing an invalid %s", d, what), map[string]interface{}{"header": h})
		}
		c.Nontrivial(wk.Hash64("bad", what, h.Type, h.Size > maxPayload, h.Version))
		if c.WantSample() && i%1001 == 0 {
			c.Sample(map[string]interface{}{"stream": "bad", "invalid": what, "header": h, "error": err.Error()})
		}
	})

	bigs := []int{1 << 20, maxPayload - 1, maxPayload}
	c.Cases("big", c.Pick(3, 12), func(i int, rng *rand.Rand) {
		n := bigs[i%3]
		h := genHeader(rng)
		p := make([]byte, n)
		rng.Read(p)
		wire := writeCheck(c, "big", i, h, p)
		if wire == nil {
			return
		}
		readBack("big", i, wire, []refcodec.Header{h}, [][]byte{p}, "rand64k", planRandom(rng, 65536), true)
		c.Nontrivial(wk.Hash64("big", n))
		c.Sample(map[string]interface{}{"stream": "big", "payload_len": n, "header": h})
	})
}
