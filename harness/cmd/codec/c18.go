package main

import (
	"bytes"
	"fmt"
	"math/rand"
	"sort"
	"strings"

	"github.com/lugu/qiloop/meta/idl"
	"github.com/lugu/qiloop/type/object"

	rc "verif/refcodec"
	"verif/wk"
)

func init() { engines["C18"] = c18 }

var idlReserved = []string{"fn", "sig", "prop", "end", "struct", "interface", "enum", "package"}
var idlTypePrefixes = []string{"int8", "uint8", "int16", "uint16", "int32", "uint32", "int64", "uint64", "float32", "float64", "bool", "str", "obj", "any", "unknown", "Map", "Vec", "Tuple"}

func idlBadName(n string) bool {
	for _, r := range idlReserved {
		if n == r {
			return true
		}
	}
	for _, p := range idlTypePrefixes {
		if strings.HasPrefix(n, p) {
			return true
		}
	}
	return false
}

func goodIdent(rng *rand.Rand, max int) string {
	for {
		n := rc.GenIdent(rng, max)
		if !idlBadName(n) {
			return n
		}
	}
}

var c18Scalars = append(append([]rc.Kind{}, rc.AllScalars...), rc.Dyn, rc.Object, rc.Unknown)

type genPkg struct {
	metas map[string]object.MetaObject
	pool  *rc.StructPool
}

func genMetaPackage(rng *rand.Rand, depth int, opts func(*rc.GenOpts)) genPkg {
	pool := rc.NewStructPool()
	o := rc.GenOpts{Depth: depth, Width: 4, Scalars: c18Scalars, StructPool: pool, TemplateNames: true, MinTuple: 1, BadName: idlBadName, MaxAnonNest: 3}
	if opts != nil {
		opts(&o)
	}
	metas := map[string]object.MetaObject{}
	nItf := 1 + rng.Intn(3)
	for k := 0; k < nItf; k++ {
		var name string
		for {
			name = "I" + goodIdent(rng, 6)
			if _, dup := metas[name]; !dup {
				break
			}
		}
		m := object.MetaObject{Description: name, Methods: map[uint32]object.MetaMethod{}, Signals: map[uint32]object.MetaSignal{}, Properties: map[uint32]object.MetaProperty{}}
		used := map[uint32]bool{}
		// one meta-object in three numbers its methods, signals and properties independently (three maps:
		// an identifier is unique per kind only; a property and its change signal sharing one is common)
		perKind := rng.Intn(3) == 0
		var others []uint32
		nextKind := func() {
			if perKind {
				for u := range used {
					others = append(others, u)
				}
				sort.Slice(others, func(a, b int) bool { return others[a] < others[b] })
				used = map[uint32]bool{}
			}
		}
		uid := func() uint32 {
			for {
				var u uint32
				if len(others) > 0 && rng.Intn(2) == 0 {
					u = others[rng.Intn(len(others))]
					if !used[u] {
						used[u] = true
						return u
					}
				}
				switch rng.Intn(4) {
				case 0:
					u = uint32(1 + rng.Intn(200))
				case 1:
					u = 0xffffffff - uint32(rng.Intn(3))
				default:
					u = 1 + uint32(rng.Int63n(0xfffffffe))
				}
				if !used[u] {
					used[u] = true
					return u
				}
			}
		}
		tuple := func(min int) *rc.Type {
			n := min + rng.Intn(4)
			mem := make([]*rc.Type, n)
			for i := range mem {
				mem[i] = rc.GenType(rng, o)
			}
			return rc.TupleOf(mem...)
		}
		for j := rng.Intn(5); j > 0; j-- {
			u := uid()
			ret := "v"
			if rng.Intn(3) != 0 {
				ret = rc.GenType(rng, o).Sig()
			}
			pt := tuple(0)
			mm := object.MetaMethod{Uid: u, Name: goodIdent(rng, 8), ParametersSignature: pt.Sig(), ReturnSignature: ret}
			// parameter descriptions: none, one per parameter, fewer, or more than the signature has members
			switch rng.Intn(5) {
			case 1:
				for k := range pt.Mem {
					mm.Parameters = append(mm.Parameters, object.MetaMethodParameter{Name: fmt.Sprintf("arg%d", k), Description: "d"})
				}
			case 2:
				for k := 0; k < len(pt.Mem)-1-rng.Intn(2) && k < len(pt.Mem); k++ {
					mm.Parameters = append(mm.Parameters, object.MetaMethodParameter{Name: fmt.Sprintf("some%d", k)})
				}
			case 3:
				for k := 0; k < len(pt.Mem)+1+rng.Intn(2); k++ {
					mm.Parameters = append(mm.Parameters, object.MetaMethodParameter{Name: fmt.Sprintf("more%d", k)})
				}
			}
			m.Methods[u] = mm
		}
		nextKind()
		for j := rng.Intn(3); j > 0; j-- {
			u := uid()
			m.Signals[u] = object.MetaSignal{Uid: u, Name: goodIdent(rng, 8), Signature: tuple(0).Sig()}
		}
		nextKind()
		for j := rng.Intn(3); j > 0; j-- {
			u := uid()
			name := goodIdent(rng, 8)
			if sg, shared := m.Signals[u]; shared && rng.Intn(2) == 0 {
				name = sg.Name // the property and the signal of the same identifier have the same name
			}
			m.Properties[u] = object.MetaProperty{Uid: u, Name: name, Signature: tuple(1).Sig()}
		}
		metas[name] = m
	}
	return genPkg{metas, pool}
}

// compareMeta returns the first difference between the original and the parsed meta-object.
func compareMeta(a, b object.MetaObject) string {
	if len(a.Methods) != len(b.Methods) {
		return fmt.Sprintf("method count %d != %d", len(b.Methods), len(a.Methods))
	}
	for id, m := range a.Methods {
		n, ok := b.Methods[id]
		if !ok {
			return fmt.Sprintf("method uid %d (%s) lost", id, m.Name)
		}
		if n.Name != m.Name || n.ParametersSignature != m.ParametersSignature || n.ReturnSignature != m.ReturnSignature || n.Uid != m.Uid {
			return fmt.Sprintf("method %d: got %s %s -> %s (uid %d), want %s %s -> %s", id, n.Name, n.ParametersSignature, n.ReturnSignature, n.Uid, m.Name, m.ParametersSignature, m.ReturnSignature)
		}
	}
	if len(a.Signals) != len(b.Signals) {
		return fmt.Sprintf("signal count %d != %d", len(b.Signals), len(a.Signals))
	}
	for id, s := range a.Signals {
		n, ok := b.Signals[id]
		if !ok {
			return fmt.Sprintf("signal uid %d (%s) lost", id, s.Name)
		}
		if n.Name != s.Name || n.Signature != s.Signature || n.Uid != s.Uid {
			return fmt.Sprintf("signal %d: got %s %s, want %s %s", id, n.Name, n.Signature, s.Name, s.Signature)
		}
	}
	if len(a.Properties) != len(b.Properties) {
		return fmt.Sprintf("property count %d != %d", len(b.Properties), len(a.Properties))
	}
	for id, p := range a.Properties {
		n, ok := b.Properties[id]
		if !ok {
			return fmt.Sprintf("property uid %d (%s) lost", id, p.Name)
		}
		if n.Name != p.Name || n.Signature != p.Signature || n.Uid != p.Uid {
			return fmt.Sprintf("property %d: got %s %s, want %s %s", id, n.Name, n.Signature, p.Name, p.Signature)
		}
	}
	return ""
}

func roundTripIDL(c *wk.Ctx, stream string, i int, g genPkg, keyPrefix string) bool {
	var buf bytes.Buffer
	var err error
	pv, stack := wk.Try(func() { err = idl.GenerateIDL(&buf, "pkg", g.metas) })
	names := make([]string, 0, len(g.metas))
	for n := range g.metas {
		names = append(names, n)
	}
	sort.Strings(names)
	detail := map[string]interface{}{"interfaces": names}
	if c.Verbose {
		detail["metas"] = g.metas
	}
	if pv != nil {
		c.Viol(stream, i, keyPrefix+"generate=panic/"+wk.PanicSite(stack), fmt.Sprintf("GenerateIDL panicked: %v", pv), detail)
		return false
	}
	if err != nil {
		c.Viol(stream, i, keyPrefix+"generate=error", "GenerateIDL failed: "+err.Error(), detail)
		return false
	}
	text := buf.String()
	detail["idl"] = text
	var metas []object.MetaObject
	pv, stack = wk.Try(func() { metas, err = idl.ParseIDL(strings.NewReader(text)) })
	if pv != nil {
		c.Viol(stream, i, keyPrefix+"parse=panic/"+wk.PanicSite(stack), fmt.Sprintf("ParseIDL panicked on generated IDL: %v", pv), detail)
		return false
	}
	if err != nil {
		c.Viol(stream, i, keyPrefix+"parse=error", "generated IDL does not parse back: "+err.Error(), detail)
		return false
	}
	got := map[string]object.MetaObject{}
	for _, m := range metas {
		got[m.Description] = m
	}
	if len(got) != len(g.metas) {
		c.Viol(stream, i, keyPrefix+"interfaces=count", fmt.Sprintf("%d interfaces generated, %d parsed back", len(g.metas), len(got)), detail)
		return false
	}
	for _, n := range names {
		m, ok := got[n]
		if !ok {
			c.Viol(stream, i, keyPrefix+"interfaces=lost", "interface "+n+" lost", detail)
			return false
		}
		var d string
		pv, stack = wk.Try(func() { d = compareMeta(g.metas[n], m) })
		if pv != nil {
			c.Viol(stream, i, keyPrefix+"meta=panic/"+wk.PanicSite(stack), fmt.Sprintf("building the parsed meta-object panicked: %v", pv), detail)
			return false
		}
		if d != "" {
			c.Viol(stream, i, keyPrefix+"meta=differs", "interface "+n+": "+d, detail)
			return false
		}
	}
	return true
}

var idlTokens = []string{"package", "interface", "struct", "enum", "end", "fn", "sig", "prop", "->", "(", ")", ":", ",", "<", ">", "//", "//uid:12", "//uid:", "=",
	"Vec<", "Map<", "Tuple<", "int32", "str", "any", "obj", "bool", "float64", "unknown", "A", "b", "x1", "_", "0", "-1", "\n", "\n", " ", "\t", "é", "\x00"}

func c18(c *wk.Ctx) {
	c.Note("rule", "streams: roundtrip = packages of 1-3 generated meta-objects (methods with tuple parameter signatures - with no, exactly as many, fewer or more parameter descriptions than parameters - and any return incl. v, signals and properties with tuple signatures; signatures from the grammar with structs shared between actions, nested tuples, template-style struct names, m o X; uids in 1..2^32-1, unique per meta-object or - one meta-object in three - per kind only (a signal and a property, or a method and a signal, sharing an identifier and possibly the name); names = identifiers avoiding IDL keywords and basic-type prefixes): ParseIDL(GenerateIDL(m)) must give the same uids, names and signatures; case-twins = the same with structure names that differ from another structure's name by the case of the first letter only; wide = the same with one action of 120 .. 8000 parameters (one IDL line of 2 KiB .. 150 KiB); edge = the same with names that start with a basic IDL type name, IDL keywords as names, or empty nested tuples; text = arbitrary text (random bytes, IDL token soup, mutated valid IDL, valid IDL cut anywhere and ending in the beginning of a comment, valid IDL under a package declaration with an unusual name: empty dotted components, leading / trailing dots and dashes, no newline) must yield a package or an error, never a panic. Distinct non-trivial = distinct generated IDL texts with at least one action (roundtrip) / distinct texts (text).")
	depth := c.Pick(3, 5)
	c.Cases("roundtrip", c.Pick(5000, 200000), func(i int, rng *rand.Rand) {
		g := genMetaPackage(rng, 1+rng.Intn(depth), nil)
		if roundTripIDL(c, "roundtrip", i, g, "") {
			nact := 0
			h := ""
			for n, m := range g.metas {
				nact += len(m.Methods) + len(m.Signals) + len(m.Properties)
				h += n + m.JSON()
			}
			if nact > 0 {
				c.Nontrivial(wk.Hash64("roundtrip", h))
			}
			c.Count("actions", int64(nact))
			c.Count("structs", int64(len(g.pool.Defs())))
			if c.WantSample() && i%200 == 0 {
				var buf bytes.Buffer
				idl.GenerateIDL(&buf, "pkg", g.metas)
				c.Sample(map[string]interface{}{"stream": "roundtrip", "idl": buf.String()})
			}
		}
	})
	// case-twins: structure names which are distinct identifiers but differ by the case of the first letter only
	// (event / Event): both are declared and every action keeps referring to the right one
	c.Cases("case-twins", c.Pick(1500, 40000), func(i int, rng *rand.Rand) {
		g := genMetaPackage(rng, 2+rng.Intn(2), func(o *rc.GenOpts) { o.CaseTwins = true })
		if roundTripIDL(c, "case-twins", i, g, "case-twins/") && g.pool.Twins > 0 {
			h := ""
			for n, m := range g.metas {
				h += n + m.JSON()
			}
			c.Nontrivial(wk.Hash64("case-twins", h))
			c.Count("struct_names_differing_by_first_letter_case", int64(g.pool.Twins))
		}
	})
	// wide: one action with hundreds to thousands of parameters (GenerateIDL prints an action on ONE line:
	// lines of 2 KiB .. 150 KiB), next to ordinary actions
	c.Cases("wide", c.Pick(24, 400), func(i int, rng *rand.Rand) {
		g := genMetaPackage(rng, 1+rng.Intn(2), nil)
		n := []int{120, 700, 3600, 6000, 8000}[i%5] + rng.Intn(50)
		var sb strings.Builder
		sb.WriteString("(")
		scal := []string{"i", "I", "s", "b", "f", "d", "l", "L", "[s]", "{is}", "m"}
		for k := 0; k < n; k++ {
			sb.WriteString(scal[rng.Intn(len(scal))])
		}
		sb.WriteString(")")
		for name, m := range g.metas {
			u := uint32(0x7ffffff0 + i%7)
			switch i % 3 {
			case 0:
				m.Methods[u] = object.MetaMethod{Uid: u, Name: "wideMethod", ParametersSignature: sb.String(), ReturnSignature: "v"}
			case 1:
				m.Signals[u] = object.MetaSignal{Uid: u, Name: "wideSignal", Signature: sb.String()}
			default:
				m.Methods[u] = object.MetaMethod{Uid: u, Name: "wideReturn", ParametersSignature: "()", ReturnSignature: sb.String()}
			}
			delete(m.Methods, 0) // (keeps the map non-nil)
			g.metas[name] = m
			break
		}
		if roundTripIDL(c, "wide", i, g, "wide/") {
			c.Nontrivial(wk.Hash64("wide", i))
			c.Count("wide_actions_parameters", int64(n))
		}
	})
	c.Cases("edge", c.Pick(1500, 30000), func(i int, rng *rand.Rand) {
		kind := []string{"type-prefix-name", "keyword-name", "empty-nested-tuple"}[i%3]
		g := genMetaPackage(rng, 1+rng.Intn(3), func(o *rc.GenOpts) {
			switch kind {
			case "type-prefix-name":
				o.BadName = func(n string) bool { // force struct names to start with a basic type name
					return !(strings.HasPrefix(n, "str") || strings.HasPrefix(n, "any") || strings.HasPrefix(n, "obj") || strings.HasPrefix(n, "bool")) && !strings.HasPrefix(n, "x")
				}
			case "empty-nested-tuple":
				o.MinTuple = 0
				o.Width = 1
			}
		})
		if kind == "type-prefix-name" {
			// rename pool structs to names with a basic-type prefix
			for _, t := range g.pool.Defs() {
				t.Name = []string{"str", "any", "obj", "bool", "int8", "unknown"}[rng.Intn(6)] + t.Name
			}
			if len(g.pool.Defs()) == 0 {
				return
			}
			// signatures were printed before the rename: rebuild them
			g = regen(g, rng)
		}
		if kind == "keyword-name" {
			for n, m := range g.metas {
				for u, x := range m.Methods {
					x.Name = idlReserved[rng.Intn(len(idlReserved))]
					m.Methods[u] = x
				}
				for u, x := range m.Signals {
					x.Name = idlReserved[rng.Intn(len(idlReserved))]
					m.Signals[u] = x
				}
				g.metas[n] = m
			}
		}
		if roundTripIDL(c, "edge", i, g, "edge="+kind+"/") {
			c.Count("edge_ok_"+kind, 1)
		}
		c.Nontrivial(wk.Hash64("edge", kind, i))
	})
	c.Cases("text", c.Pick(20000, 500000), func(i int, rng *rand.Rand) {
		var text string
		switch i % 5 {
		case 4:
			text = cutIDL(rng)
			if i%10 == 9 {
				text = pkgNameIDL(rng)
			}
		case 0:
			b := make([]byte, rng.Intn(300))
			rng.Read(b)
			text = string(b)
		case 1, 2:
			var sb strings.Builder
			for k := rng.Intn(80); k > 0; k-- {
				sb.WriteString(idlTokens[rng.Intn(len(idlTokens))])
				if rng.Intn(2) == 0 {
					sb.WriteByte(' ')
				}
			}
			text = sb.String()
		case 3:
			g := genMetaPackage(rng, 1+rng.Intn(3), nil)
			var buf bytes.Buffer
			if wk.Try2(func() { idl.GenerateIDL(&buf, "pkg", g.metas) }) {
				return
			}
			b := buf.Bytes()
			for k := 1 + rng.Intn(3); k > 0 && len(b) > 0; k-- {
				p := rng.Intn(len(b))
				switch rng.Intn(3) {
				case 0:
					b = append(b[:p], b[p+1:]...)
				case 1:
					tok := idlTokens[rng.Intn(len(idlTokens))]
					b = append(b[:p], append([]byte(tok), b[p:]...)...)
				case 2:
					q := p + rng.Intn(len(b)-p)
					b = append(b[:p], b[q:]...)
				}
			}
			text = string(b)
		}
		var err error
		var pkg *idl.PackageDeclaration
		pv, stack := wk.Try(func() {
			pkg, err = idl.ParsePackage([]byte(text))
			if err == nil && pkg != nil {
				// what ParseIDL does with an accepted package
				_, err = idl.ParseIDL(strings.NewReader(text))
			}
		})
		if pv != nil {
			c.Viol("text", i, "text=panic/"+wk.PanicSite(stack), fmt.Sprintf("IDL parser panicked: %v", pv), map[string]interface{}{"text": clip(text)})
			return
		}
		if err == nil {
			c.Count("texts_accepted", 1)
		}
		c.Nontrivial(wk.Hash64("text", text))
		if c.WantSample() && i%2000 == 1 {
			c.Sample(map[string]interface{}{"stream": "text", "text": clip(text), "accepted": err == nil})
		}
	})
}

// cutIDL returns a prefix of a valid generated IDL text (cut anywhere, or right after a complete
// line), possibly followed by the beginning of a comment: what an editor buffer or a truncated file holds.
func cutIDL(rng *rand.Rand) string {
	g := genMetaPackage(rng, 1+rng.Intn(2), nil)
	var buf bytes.Buffer
	if wk.Try2(func() { idl.GenerateIDL(&buf, "pkg", g.metas) }) {
		return "package p"
	}
	b := buf.Bytes()
	if len(b) == 0 {
		return ""
	}
	p := rng.Intn(len(b) + 1)
	if rng.Intn(2) == 0 { // after a complete line
		for p < len(b) && b[p] != '\n' {
			p++
		}
	}
	tails := []string{"", "//", " //", "\n//", "// ", "//\n", "//\t\n \n", "//uid:", "//uid:7", "// uid:", "/", "#", "//\r\n", "//\r"}
	return string(b[:p]) + tails[rng.Intn(len(tails))]
}

// pkgNameIDL returns valid generated IDL whose package declaration carries an unusual name: dotted paths
// with empty components, leading / trailing dots and dashes, digits, very long names; sometimes the
// declaration is all there is, or it is not terminated by a newline.
func pkgNameIDL(rng *rand.Rand) string {
	g := genMetaPackage(rng, 1+rng.Intn(2), nil)
	var buf bytes.Buffer
	if wk.Try2(func() { idl.GenerateIDL(&buf, "pkg", g.metas) }) {
		return "package p"
	}
	body := buf.String()
	if k := strings.Index(body, "\n"); k >= 0 {
		body = body[k+1:]
	}
	parts := []string{"qi", "a", "B9", "_x", "te-st", "", "", "-", "_", "0", "x_", "test", strings.Repeat("n", 1+rng.Intn(300))}
	n := 1 + rng.Intn(5)
	comp := make([]string, n)
	for k := range comp {
		comp[k] = parts[rng.Intn(len(parts))]
	}
	name := strings.Join(comp, ".") + []string{"", "", ".", "..", "-", "_", ".x."}[rng.Intn(7)]
	decl := []string{"package " + name + "\n", "package " + name, "package\t" + name + " \n", "package " + name + " // c\n", " package " + name + "\r\n", "package " + name + "\n\n"}[rng.Intn(6)]
	switch rng.Intn(4) {
	case 0:
		return decl
	case 1:
		return decl + body[:rng.Intn(len(body)+1)]
	}
	return decl + body
}

// regen re-prints every signature of the package after struct definitions were renamed.
func regen(g genPkg, rng *rand.Rand) genPkg {
	re := func(sig string) string {
		t, err := rc.ParseSig(sig)
		if err != nil {
			return sig
		}
		t.Walk(func(n *rc.Type) {
			if n.K == rc.Struct {
				for name, def := range g.pool.Defs() {
					// pool keys are the original names
					if n.Name == name {
						n.Name = def.Name
					}
				}
			}
		})
		return t.Sig()
	}
	for n, m := range g.metas {
		for u, x := range m.Methods {
			x.ParametersSignature = re(x.ParametersSignature)
			x.ReturnSignature = re(x.ReturnSignature)
			m.Methods[u] = x
		}
		for u, x := range m.Signals {
			x.Signature = re(x.Signature)
			m.Signals[u] = x
		}
		for u, x := range m.Properties {
			x.Signature = re(x.Signature)
			m.Properties[u] = x
		}
		g.metas[n] = m
	}
	return g
}
