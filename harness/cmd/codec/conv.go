package main

import (
	"bytes"
	"fmt"
	"reflect"

	"github.com/lugu/qiloop/type/value"

	rc "verif/refcodec"
)

var valueIface = reflect.TypeOf((*value.Value)(nil)).Elem()

// toValue builds a qiloop dynamic value for a reference DynV, through the
// public constructors wherever one exists, value.Opaque otherwise.
func toValue(d rc.DynV) value.Value {
	switch d.T.K {
	case rc.Bool:
		return value.Bool(d.V.(bool))
	case rc.Int8:
		return value.Int8(d.V.(int8))
	case rc.Uint8:
		return value.Uint8(d.V.(uint8))
	case rc.Int16:
		return value.Int16(d.V.(int16))
	case rc.Uint16:
		return value.Uint16(d.V.(uint16))
	case rc.Int32:
		return value.Int(d.V.(int32))
	case rc.Uint32:
		return value.Uint(d.V.(uint32))
	case rc.Int64:
		return value.Long(d.V.(int64))
	case rc.Uint64:
		return value.Ulong(d.V.(uint64))
	case rc.Float:
		return value.Float(d.V.(float32))
	case rc.String:
		return value.String(d.V.(string))
	case rc.Raw:
		return value.Raw(d.V.([]byte))
	case rc.Void:
		return value.Void()
	case rc.List:
		if d.T.Elem.K == rc.Dyn {
			l := d.V.([]interface{})
			vs := make([]value.Value, len(l))
			for i, x := range l {
				vs[i] = toValue(x.(rc.DynV))
			}
			return value.List(vs)
		}
	}
	return value.Opaque(d.T.Sig(), rc.Encode(d.T, d.V))
}

// usesCtor reports whether toValue builds d purely from constructors.
func usesCtor(d rc.DynV) bool {
	switch d.T.K {
	case rc.Double, rc.Map, rc.Tuple, rc.Struct, rc.Object, rc.Unknown, rc.Dyn:
		return false
	case rc.List:
		if d.T.Elem.K != rc.Dyn {
			return false
		}
		for _, x := range d.V.([]interface{}) {
			if !usesCtor(x.(rc.DynV)) {
				return false
			}
		}
	}
	return true
}

// goType maps a reference type to the Go type generated proxies use.
func goType(t *rc.Type) reflect.Type {
	switch t.K {
	case rc.Bool:
		return reflect.TypeOf(false)
	case rc.Int8:
		return reflect.TypeOf(int8(0))
	case rc.Uint8:
		return reflect.TypeOf(uint8(0))
	case rc.Int16:
		return reflect.TypeOf(int16(0))
	case rc.Uint16:
		return reflect.TypeOf(uint16(0))
	case rc.Int32:
		return reflect.TypeOf(int32(0))
	case rc.Uint32:
		return reflect.TypeOf(uint32(0))
	case rc.Int64:
		return reflect.TypeOf(int64(0))
	case rc.Uint64:
		return reflect.TypeOf(uint64(0))
	case rc.Float:
		return reflect.TypeOf(float32(0))
	case rc.Double:
		return reflect.TypeOf(float64(0))
	case rc.String:
		return reflect.TypeOf("")
	case rc.Dyn:
		return valueIface
	case rc.List:
		return reflect.SliceOf(goType(t.Elem))
	case rc.Map:
		return reflect.MapOf(goType(t.Key), goType(t.Elem))
	case rc.Tuple, rc.Struct:
		fs := make([]reflect.StructField, len(t.Mem))
		for i, m := range t.Mem {
			fs[i] = reflect.StructField{Name: fmt.Sprintf("F%d", i), Type: goType(m)}
		}
		return reflect.StructOf(fs)
	}
	panic("goType: unsupported kind " + t.Sig())
}

// toGo builds the Go value for a reference value.
func toGo(t *rc.Type, v interface{}) reflect.Value {
	gt := goType(t)
	out := reflect.New(gt).Elem()
	switch t.K {
	case rc.Dyn:
		out.Set(reflect.ValueOf(toValue(v.(rc.DynV))))
	case rc.List:
		l := v.([]interface{})
		s := reflect.MakeSlice(gt, len(l), len(l))
		for i, x := range l {
			s.Index(i).Set(toGo(t.Elem, x))
		}
		out.Set(s)
	case rc.Map:
		m := v.([]rc.KV)
		mm := reflect.MakeMapWithSize(gt, len(m))
		for _, kv := range m {
			mm.SetMapIndex(toGo(t.Key, kv.K), toGo(t.Elem, kv.V))
		}
		out.Set(mm)
	case rc.Tuple, rc.Struct:
		tu := v.(rc.Tup)
		for i, m := range t.Mem {
			out.Field(i).Set(toGo(m, tu[i]))
		}
	default:
		out.Set(reflect.ValueOf(v))
	}
	return out
}

// fromGo converts a Go value back to the reference representation.
func fromGo(t *rc.Type, g reflect.Value) (interface{}, error) {
	switch t.K {
	case rc.Dyn:
		if g.IsNil() {
			return nil, fmt.Errorf("nil dynamic value")
		}
		val, ok := g.Interface().(value.Value)
		if !ok {
			return nil, fmt.Errorf("not a value.Value: %v", g.Type())
		}
		var buf bytes.Buffer
		if err := val.Write(&buf); err != nil {
			return nil, err
		}
		v, n, err := rc.Decode(rc.T(rc.Dyn), buf.Bytes())
		if err != nil || n != buf.Len() {
			return nil, fmt.Errorf("dynamic value does not re-decode: %v", err)
		}
		return v, nil
	case rc.List:
		l := make([]interface{}, g.Len())
		for i := range l {
			x, err := fromGo(t.Elem, g.Index(i))
			if err != nil {
				return nil, err
			}
			l[i] = x
		}
		return l, nil
	case rc.Map:
		m := make([]rc.KV, 0, g.Len())
		it := g.MapRange()
		for it.Next() {
			k, err := fromGo(t.Key, it.Key())
			if err != nil {
				return nil, err
			}
			v, err := fromGo(t.Elem, it.Value())
			if err != nil {
				return nil, err
			}
			m = append(m, rc.KV{K: k, V: v})
		}
		return m, nil
	case rc.Tuple, rc.Struct:
		tu := make(rc.Tup, len(t.Mem))
		for i, m := range t.Mem {
			x, err := fromGo(m, g.Field(i))
			if err != nil {
				return nil, err
			}
			tu[i] = x
		}
		return tu, nil
	default:
		return g.Interface(), nil
	}
}

func hx(b []byte, max int) string {
	if len(b) > max {
		return fmt.Sprintf("%x...(%d bytes)", b[:max], len(b))
	}
	return fmt.Sprintf("%x", b)
}

func firstDiff(a, b []byte) int {
	k := 0
	for k < len(a) && k < len(b) && a[k] == b[k] {
		k++
	}
	return k
}
