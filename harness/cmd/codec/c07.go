package main

import (
	"bytes"
	"encoding/binary"
	"fmt"
	"math/rand"
	"reflect"
	"runtime"
	"strings"
	"time"

	"github.com/lugu/qiloop/bus"
	"github.com/lugu/qiloop/bus/directory"
	qnet "github.com/lugu/qiloop/bus/net"
	"github.com/lugu/qiloop/meta/idl"
	"github.com/lugu/qiloop/meta/signature"
	"github.com/lugu/qiloop/type/encoding"
	"github.com/lugu/qiloop/type/object"
	"github.com/lugu/qiloop/type/value"

	"verif/gen/probe"
	rc "verif/refcodec"
	"verif/svc"
	"verif/wk"
)

func init() { engines["C07"] = c07 }

const (
	allocBase = 64 << 20 // 64 MiB: generous, the largest legitimate single allocation is one 10 MiB cap
	allocPerB = 64
	// the combinator parsers (signature, IDL) turn over 2-4.4 KiB of garbage per byte of TEXT they parse
	// (measured, linear at depths 1k..32k, independent of any length field): TotalAlloc is cumulative
	// allocation, not memory in use, so parser text gets its own linear allowance
	allocPerTextB = 8 << 10
	cpuBudget     = 5 * time.Second
	guardHeap     = 12 << 30
	guardCPU      = 12 * time.Second
	maxInputLen   = 64 << 10
)

// parserText is the number of bytes of signature text embedded in the input being run (dynsig stream).
var parserText int

var hostileU32 = []uint32{0xffffffff, 0x80000000, 0x7fffffff, 4096, 4097, 1 << 24, 10 * 1024 * 1024, 10*1024*1024 + 1, 0x00ffffff, 65536}

// hostile runs one input through one entry point under resource accounting.
func hostile(c *wk.Ctx, stream string, i int, entry, class string, in []byte, f func([]byte) error) {
	key := "decoder=" + entry + "/input=" + class
	what := fmt.Sprintf("%s on a %d-byte %s input", entry, len(in), class)
	c.SetGuardKey(stream, i, key, what)
	var ms0, ms1 runtime.MemStats
	runtime.ReadMemStats(&ms0)
	cpu0 := wk.CPUTime()
	var err error
	pv, stack := wk.Try(func() { err = f(in) })
	cpu := wk.CPUTime() - cpu0
	runtime.ReadMemStats(&ms1)
	c.SetGuardKey("", 0, "", "")
	c.Eval(1)
	detail := map[string]interface{}{"entry": entry, "class": class, "input": hx(in, 200), "len": len(in)}
	if pv != nil {
		detail["panic"] = fmt.Sprint(pv)
		c.Viol(stream, i, "decoder="+entry+"/kind=panic/site="+wk.PanicSite(stack), fmt.Sprintf("%s panicked: %v", entry, pv), detail)
		return
	}
	alloc := ms1.TotalAlloc - ms0.TotalAlloc
	text := parserText
	if entry == "signature.Parse" || entry == "idl.ParsePackage" {
		text = len(in)
	}
	if alloc > uint64(allocBase+allocPerB*len(in)+allocPerTextB*text) {
		detail["allocated"] = alloc
		c.Viol(stream, i, key+"/kind=alloc", fmt.Sprintf("%s allocated %d MiB for a %d-byte input", entry, alloc>>20, len(in)), detail)
		return
	}
	if cpu > cpuBudget {
		detail["cpu_s"] = cpu.Seconds()
		c.Viol(stream, i, key+"/kind=cpu", fmt.Sprintf("%s used %.1fs of CPU for a %d-byte input", entry, cpu.Seconds(), len(in)), detail)
		return
	}
	c.Max("max_alloc_bytes_one_input", int64(alloc))
	c.Max("max_cpu_us_one_input", int64(cpu/time.Microsecond))
	if err != nil {
		c.Count("returned_error", 1)
	} else {
		c.Count("returned_value", 1)
	}
	c.Nontrivial(wk.Hash64(entry, class, len(in)/16, err == nil))
}

// mutants yields the encoding with one length/count field replaced by each hostile value.
func mutants(rng *rand.Rand, enc []byte, fields []rc.Field, maxFields int, visit func(class string, in []byte)) {
	if len(fields) > maxFields {
		idx := rng.Perm(len(fields))[:maxFields]
		fs := make([]rc.Field, maxFields)
		for k, j := range idx {
			fs[k] = fields[j]
		}
		fields = fs
	}
	for _, f := range fields {
		hv := append([]uint32{f.Val + 1, uint32(len(enc))}, hostileU32...)
		for _, h := range hv {
			in := append([]byte{}, enc...)
			binary.LittleEndian.PutUint32(in[f.Off:], h)
			visit("mutated-"+f.Kind, in)
		}
	}
}

type stubTarget struct {
	name  string
	actor bus.Actor
	meta  object.MetaObject
}

func newStubTargets() []stubTarget {
	act := bus.Activation{ServiceID: 7, ObjectID: 3, Terminate: func() {}}
	pr := probe.ProbeObject(svc.NewImpl("c07"))
	if err := pr.Activate(act); err != nil {
		panic(err)
	}
	ch, ep := svc.NewFakeChannel()
	var meta object.MetaObject
	var payload bytes.Buffer
	binary.Write(&payload, binary.LittleEndian, uint32(3))
	m := qnet.NewMessage(qnet.NewHeader(qnet.Call, 7, 3, 2, 1), payload.Bytes())
	if err := pr.Receive(&m, ch); err != nil {
		panic(err)
	}
	if len(ep.Sent) != 1 {
		panic("metaObject reply missing")
	}
	var err error
	meta, err = object.ReadMetaObject(bytes.NewReader(ep.Sent[0].Payload))
	if err != nil {
		panic(fmt.Sprintf("metaObject reply: %v (type %d)", err, ep.Sent[0].Header.Type))
	}
	return []stubTarget{{"stubProbe", pr, meta}}
}

func c07(c *wk.Ctx) {
	c.Note("rule", "every input runs in the worker under accounting: no panic / fatal error; runtime TotalAlloc delta <= 64 MiB + 64*len(input) + 8 KiB per byte of signature / IDL text in the input (the combinator parsers turn over 2-4.4 KiB of garbage per text byte, linearly); process CPU time <= 5 s (a watchdog ends a case that is still running after 12 s of CPU or 12 GiB of heap and reports it under the same key). Inputs (<= 64 KiB): random bytes; valid encodings with each length / count / signature-length field replaced by 0xffffffff, 0x80000000, 0x7fffffff, caps and caps+1, 2^24, len+1; valid IDL text cut anywhere and ending in the beginning of a comment; dynamic values with hostile signatures ([v], [()], deep nestings, maps nested 8-64 times under fixed-size keys or in key position, long names, struct definitions whose names and types disagree in number). Entry points: Message.Read, value.NewValue, signature TypeReader.Read and encoding.Decoder.Decode for random signatures, ReadMetaObject, ReadObjectReference, ReadServiceInfo, ReadCapabilityMap, generated stub Receive (freshly generated Probe stub and the checked-in generic object stub: every action, argument payloads mutated), signature.Parse, idl.ParsePackage. Evaluations count inputs; distinct non-trivial = distinct (entry point, input class, length bucket, outcome).")
	c.Guard(guardHeap, guardCPU)
	scal := append(append([]rc.Kind{}, rc.AllScalars...), rc.Dyn)
	inner := rc.GenOpts{Depth: 2, Width: 3, ComparableKeys: true, MaxAnonNest: 3}
	maxFields := c.Pick(4, 10)

	fixed := []struct {
		name string
		t    *rc.Type
		f    func([]byte) error
	}{
		{"object.ReadMetaObject", rc.MetaObjectType, func(b []byte) error { _, err := object.ReadMetaObject(bytes.NewReader(b)); return err }},
		{"object.ReadObjectReference", rc.ObjectRefType, func(b []byte) error { _, err := object.ReadObjectReference(bytes.NewReader(b)); return err }},
		{"directory.ReadServiceInfo", serviceInfoType, func(b []byte) error { _, err := directory.ReadServiceInfo(bytes.NewReader(b)); return err }},
		{"bus.ReadCapabilityMap", capMapType, func(b []byte) error { _, err := bus.ReadCapabilityMap(bytes.NewReader(b)); return err }},
	}

	c.Cases("random", c.Pick(2500, 100000), func(i int, rng *rand.Rand) {
		n := rng.Intn(4096)
		if rng.Intn(3) == 0 {
			n = rng.Intn(40)
		}
		in := make([]byte, n)
		rng.Read(in)
		if rng.Intn(2) == 0 && n >= 4 {
			// plausible small leading count so that decoders get past the first field
			binary.LittleEndian.PutUint32(in, uint32(rng.Intn(5)))
		}
		hostile(c, "random", i, "Message.Read", "random", in, func(b []byte) error { var m qnet.Message; return m.Read(bytes.NewReader(b)) })
		hostile(c, "random", i, "value.NewValue", "random", in, func(b []byte) error { _, err := value.NewValue(bytes.NewReader(b)); return err })
		for _, fx := range fixed {
			hostile(c, "random", i, fx.name, "random", in, fx.f)
		}
		t := rc.GenType(rng, rc.GenOpts{Depth: 4, Width: 4, Scalars: scal, ComparableKeys: true, MaxAnonNest: 4})
		if ty, err := signature.Parse(t.Sig()); err == nil {
			hostile(c, "random", i, "signature.TypeReader.Read", "random", in, func(b []byte) error { _, err := ty.Reader().Read(bytes.NewReader(b)); return err })
		}
		gt := goType(t)
		hostile(c, "random", i, "encoding.Decoder.Decode", "random", in, func(b []byte) error {
			return encoding.NewDecoder(encoding.DefaultCap(), bytes.NewReader(b)).Decode(reflect.New(gt).Interface())
		})
		hostile(c, "random", i, "signature.Parse", "random", in, func(b []byte) error { _, err := signature.Parse(string(b)); return err })
		hostile(c, "random", i, "idl.ParsePackage", "random", in, func(b []byte) error { _, err := idl.ParsePackage(b); return err })
	})

	c.Cases("frames", c.Pick(600, 20000), func(i int, rng *rand.Rand) {
		h := genHeader(rng)
		p := genPayload(rng, 2000)
		enc := rc.Frame(h, p)
		for _, hv := range append([]uint32{uint32(len(p)) + 1}, hostileU32...) {
			in := append([]byte{}, enc...)
			binary.LittleEndian.PutUint32(in[8:], hv)
			hostile(c, "frames", i, "Message.Read", "mutated-size", in, func(b []byte) error { var m qnet.Message; return m.Read(bytes.NewReader(b)) })
		}
	})

	c.Cases("typed", c.Pick(700, 30000), func(i int, rng *rand.Rand) {
		t := rc.GenType(rng, rc.GenOpts{Depth: 4, Width: 4, Scalars: scal, ComparableKeys: true, MaxAnonNest: 4})
		if t.K < rc.List && t.K != rc.String && t.K != rc.Dyn {
			t = rc.ListOf(t)
		}
		b := 60
		v := fixDyn(rng, t, rc.GenValue(rng, t, rc.ValOpts{MaxLen: 4, MaxStr: 16, Budget: &b, DynDepth: 1, DynOpts: &inner}))
		enc, fields := rc.EncodeFields(t, v)
		ty, err := signature.Parse(t.Sig())
		if err != nil {
			return
		}
		gt := goType(t)
		mutants(rng, enc, fields, maxFields, func(class string, in []byte) {
			hostile(c, "typed", i, "signature.TypeReader.Read", class, in, func(b []byte) error { _, err := ty.Reader().Read(bytes.NewReader(b)); return err })
			hostile(c, "typed", i, "encoding.Decoder.Decode", class, in, func(b []byte) error {
				return encoding.NewDecoder(encoding.DefaultCap(), bytes.NewReader(b)).Decode(reflect.New(gt).Interface())
			})
		})
		// the same datum wrapped in a dynamic value
		d := rc.DynV{T: t, V: v}
		if t.K != rc.Dyn {
			denc, dfields := rc.EncodeFields(rc.T(rc.Dyn), d)
			mutants(rng, denc, dfields, maxFields, func(class string, in []byte) {
				hostile(c, "typed", i, "value.NewValue", class, in, func(b []byte) error { _, err := value.NewValue(bytes.NewReader(b)); return err })
			})
		}
		if c.WantSample() && i%30 == 0 {
			c.Sample(map[string]interface{}{"stream": "typed", "signature": t.Sig(), "fields": len(fields), "encoding": hx(enc, 48)})
		}
	})

	c.Cases("structs", c.Pick(300, 10000), func(i int, rng *rand.Rand) {
		fx := fixed[i%len(fixed)]
		b := 30
		v := fixDyn(rng, fx.t, rc.GenValue(rng, fx.t, rc.ValOpts{MaxLen: 3, MaxStr: 12, Budget: &b, DynDepth: 1, DynOpts: &inner}))
		enc, fields := rc.EncodeFields(fx.t, v)
		mutants(rng, enc, fields, maxFields, func(class string, in []byte) {
			hostile(c, "structs", i, fx.name, class, in, fx.f)
		})
	})

	// IDL text: valid generated IDL cut anywhere, ending in the beginning of a comment; package declarations with unusual names
	c.Cases("idltext", c.Pick(3000, 100000), func(i int, rng *rand.Rand) {
		text, class := cutIDL(rng), "cut-valid-idl"
		if i%4 == 3 {
			text, class = pkgNameIDL(rng), "package-names"
		}
		hostile(c, "idltext", i, "idl.ParsePackage", class, []byte(text), func(b []byte) error { _, err := idl.ParsePackage(b); return err })
	})

	// hostile signatures carried by dynamic values
	c.Cases("dynsig", c.Pick(400, 10000), func(i int, rng *rand.Rand) {
		var sig string
		class := ""
		d := 1 + rng.Intn(c.Pick(3000, 20000))
		switch i % 11 {
		case 9: // maps nested in value position under fixed-size keys
			n := 8 + d%56
			sig, class = strings.Repeat("{i", n)+"{ii}"+strings.Repeat("}", n), "nested-maps"
		case 10: // maps nested in key position
			n := 8 + d%56
			sig, class = strings.Repeat("{", n)+"{ii}"+strings.Repeat("i}", n), "nested-maps"
		case 8:
			t := rc.GenType(rng, rc.GenOpts{Depth: 2 + rng.Intn(3), Width: 1 + rng.Intn(4), Scalars: c09Scalars, MinTuple: 1})
			for k := 0; k < 20 && !strings.Contains(t.Sig(), "<"); k++ {
				t = rc.GenType(rng, rc.GenOpts{Depth: 2 + rng.Intn(3), Width: 1 + rng.Intn(4), Scalars: c09Scalars, MinTuple: 1})
			}
			sig, _ = arityMutate(rng, t.Sig())
			class = "struct-arity"
		case 0:
			sig, class = "[v]", "zero-width-list"
		case 1:
			sig, class = "[()]", "zero-width-list"
		case 2:
			sig, class = "{vv}", "zero-width-list"
		case 3:
			sig, class = strings.Repeat("[", d)+"i"+strings.Repeat("]", d), "deep-signature"
		case 4:
			d = 1 + d%60
			sig, class = strings.Repeat("(", d)+"i"+strings.Repeat(")", d), "nested-tuples"
		case 5:
			sig, class = "("+strings.Repeat("i", d)+")<"+strings.Repeat("N", 1+d%500)+strings.Repeat(",a", d)+">", "long-struct"
		case 6:
			sig, class = strings.Repeat("{s", d%2000+1)+"m"+strings.Repeat("}", d%2000+1), "deep-signature"
		case 7:
			sig, class = "[[v]]", "zero-width-list"
		}
		var in bytes.Buffer
		binary.Write(&in, binary.LittleEndian, uint32(len(sig)))
		in.WriteString(sig)
		cnt := hostileU32[rng.Intn(len(hostileU32))]
		if class != "zero-width-list" && rng.Intn(2) == 0 {
			cnt = uint32(rng.Intn(3))
		}
		binary.Write(&in, binary.LittleEndian, cnt)
		tail := make([]byte, rng.Intn(64))
		rng.Read(tail)
		in.Write(tail)
		parserText = len(sig)
		defer func() { parserText = 0 }()
		hostile(c, "dynsig", i, "value.NewValue", class, in.Bytes(), func(b []byte) error { _, err := value.NewValue(bytes.NewReader(b)); return err })
		hostile(c, "dynsig", i, "signature.Parse", class, []byte(sig), func(b []byte) error { _, err := signature.Parse(string(b)); return err })
		// inside a capability map value
		var cm bytes.Buffer
		binary.Write(&cm, binary.LittleEndian, uint32(1))
		binary.Write(&cm, binary.LittleEndian, uint32(1))
		cm.WriteString("k")
		cm.Write(in.Bytes())
		hostile(c, "dynsig", i, "bus.ReadCapabilityMap", class, cm.Bytes(), func(b []byte) error { _, err := bus.ReadCapabilityMap(bytes.NewReader(b)); return err })
		if c.WantSample() && i%40 == 0 {
			c.Sample(map[string]interface{}{"stream": "dynsig", "class": class, "signature": clip(sig), "count": cnt})
		}
	})

	// generated argument decoders, through the stubs' Receive
	targets := newStubTargets()
	c.Cases("stub", c.Pick(500, 15000), func(i int, rng *rand.Rand) {
		tg := targets[i%len(targets)]
		ids := make([]uint32, 0, len(tg.meta.Methods))
		for id := range tg.meta.Methods {
			if id == 3 { // terminate: documented removal, not a decoder
				continue
			}
			ids = append(ids, id)
		}
		sortU32(ids)
		id := ids[rng.Intn(len(ids))]
		mm := tg.meta.Methods[id]
		entry := tg.name + "." + mm.Name
		ch, ep := svc.NewFakeChannel()
		call := func(b []byte) error {
			ep.Reset()
			typ := qnet.Call
			m := qnet.NewMessage(qnet.NewHeader(typ, 7, 3, id, 9), b)
			return tg.actor.Receive(&m, ch)
		}
		// random payload
		n := rng.Intn(200)
		rb := make([]byte, n)
		rng.Read(rb)
		hostile(c, "stub", i, entry, "random", rb, call)
		// valid arguments with hostile fields
		pt, err := rc.ParseSig(mm.ParametersSignature)
		if err != nil {
			return
		}
		b := 30
		v := fixDyn(rng, pt, rc.GenValue(rng, pt, rc.ValOpts{MaxLen: 3, MaxStr: 12, Budget: &b, DynDepth: 1, DynOpts: &inner}))
		enc, fields := rc.EncodeFields(pt, v)
		hostile(c, "stub", i, entry, "valid", enc, call)
		mutants(rng, enc, fields, maxFields, func(class string, in []byte) {
			hostile(c, "stub", i, entry, class, in, call)
		})
		if c.WantSample() && i%50 == 0 {
			c.Sample(map[string]interface{}{"stream": "stub", "entry": entry, "parameters": mm.ParametersSignature, "fields": len(fields)})
		}
	})
}

func sortU32(a []uint32) {
	for i := 1; i < len(a); i++ {
		for j := i; j > 0 && a[j] < a[j-1]; j-- {
			a[j], a[j-1] = a[j-1], a[j]
		}
	}
}
