package main

import (
	"bytes"
	"fmt"
	"math/rand"
	"reflect"

	"github.com/lugu/qiloop/type/value"

	rc "verif/refcodec"
	"verif/wk"
)

func init() { engines["C02"] = c02 }

var ctorKinds = []rc.Kind{rc.Bool, rc.Int8, rc.Uint8, rc.Int16, rc.Uint16, rc.Int32, rc.Uint32, rc.Int64, rc.Uint64, rc.Float, rc.String, rc.Raw, rc.Void}

// genCtorDyn builds a dynamic value reachable through the public constructors only.
func genCtorDyn(rng *rand.Rand, depth int, budget *int, maxStr int) rc.DynV {
	if depth > 0 && rng.Intn(3) == 0 && *budget > 0 {
		n := rng.Intn(5)
		if rng.Intn(8) == 0 {
			n = rng.Intn(40)
		}
		if n > *budget {
			n = *budget
		}
		*budget -= n
		l := make([]interface{}, n)
		for i := range l {
			l[i] = genCtorDyn(rng, depth-1, budget, maxStr)
		}
		return rc.DynV{T: rc.ListOf(rc.T(rc.Dyn)), V: l}
	}
	k := ctorKinds[rng.Intn(len(ctorKinds))]
	t := rc.T(k)
	return rc.DynV{T: t, V: rc.GenValue(rng, t, rc.ValOpts{MaxLen: 4, MaxStr: maxStr})}
}

// dynTop re-rolls until the concrete type is not itself m / v / X (no constructor and
// no well-formed opaque data exists for those at top level).
func genOpaqueDyn(rng *rand.Rand, depth int, withObject bool) rc.DynV {
	scal := append(append([]rc.Kind{}, rc.AllScalars...), rc.Dyn, rc.Dyn)
	if withObject {
		scal = append(scal, rc.Object)
	}
	inner := rc.GenOpts{Depth: 3, Width: 3, ComparableKeys: false, Scalars: scal, MaxAnonNest: 4}
	for {
		t := rc.GenType(rng, rc.GenOpts{Depth: depth, Width: 4, Scalars: scal, TemplateNames: true, MaxAnonNest: 4})
		if t.K == rc.Dyn || t.K == rc.Object && !withObject {
			continue
		}
		if t.K < rc.List && t.K != rc.Double && t.K != rc.Object {
			if rng.Intn(4) != 0 {
				continue // mostly composite
			}
		}
		b := 120
		vo := rc.ValOpts{MaxLen: 4, MaxStr: 24, Budget: &b, DynDepth: 2, DynOpts: &inner}
		if rng.Intn(10) == 0 { // up to two long strings / buffers (4 KiB .. 70 KiB)
			long := 2
			vo.LongStr = &long
		}
		if rng.Intn(6) == 0 { // up to two strings / buffers whose length is within 4 of a power of two (28 .. 4100)
			mid := 2
			vo.MidStr = &mid
		}
		v := rc.GenValue(rng, t, vo)
		return rc.DynV{T: t, V: fixDyn(rng, t, v)}
	}
}

// fixDyn replaces nested dynamic values whose concrete type is m by scalars
// (a value of a value collapses by design of NewValue: "m": NewValue).
func fixDyn(rng *rand.Rand, t *rc.Type, v interface{}) interface{} {
	switch t.K {
	case rc.Dyn:
		d := v.(rc.DynV)
		if d.T.K == rc.Dyn || d.T.K == rc.Void || d.T.K == rc.Unknown {
			return rc.DynV{T: rc.T(rc.Int32), V: int32(rng.Int31())}
		}
		return rc.DynV{T: d.T, V: fixDyn(rng, d.T, d.V)}
	case rc.List:
		l := v.([]interface{})
		for i := range l {
			l[i] = fixDyn(rng, t.Elem, l[i])
		}
	case rc.Map:
		m := v.([]rc.KV)
		for i := range m {
			m[i].K = fixDyn(rng, t.Key, m[i].K)
			m[i].V = fixDyn(rng, t.Elem, m[i].V)
		}
	case rc.Tuple, rc.Struct:
		tu := v.(rc.Tup)
		for i, mt := range t.Mem {
			tu[i] = fixDyn(rng, mt, tu[i])
		}
	}
	return v
}

// classify names the first structural feature relevant to findings: where the value nests.
func dynClass(t *rc.Type) string {
	c := "plain"
	if t.K == rc.Object {
		return "object-top"
	}
	if t.Has(rc.Object) {
		c = "object-nested"
	}
	nested := false
	t.Walk(func(n *rc.Type) {
		if n != t && n.K == rc.Dyn {
			nested = true
		}
	})
	if nested && !(t.K == rc.List && t.Elem.K == rc.Dyn) {
		c += "+nested-m"
	}
	return c
}

func checkDyn(c *wk.Ctx, stream string, i int, d rc.DynV, rng *rand.Rand, ctor bool) {
	sig := d.T.Sig()
	want := rc.Encode(rc.T(rc.Dyn), d)
	val := toValue(d)
	detail := map[string]interface{}{"signature": sig, "encoding": hx(want, 96), "class": dynClass(d.T)}
	var buf bytes.Buffer
	if err := val.Write(&buf); err != nil {
		c.Viol(stream, i, "write=error/"+dynClass(d.T), "Value.Write failed: "+err.Error(), detail)
		return
	}
	if !bytes.Equal(buf.Bytes(), want) {
		c.Viol(stream, i, "write=layout/"+dynClass(d.T), fmt.Sprintf("Value.Write differs from the documented encoding at offset %d", firstDiff(buf.Bytes(), want)), detail)
		return
	}
	trailer := make([]byte, rng.Intn(9))
	rng.Read(trailer)
	in := append(append([]byte{}, want...), trailer...)
	r := bytes.NewReader(in)
	got, err := value.NewValue(r)
	if err != nil {
		c.Viol(stream, i, "decode=error/"+dynClass(d.T), "NewValue rejected a value's own encoding: "+err.Error(), detail)
		return
	}
	consumed := len(in) - r.Len()
	if consumed != len(want) {
		c.Viol(stream, i, "decode=consumption/"+dynClass(d.T), fmt.Sprintf("NewValue consumed %d bytes of a %d-byte encoding", consumed, len(want)), detail)
		return
	}
	if got.Signature() != sig {
		detail["got_signature"] = got.Signature()
		c.Viol(stream, i, "decode=signature/"+dynClass(d.T), "decoded value has a different signature", detail)
		return
	}
	var buf2 bytes.Buffer
	if err := got.Write(&buf2); err != nil {
		c.Viol(stream, i, "reencode=error/"+dynClass(d.T), "re-encoding the decoded value failed: "+err.Error(), detail)
		return
	}
	if !bytes.Equal(buf2.Bytes(), want) {
		detail["reencoded"] = hx(buf2.Bytes(), 96)
		c.Viol(stream, i, "reencode=differs/"+dynClass(d.T), fmt.Sprintf("re-encoding the decoded value differs at offset %d (len %d vs %d)", firstDiff(buf2.Bytes(), want), buf2.Len(), len(want)), detail)
		return
	}
	// the same encoding (no trailer) through a stream that delivers it in small pieces and reports
	// io.EOF together with the last piece, as the io.Reader contract allows
	if len(want) <= 4096 {
		// (one time in two the stream goes on behind the value: a plain io.Reader - a socket, a pipe, a
		// file - from which the next datum is read afterwards; nothing of it may be taken)
		src := want
		if rng.Intn(2) == 0 {
			src = in
			c.Count("decoded_from_a_stream_that_goes_on", 1)
		}
		fr := &fragReader{data: src, plan: planRandom(rng, 1+rng.Intn(9)), eofWithData: rng.Intn(3) != 0}
		if rng.Intn(3) == 0 {
			fr.plan = func(rem int) int { return rem } // gives as much as it is asked for
		}
		got2, err := value.NewValue(fr)
		if err != nil {
			c.Viol(stream, i, "decode=error/fragmented/"+dynClass(d.T), fmt.Sprintf("NewValue rejected a value's own encoding delivered in pieces (EOF with the last piece: %v): %v", fr.eofWithData, err), detail)
			return
		}
		if fr.off != len(want) {
			c.Viol(stream, i, "decode=consumption/fragmented/"+dynClass(d.T), fmt.Sprintf("NewValue consumed %d bytes of a %d-byte encoding delivered in pieces", fr.off, len(want)), detail)
			return
		}
		var buf3 bytes.Buffer
		if err := got2.Write(&buf3); err != nil || !bytes.Equal(buf3.Bytes(), want) {
			c.Viol(stream, i, "reencode=differs/fragmented/"+dynClass(d.T), "the value decoded from a fragmented stream re-encodes differently", detail)
			return
		}
		c.Count("decoded_from_a_fragmented_stream", 1)
	}
	if ctor && usesCtor(d) {
		if !deepEqualValue(val, got) {
			c.Viol(stream, i, "decode=notequal", "decoded constructor value is not equal to the original", detail)
		}
	}
	if c.WantSample() && i%50 == 0 {
		c.Sample(map[string]interface{}{"stream": stream, "signature": sig, "encoding": hx(want, 48), "trailer": len(trailer)})
	}
}

func deepEqualValue(a, b value.Value) bool {
	// floats compared through their encoding (NaN != NaN under DeepEqual)
	var x, y bytes.Buffer
	a.Write(&x)
	b.Write(&y)
	if !bytes.Equal(x.Bytes(), y.Bytes()) {
		return false
	}
	if fa, ok := a.(value.FloatValue); ok {
		_, ok2 := b.(value.FloatValue)
		_ = fa
		return ok2
	}
	if la, ok := a.(value.ListValue); ok {
		lb, ok2 := b.(value.ListValue)
		if !ok2 || len(la) != len(lb) {
			return false
		}
		for i := range la {
			if !deepEqualValue(la[i], lb[i]) {
				return false
			}
		}
		return true
	}
	if ra, ok := a.(value.RawValue); ok {
		rb, ok2 := b.(value.RawValue)
		return ok2 && bytes.Equal(ra, rb)
	}
	return reflect.DeepEqual(a, b)
}

func c02(c *wk.Ctx) {
	c.Note("rule", "streams: ctor = dynamic values built only from the public constructors (all scalar kinds, string, raw, void, lists of values nested to depth 5 / 8); opaque = value.Opaque(sig, data) for composite signatures drawn from the grammar (lists, maps, tuples, structs, double, object) whose members include m at any depth (one case in sixteen each: a nested value whose own signature is 150-2000 bytes long; a wide signature, 20-400 composite members side by side; a deep one, 10-150 levels), data = reference encoding of a random value; big = long strings / raws / lists at the size caps. Oracle: Write == reference encoding; NewValue(enc||trailer) succeeds, consumes exactly len(enc), same signature, re-encodes to the same bytes, and the same holds when enc is delivered in pieces of 1-9 bytes with io.EOF reported together with the last piece; constructor values compare equal. Distinct non-trivial = distinct (stream, type shape, encoded length class).")
	depth := c.Pick(5, 8)
	c.Cases("ctor", c.Pick(30000, 600000), func(i int, rng *rand.Rand) {
		b := 60
		d := genCtorDyn(rng, depth, &b, 40)
		checkDyn(c, "ctor", i, d, rng, true)
		c.Nontrivial(wk.Hash64("ctor", d.T.Sig(), len(rc.Encode(d.T, d.V))/4))
	})
	c.Cases("opaque", c.Pick(30000, 600000), func(i int, rng *rand.Rand) {
		d := genOpaqueDyn(rng, c.Pick(4, 6), i%10 == 0)
		if i%16 == 15 {
			// a dynamic value whose own signature is LONG (a structure with 6-60 named members: 150 .. 2000
			// bytes of signature) nested inside an opaque tuple / map / list of tuples
			n := 6 + rng.Intn(55)
			names := make([]string, n)
			mem := make([]*rc.Type, n)
			vals := make(rc.Tup, n)
			for k := range names {
				names[k] = fmt.Sprintf("field_number_%02d_of_the_record", k)
				mem[k] = rc.T(rc.Int32)
				vals[k] = int32(rng.Int31())
			}
			big := rc.DynV{T: rc.StructOf("Record_with_many_members", names, mem...), V: vals}
			switch rng.Intn(3) {
			case 0:
				d = rc.DynV{T: rc.StructOf("Holder", []string{"content"}, rc.T(rc.Dyn)), V: rc.Tup{big}}
			case 1:
				d = rc.DynV{T: rc.MapOf(rc.T(rc.String), rc.T(rc.Dyn)), V: []rc.KV{{K: "k", V: big}}}
			default:
				d = rc.DynV{T: rc.ListOf(rc.TupleOf(rc.T(rc.String), rc.T(rc.Dyn))), V: []interface{}{rc.Tup{"a", big}, rc.Tup{"b", big}}}
			}
			c.Count("nested_values_with_signatures_over_150_bytes", 1)
		}
		if i%16 == 3 {
			// WIDE and shallow: a tuple / structure of 20-400 members, each a small composite type (a few
			// hundred lists, maps and tuples side by side at nesting depth 2-3), at top level or nested in a value
			n := 20 + rng.Intn(381)
			small := rc.GenOpts{Depth: 2, Width: 2, Scalars: rc.AllScalars, MaxAnonNest: 2}
			mem := make([]*rc.Type, n)
			names := make([]string, n)
			for k := range mem {
				for {
					mem[k] = rc.GenType(rng, small)
					if mem[k].K >= rc.List {
						break
					}
				}
				names[k] = fmt.Sprintf("m%d", k)
			}
			t := rc.TupleOf(mem...)
			if rng.Intn(2) == 0 {
				t = rc.StructOf("Wide", names, mem...)
			}
			b := 400
			wide := rc.DynV{T: t, V: rc.GenValue(rng, t, rc.ValOpts{MaxLen: 2, MaxStr: 6, Budget: &b})}
			d = wide
			if rng.Intn(3) == 0 {
				d = rc.DynV{T: rc.TupleOf(rc.T(rc.Dyn), rc.T(rc.Int32)), V: rc.Tup{wide, int32(rng.Int31())}}
			}
			c.Count("wide_signatures_20_to_400_composite_members", 1)
		}
		if i%16 == 11 {
			// DEEP and narrow: 10-150 levels of lists, maps and one-member tuples / structures around a small type
			depth := 10 + rng.Intn(141)
			t := rc.GenType(rng, rc.GenOpts{Depth: 2, Width: 2, Scalars: rc.AllScalars, MaxAnonNest: 2})
			for k := 0; k < depth; k++ {
				switch rng.Intn(4) {
				case 0:
					t = rc.ListOf(t)
				case 1:
					t = rc.MapOf(rc.T(rc.String), t)
				case 2:
					t = rc.TupleOf(rc.T(rc.Uint8), t)
				default:
					t = rc.StructOf(fmt.Sprintf("L%d", k), []string{"a"}, t)
				}
			}
			b := 200
			d = rc.DynV{T: t, V: rc.GenValue(rng, t, rc.ValOpts{MaxLen: 2, MaxStr: 6, Budget: &b})}
			c.Count("deep_signatures_10_to_150_levels", 1)
		}
		if i%16 == 7 {
			// a raw buffer held by a value which is itself nested in an opaque structure / map / list of tuples
			b := make([]byte, []int{0, 1, 3, 4, 5, 64, 1000}[rng.Intn(7)])
			rng.Read(b)
			raw := rc.DynV{T: rc.T(rc.Raw), V: b}
			switch rng.Intn(4) {
			case 0:
				d = rc.DynV{T: rc.StructOf("Holder", []string{"content", "n"}, rc.T(rc.Dyn), rc.T(rc.Int32)), V: rc.Tup{raw, int32(rng.Int31())}}
			case 1:
				d = rc.DynV{T: rc.MapOf(rc.T(rc.String), rc.T(rc.Dyn)), V: []rc.KV{{K: "k", V: raw}}}
			case 2:
				d = rc.DynV{T: rc.TupleOf(rc.T(rc.Dyn), rc.T(rc.String)), V: rc.Tup{raw, "after"}}
			default:
				d = rc.DynV{T: rc.ListOf(rc.TupleOf(rc.T(rc.String), rc.T(rc.Dyn))), V: []interface{}{rc.Tup{"a", raw}, rc.Tup{"b", rc.DynV{T: rc.T(rc.Int32), V: int32(7)}}}}
			}
			c.Count("raw_buffers_nested_in_opaque_values", 1)
		}
		checkDyn(c, "opaque", i, d, rng, false)
		c.Nontrivial(wk.Hash64("opaque", d.T.Shape()))
		c.Count("class_"+dynClass(d.T), 1)
	})
	c.Cases("big", c.Pick(40, 400), func(i int, rng *rand.Rand) {
		var d rc.DynV
		switch i % 4 {
		case 0:
			n := []int{65536, 1 << 20, 10*1024*1024 - 1, 10 * 1024 * 1024}[rng.Intn(c.Pick(2, 4))]
			b := make([]byte, n)
			rng.Read(b)
			d = rc.DynV{T: rc.T(rc.Raw), V: b}
		case 1:
			n := []int{65536, 1 << 20, 10*1024*1024 - 1, 10 * 1024 * 1024}[rng.Intn(c.Pick(2, 4))]
			b := make([]byte, n)
			for k := range b {
				b[k] = byte('a' + rng.Intn(26))
			}
			d = rc.DynV{T: rc.T(rc.String), V: string(b)}
		case 2:
			n := []int{4095, 4096}[rng.Intn(2)]
			l := make([]interface{}, n)
			for k := range l {
				l[k] = rc.DynV{T: rc.T(rc.Int32), V: int32(k)}
			}
			d = rc.DynV{T: rc.ListOf(rc.T(rc.Dyn)), V: l}
		case 3:
			n := 5000 + rng.Intn(20000)
			l := make([]interface{}, n)
			for k := range l {
				l[k] = rng.Int63()
			}
			d = rc.DynV{T: rc.ListOf(rc.T(rc.Int64)), V: l}
		}
		checkDyn(c, "big", i, d, rng, true)
		c.Nontrivial(wk.Hash64("big", d.T.Sig(), len(rc.Encode(d.T, d.V))))
	})
}
