package main

import (
	"io"
	"math/rand"
)

// fragReader delivers data in chunks chosen by plan, counting exactly what the
// code under test consumed. With eofWithData the final chunk is returned
// together with io.EOF (allowed by the io.Reader contract).
type fragReader struct {
	data        []byte
	off         int
	plan        func(remaining int) int
	eofWithData bool
	reads       int
	maxAsk      int
}

func (r *fragReader) Read(p []byte) (int, error) {
	r.reads++
	if len(p) > r.maxAsk {
		r.maxAsk = len(p)
	}
	if len(p) == 0 {
		return 0, nil
	}
	rem := len(r.data) - r.off
	if rem == 0 {
		return 0, io.EOF
	}
	n := r.plan(rem)
	if n < 1 {
		n = 1
	}
	if n > rem {
		n = rem
	}
	if n > len(p) {
		n = len(p)
	}
	copy(p, r.data[r.off:r.off+n])
	r.off += n
	if r.off == len(r.data) && r.eofWithData {
		return n, io.EOF
	}
	return n, nil
}

func planFixed(k int) func(int) int { return func(int) int { return k } }
func planAll() func(int) int        { return func(rem int) int { return rem } }
func planRandom(rng *rand.Rand, max int) func(int) int {
	return func(int) int { return 1 + rng.Intn(max) }
}

// recWriter records Write calls.
type recWriter struct {
	buf   []byte
	calls []int
}

func (w *recWriter) Write(p []byte) (int, error) {
	w.buf = append(w.buf, p...)
	w.calls = append(w.calls, len(p))
	return len(p), nil
}
