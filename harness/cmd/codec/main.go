// codec worker: engines for the codec / parser properties
// (C01 C02 C03 C07 C08 C09 C18 C20). Runs one shard segment and exits.
package main

import (
	"fmt"
	"os"

	"verif/wk"
)

var engines = map[string]func(*wk.Ctx){}

func main() {
	if len(os.Args) < 2 {
		fmt.Fprintln(os.Stderr, "usage: codec <property> [flags]")
		os.Exit(2)
	}
	f, ok := engines[os.Args[1]]
	if !ok {
		fmt.Fprintln(os.Stderr, "unknown property", os.Args[1])
		os.Exit(2)
	}
	c := wk.Parse(os.Args[1], os.Args[2:])
	f(c)
	c.Done()
}
