package main

import (
	"fmt"
	"math/rand"
	"reflect"
	"strings"

	"github.com/lugu/qiloop/meta/signature"

	rc "verif/refcodec"
	"verif/wk"
)

func init() { engines["C09"] = c09 }

var c09Scalars = append(append([]rc.Kind{}, rc.AllScalars...), rc.Dyn, rc.Object, rc.Unknown, rc.Void)

var kindOf = map[rc.Kind]reflect.Kind{rc.Bool: reflect.Bool, rc.Int8: reflect.Int8, rc.Uint8: reflect.Uint8, rc.Int16: reflect.Int16, rc.Uint16: reflect.Uint16,
	rc.Int32: reflect.Int32, rc.Uint32: reflect.Uint32, rc.Int64: reflect.Int64, rc.Uint64: reflect.Uint64, rc.Float: reflect.Float32, rc.Double: reflect.Float64, rc.String: reflect.String}

// shapeMismatch compares the Go representation with the structure of the signature.
func shapeMismatch(t *rc.Type, g reflect.Type) string {
	switch t.K {
	case rc.Dyn, rc.Object, rc.Unknown, rc.Void:
		return "" // representation of these leaves is not part of the statement
	case rc.List:
		if g.Kind() != reflect.Slice {
			return fmt.Sprintf("%s is represented as %v", t.Sig(), g.Kind())
		}
		return shapeMismatch(t.Elem, g.Elem())
	case rc.Map:
		if g.Kind() != reflect.Map {
			return fmt.Sprintf("%s is represented as %v", t.Sig(), g.Kind())
		}
		if m := shapeMismatch(t.Key, g.Key()); m != "" {
			return m
		}
		return shapeMismatch(t.Elem, g.Elem())
	case rc.Tuple, rc.Struct:
		if g.Kind() != reflect.Struct || g.NumField() != len(t.Mem) {
			return fmt.Sprintf("%s is represented as %v", t.Sig(), g)
		}
		for i, m := range t.Mem {
			if x := shapeMismatch(m, g.Field(i).Type); x != "" {
				return x
			}
		}
		return ""
	default:
		if g.Kind() != kindOf[t.K] {
			return fmt.Sprintf("%s is represented as %v", t.Sig(), g.Kind())
		}
	}
	return ""
}

func comparableKeys(t *rc.Type) bool {
	ok := true
	t.Walk(func(n *rc.Type) {
		if n.K == rc.Map {
			switch n.Key.K {
			case rc.List, rc.Map, rc.Tuple, rc.Struct, rc.Object, rc.Void, rc.Unknown, rc.Dyn:
				ok = false
			}
		}
	})
	return ok
}

// fixedPoint checks the accepted-input contract: print, re-parse, print again.
func fixedPoint(c *wk.Ctx, stream string, i int, in string) (accepted bool) {
	var ty signature.Type
	var err error
	pv, stack := wk.Try(func() { ty, err = signature.Parse(in) })
	if pv != nil {
		c.Viol(stream, i, "parse=panic/"+wk.PanicSite(stack), fmt.Sprintf("signature.Parse panicked: %v", pv), map[string]interface{}{"input": clip(in)})
		return false
	}
	if err != nil {
		return false
	}
	var p1, p2 string
	var ty2 signature.Type
	pv, stack = wk.Try(func() {
		p1 = ty.Signature()
		ty2, err = signature.Parse(p1)
		if err == nil {
			p2 = ty2.Signature()
		}
	})
	if pv != nil {
		c.Viol(stream, i, "print=panic/"+wk.PanicSite(stack), fmt.Sprintf("printing an accepted signature panicked: %v", pv), map[string]interface{}{"input": clip(in)})
		return true
	}
	if err != nil {
		c.Viol(stream, i, "fixedpoint=reparse", "the printed form of an accepted input is rejected: "+err.Error(), map[string]interface{}{"input": clip(in), "printed": clip(p1)})
		return true
	}
	if p1 != p2 {
		c.Viol(stream, i, "fixedpoint=differs", "printing is not a fixed point", map[string]interface{}{"input": clip(in), "printed": clip(p1), "printed_again": clip(p2)})
	}
	return true
}

func clip(s string) string {
	if len(s) > 300 {
		return fmt.Sprintf("%q...(%d bytes)", s[:300], len(s))
	}
	return fmt.Sprintf("%q", s)
}

const sigAlphabet = "()[]{}<>,iIsLlbfdmoXvcCwWrAz_09 "

func mutate(rng *rand.Rand, s string) string {
	b := []byte(s)
	n := 1 + rng.Intn(2)
	for k := 0; k < n; k++ {
		ch := sigAlphabet[rng.Intn(len(sigAlphabet))]
		switch op := rng.Intn(4); {
		case op == 0 && len(b) > 0:
			p := rng.Intn(len(b))
			b = append(b[:p], b[p+1:]...)
		case op == 1:
			p := rng.Intn(len(b) + 1)
			b = append(b[:p], append([]byte{ch}, b[p:]...)...)
		case op == 2 && len(b) > 0:
			b[rng.Intn(len(b))] = ch
		default:
			if rng.Intn(2) == 0 {
				b = append(b, ch)
			} else if len(b) > 1 {
				b = b[:len(b)-1]
			}
		}
	}
	return string(b)
}

// arityMutate makes the member types and the member names of one struct definition disagree in number
// (a name or a type added or dropped), or empties / duplicates the name list.
func arityMutate(rng *rand.Rand, s string) (string, bool) {
	var defs []int
	for k := 0; k < len(s); k++ {
		if s[k] == '<' {
			defs = append(defs, k)
		}
	}
	if len(defs) == 0 {
		return s, false
	}
	lt := defs[rng.Intn(len(defs))]
	switch rng.Intn(6) {
	case 0: // one more name
		return s[:lt+1] + s[lt+1:lt+1+strings.IndexAny(s[lt+1:], ",>")] + strings.Repeat(",x", 1+rng.Intn(3)) + s[lt+1+strings.IndexAny(s[lt+1:], ",>"):], true
	case 1: // one name less
		gt := lt + strings.IndexByte(s[lt:], '>')
		if c := strings.LastIndexByte(s[lt:gt], ','); c > 0 {
			return s[:lt+c] + s[gt:], true
		}
		return s, false
	case 2: // one more member type
		return s[:lt-1] + []string{"i", "s", "[i]", "()", "m"}[rng.Intn(5)] + s[lt-1:], true
	case 3: // no member type at all
		if op := matchingOpen(s, lt-1); op >= 0 {
			return s[:op+1] + s[lt-1:], true
		}
		return s, false
	case 4: // only the struct name
		gt := lt + strings.IndexByte(s[lt:], '>')
		if c := strings.IndexByte(s[lt:gt], ','); c > 0 {
			return s[:lt+c] + s[gt:], true
		}
		return s, false
	default: // empty definition
		gt := lt + strings.IndexByte(s[lt:], '>')
		return s[:lt+1] + s[gt:], true
	}
}

// matchingOpen returns the index of the '(' matching the ')' at position cl, or -1.
func matchingOpen(s string, cl int) int {
	if cl < 0 || s[cl] != ')' {
		return -1
	}
	d := 0
	for k := cl; k >= 0; k-- {
		switch s[k] {
		case ')':
			d++
		case '(':
			d--
			if d == 0 {
				return k
			}
		}
	}
	return -1
}

// gotypeBudget bounds the cases whose Type() is built (reflect never frees the types it creates).
const gotypeBudget = 120000

func c09(c *wk.Ctx) {
	c.Note("rule", "streams: grammar = signatures printed by the reference generator (all scalar kinds, m o X v, lists, maps, tuples, structs incl. template-style names and structs without members; depth <= 6/8, width <= 6/10; one case in 32 is wide: 20-300 composite members side by side; one in 32 deep: 10-120 levels): Parse must succeed, Signature() must equal the input, SignatureIDL() the reference IDL name, a second Parse of the same string after the first result was registered into a type set prints the same, Type() the structure (first 120k cases; maps with non-comparable Go keys excluded from Type() only); mutant = one or two character edits of a valid signature, or (a quarter) a struct definition whose member names and member types disagree in number; random = random strings over the signature alphabet, raw bytes and deep nestings (<= 64 KiB): error, or an accepted input whose print re-parses and prints the same. Distinct non-trivial = distinct signatures (grammar) / distinct inputs that are accepted or are single-edit neighbours of a valid one.")
	depth, width := c.Pick(6, 8), c.Pick(6, 10)
	c.Cases("grammar", c.Pick(40000, 400000), func(i int, rng *rand.Rand) {
		t := rc.GenType(rng, rc.GenOpts{Depth: 2 + rng.Intn(depth-1), Width: 1 + rng.Intn(width), Scalars: c09Scalars, TemplateNames: true, ComparableKeys: i%2 == 0, EmptyStructs: true})
		switch i % 32 {
		case 5:
			// WIDE: 20-300 small composite types side by side in one tuple / structure
			n := 20 + rng.Intn(281)
			mem, names := make([]*rc.Type, n), make([]string, n)
			for k := range mem {
				mem[k] = rc.GenType(rng, rc.GenOpts{Depth: 2 + rng.Intn(2), Width: 2, Scalars: c09Scalars, ComparableKeys: true})
				names[k] = fmt.Sprintf("m%d", k)
			}
			t = rc.TupleOf(mem...)
			if rng.Intn(2) == 0 {
				t = rc.StructOf("Wide", names, mem...)
			}
			c.Count("wide_signatures_20_to_300_members", 1)
		case 21:
			// DEEP: 10-120 levels of lists, maps, one- and two-member tuples / structures
			t = rc.GenType(rng, rc.GenOpts{Depth: 2, Width: 2, Scalars: c09Scalars, ComparableKeys: true})
			for k := 10 + rng.Intn(111); k > 0; k-- {
				switch rng.Intn(5) {
				case 0:
					t = rc.ListOf(t)
				case 1:
					t = rc.MapOf(rc.T(rc.String), t)
				case 2:
					t = rc.TupleOf(t)
				case 3:
					t = rc.TupleOf(rc.T(rc.Int32), t)
				default:
					t = rc.StructOf(fmt.Sprintf("D%d", k), []string{"x"}, t)
				}
			}
			c.Count("deep_signatures_10_to_120_levels", 1)
		}
		in := t.Sig()
		var ty signature.Type
		var err error
		pv, stack := wk.Try(func() { ty, err = signature.Parse(in) })
		if pv != nil {
			c.Viol("grammar", i, "parse=panic/"+wk.PanicSite(stack), fmt.Sprintf("signature.Parse panicked: %v", pv), map[string]interface{}{"input": clip(in)})
			return
		}
		if err != nil {
			c.Viol("grammar", i, "grammar=rejected", "a signature of the documented grammar is rejected: "+err.Error(), map[string]interface{}{"input": clip(in)})
			return
		}
		if p := ty.Signature(); p != in {
			c.Viol("grammar", i, "grammar=print", "printed signature differs from the input", map[string]interface{}{"input": clip(in), "printed": clip(p)})
			return
		}
		if idl := ty.SignatureIDL(); idl != t.IDL() {
			c.Viol("grammar", i, "grammar=idl", "IDL name inconsistent with the signature", map[string]interface{}{"input": clip(in), "idl": clip(idl), "expected": clip(t.IDL())})
			return
		}
		// reflect keeps every type it ever built: the Go-type comparison is bounded per worker
		if comparableKeys(t) && i < gotypeBudget {
			var g reflect.Type
			pv, stack := wk.Try(func() { g = ty.Type() })
			if pv != nil {
				c.Viol("grammar", i, "gotype=panic/"+wk.PanicSite(stack), fmt.Sprintf("Type() panicked: %v", pv), map[string]interface{}{"input": clip(in)})
				return
			}
			if m := shapeMismatch(t, g); m != "" {
				c.Viol("grammar", i, "grammar=gotype", "Go representation inconsistent with the signature: "+m, map[string]interface{}{"input": clip(in)})
				return
			}
			c.Count("gotype_checked", 1)
		}
		fixedPoint(c, "grammar", i, in)
		// what the generators do with a parsed type (registration into a type set, which resolves name
		// collisions) must not change what parsing the same string gives afterwards
		if i%4 == 0 {
			var p3 string
			pv, stack := wk.Try(func() {
				set := signature.NewTypeSet()
				ty.RegisterTo(set)
				ty3, err := signature.Parse(in)
				if err != nil {
					p3 = "error: " + err.Error()
				} else {
					p3 = ty3.Signature()
				}
			})
			if pv != nil {
				c.Viol("grammar", i, "register=panic/"+wk.PanicSite(stack), fmt.Sprintf("registering a parsed type panicked: %v", pv), map[string]interface{}{"input": clip(in)})
				return
			}
			if p3 != in {
				c.Viol("grammar", i, "grammar=print-after-registration", "after the parsed type was registered into a type set, parsing the same signature again prints differently", map[string]interface{}{"input": clip(in), "printed": clip(p3)})
				return
			}
			c.Count("reparsed_after_registration", 1)
		}
		c.Nontrivial(wk.Hash64("grammar", in))
		if c.WantSample() && i%500 == 0 {
			c.Sample(map[string]interface{}{"stream": "grammar", "signature": in})
		}
	})
	c.Cases("mutant", c.Pick(40000, 600000), func(i int, rng *rand.Rand) {
		t := rc.GenType(rng, rc.GenOpts{Depth: 2 + rng.Intn(4), Width: 1 + rng.Intn(4), Scalars: c09Scalars, TemplateNames: true})
		in := t.Sig()
		if i%4 == 3 {
			var ok bool
			if in, ok = arityMutate(rng, in); ok {
				c.Count("struct_arity_mutants", 1)
			} else {
				in = mutate(rng, in)
			}
		} else {
			in = mutate(rng, in)
		}
		acc := fixedPoint(c, "mutant", i, in)
		if acc {
			c.Count("mutants_accepted", 1)
		} else {
			c.Count("mutants_rejected", 1)
		}
		c.Nontrivial(wk.Hash64("mutant", in))
		if c.WantSample() && i%500 == 1 {
			c.Sample(map[string]interface{}{"stream": "mutant", "input": in, "accepted": acc})
		}
	})
	c.Cases("random", c.Pick(15000, 120000), func(i int, rng *rand.Rand) {
		var in string
		switch i % 5 {
		case 0: // raw bytes
			b := make([]byte, rng.Intn(200))
			rng.Read(b)
			in = string(b)
		case 1, 2: // alphabet soup
			n := rng.Intn(60)
			b := make([]byte, n)
			for k := range b {
				b[k] = sigAlphabet[rng.Intn(len(sigAlphabet))]
			}
			in = string(b)
		case 3: // deep nesting, balanced or not
			d := 1 + rng.Intn(c.Pick(2000, 5000))
			open := []string{"[", "(", "{s", "(i"}[rng.Intn(4)]
			cl := map[string]string{"[": "]", "(": ")", "{s": "}", "(i": ")"}[open]
			in = strings.Repeat(open, d) + "i" + strings.Repeat(cl, d-rng.Intn(2))
		case 4: // long flat
			n := rng.Intn(c.Pick(4000, 12000))
			in = "(" + strings.Repeat("i", n) + ")"
			if rng.Intn(2) == 0 {
				in += "<S" + strings.Repeat(",a", n) + ">"
			}
		}
		acc := fixedPoint(c, "random", i, in)
		if acc {
			c.Count("random_accepted", 1)
			c.Nontrivial(wk.Hash64("random", in))
		}
		if c.WantSample() && i%500 == 3 {
			c.Sample(map[string]interface{}{"stream": "random", "input": clip(in), "accepted": acc})
		}
	})
}
