package main

import (
	"bytes"
	"fmt"
	"io"
	"math/rand"
	"reflect"

	"github.com/lugu/qiloop/meta/signature"
	"github.com/lugu/qiloop/type/encoding"

	rc "verif/refcodec"
	"verif/wk"
)

func init() { engines["C03"] = c03 }

var c03Scalars = append(append([]rc.Kind{}, rc.AllScalars...), rc.Dyn)

// kindsIn lists the scalar kinds of a type (sorted, unique) for finding keys.
func kindsIn(t *rc.Type) map[rc.Kind]bool {
	m := map[rc.Kind]bool{}
	t.Walk(func(n *rc.Type) { m[n.K] = true })
	return m
}

func smallKinds(t *rc.Type) string {
	k := kindsIn(t)
	s := ""
	if k[rc.Int8] {
		s += "c"
	}
	if k[rc.Uint8] {
		s += "C"
	}
	return s
}

func c03Class(t *rc.Type) string {
	c := ""
	if s := smallKinds(t); s != "" {
		c += "kinds=" + s
	}
	dynIn := ""
	var walk func(n *rc.Type, parent rc.Kind)
	walk = func(n *rc.Type, parent rc.Kind) {
		if n.K == rc.Dyn && (parent == rc.Tuple || parent == rc.Struct) {
			dynIn = "m-in-struct"
		}
		switch n.K {
		case rc.List:
			walk(n.Elem, rc.List)
		case rc.Map:
			walk(n.Key, rc.Map)
			walk(n.Elem, rc.Map)
		case rc.Tuple, rc.Struct:
			for _, m := range n.Mem {
				walk(m, n.K)
			}
		}
	}
	walk(t, 255)
	if dynIn != "" {
		if c != "" {
			c += "+"
		}
		c += dynIn
	}
	if c == "" {
		c = "other"
	}
	return c
}

func c03(c *wk.Ctx) {
	c.Note("rule", "each case: a random signature T (nested lists, maps with comparable keys, tuples, structs over all scalar kinds incl. c C w W and m), the Go type generated proxies use for T, a random edge-biased value v (one case in eight may hold up to three strings / buffers of 4 KiB .. 70 KiB). Three-way oracle: E = reflection encoder output must decode with the reference decoder to v consuming all of E (and equal the reference bytes when T has no map); signature.Parse(T).Reader().Read(E||trailer) - from a *bytes.Reader, a *bytes.Buffer or a plain io.Reader in turn - must return exactly E and consume exactly len(E) bytes; the reflection decoder must recover v from E. Distinct non-trivial = distinct type shapes with at least one composite or a value kind.")
	depth := c.Pick(4, 6)
	c.Cases("three", c.Pick(100000, 500000), func(i int, rng *rand.Rand) {
		t := rc.GenType(rng, rc.GenOpts{Depth: depth, Width: 4, Scalars: c03Scalars, ComparableKeys: true, MaxAnonNest: 4})
		if t.K == rc.Dyn && rng.Intn(2) == 0 {
			t = rc.ListOf(t)
		}
		b := c.Pick(150, 400)
		inner := rc.GenOpts{Depth: 2, Width: 3, ComparableKeys: true, MaxAnonNest: 3}
		vo := rc.ValOpts{MaxLen: 5, MaxStr: 30, Budget: &b, DynDepth: 1, DynOpts: &inner}
		if i%8 == 7 { // up to three long strings / buffers (4 KiB .. 70 KiB), wherever the type has them
			long := 3
			vo.LongStr = &long
			defer func() {
				if long < 3 {
					c.Count("values_with_long_strings", 1)
				}
			}()
		}
		if rng.Intn(5) == 0 { // up to three strings / buffers whose length is within 4 of a power of two (28 .. 4100)
			mid := 3
			vo.MidStr = &mid
			defer func() {
				if mid < 3 {
					c.Count("values_with_strings_of_a_length_near_a_power_of_two", 1)
				}
			}()
		}
		v := fixDyn(rng, t, rc.GenValue(rng, t, vo))
		if rng.Intn(6) == 0 && t.Has(rc.Dyn) { // dynamic values holding nothing (value.Void(), 5 bytes each): some or all of them
			all := rng.Intn(2) == 0
			n := 0
			v = voidDyn(t, v, func() bool {
				if all || rng.Intn(2) == 0 {
					n++
					return true
				}
				return false
			})
			if n > 0 {
				c.Count("values_with_void_dynamic_values", 1)
			}
		}
		checkThree(c, "three", i, t, v, rng)
	})
	// long containers up to the decoder's own cap
	c.Cases("long", c.Pick(60, 600), func(i int, rng *rand.Rand) {
		el := rc.T(c03Scalars[rng.Intn(len(c03Scalars)-1)])
		n := []int{1000, 4095, 4096}[rng.Intn(3)]
		var t *rc.Type
		var v interface{}
		if i%2 == 0 {
			t = rc.ListOf(el)
			l := make([]interface{}, n)
			for k := range l {
				l[k] = rc.GenValue(rng, el, rc.ValOpts{MaxStr: 8})
			}
			v = l
		} else {
			t = rc.MapOf(rc.T(rc.Uint32), el)
			m := make([]rc.KV, n)
			for k := range m {
				m[k] = rc.KV{K: uint32(k * 7), V: rc.GenValue(rng, el, rc.ValOpts{MaxStr: 8})}
			}
			v = m
		}
		checkThree(c, "long", i, t, v, rng)
	})
}

// voidDyn replaces the dynamic values for which pick answers true by the void value.
func voidDyn(t *rc.Type, v interface{}, pick func() bool) interface{} {
	switch t.K {
	case rc.Dyn:
		if pick() {
			return rc.DynV{T: rc.T(rc.Void), V: rc.VoidV{}}
		}
		d := v.(rc.DynV)
		return rc.DynV{T: d.T, V: voidDyn(d.T, d.V, pick)}
	case rc.List:
		l := v.([]interface{})
		for i := range l {
			l[i] = voidDyn(t.Elem, l[i], pick)
		}
	case rc.Map:
		m := v.([]rc.KV)
		for i := range m {
			m[i].V = voidDyn(t.Elem, m[i].V, pick)
		}
	case rc.Tuple, rc.Struct:
		tu := v.(rc.Tup)
		for i, mt := range t.Mem {
			tu[i] = voidDyn(mt, tu[i], pick)
		}
	}
	return v
}

func checkThree(c *wk.Ctx, stream string, i int, t *rc.Type, v interface{}, rng *rand.Rand) {
	sig := t.Sig()
	ref := rc.Encode(t, v)
	class := c03Class(t)
	detail := map[string]interface{}{"signature": sig, "reference": hx(ref, 96), "class": class}
	gv := toGo(t, v)
	if (gv.Kind() == reflect.Slice || gv.Kind() == reflect.Map) && gv.Len() == 0 && rng.Intn(2) == 0 {
		// the zero value of a list / map type (a nil slice or map) IS the empty list / map
		gv = reflect.Zero(gv.Type())
		c.Count("nil_top_level_containers", 1)
	}
	var buf bytes.Buffer
	var err error
	pv, stack := wk.Try(func() {
		err = encoding.NewEncoder(encoding.DefaultCap(), &buf).Encode(gv.Interface())
	})
	if pv != nil {
		c.Viol(stream, i, "encode=panic/"+wk.PanicSite(stack), fmt.Sprintf("reflection encoder panicked: %v", pv), detail)
		return
	}
	if err != nil {
		c.Viol(stream, i, "encode=error/"+class, "reflection encoder refused a value of the proxy type: "+err.Error(), detail)
		return
	}
	E := buf.Bytes()
	detail["encoded"] = hx(E, 96)
	dv, n, derr := rc.Decode(t, E)
	if derr != nil || n != len(E) || !rc.Equal(t, v, dv) || len(E) != len(ref) {
		why := "decodes to a different value"
		if derr != nil {
			why = "is not a valid serialization: " + derr.Error()
		} else if n != len(E) || len(E) != len(ref) {
			why = fmt.Sprintf("has length %d, the documented serialization has %d", len(E), len(ref))
		}
		c.Viol(stream, i, "encode=layout/"+class, "reflection encoder output "+why, detail)
		return
	}
	if !t.Has(rc.Map) && !bytes.Equal(E, ref) {
		c.Viol(stream, i, "encode=bytes/"+class, fmt.Sprintf("reflection encoder output differs from the documented bytes at offset %d", firstDiff(E, ref)), detail)
		return
	}
	// signature-driven reader
	ty, err := signature.Parse(sig)
	if err != nil {
		c.Viol(stream, i, "reader=parse", "signature rejected: "+err.Error(), detail)
		return
	}
	tl := rng.Intn(13) // nothing behind the value in one case out of three
	if tl > 8 {
		tl = 0
	}
	trailer := make([]byte, tl)
	rng.Read(trailer)
	// the source is a *bytes.Reader, a *bytes.Buffer (what the bus hands to decoders) or a plain io.Reader which
	// has no other method (a file, a socket, a pipe: gives as much as it is asked for)
	full := append(append([]byte{}, E...), trailer...)
	var in io.Reader
	var left func() int
	switch i % 3 {
	case 0:
		br := bytes.NewReader(full)
		in, left = br, br.Len
	case 1:
		bb := bytes.NewBuffer(full)
		in, left = bb, bb.Len
	default:
		fr := &fragReader{data: full, plan: func(rem int) int { return rem }}
		in, left = fr, func() int { return len(fr.data) - fr.off }
		c.Count("read_from_a_plain_io_reader", 1)
	}
	detail["source"] = fmt.Sprintf("%T", in)
	var got []byte
	pv, stack = wk.Try(func() { got, err = ty.Reader().Read(in) })
	if pv != nil {
		c.Viol(stream, i, "reader=panic/"+wk.PanicSite(stack), fmt.Sprintf("signature reader panicked: %v", pv), detail)
		return
	}
	if err != nil {
		c.Viol(stream, i, "reader=error/"+class, "signature-driven reader rejected the serialization: "+err.Error(), detail)
		return
	}
	if consumed := len(full) - left(); consumed != len(E) || !bytes.Equal(got, E) {
		detail["returned"] = hx(got, 96)
		c.Viol(stream, i, "reader=bytes/"+class, fmt.Sprintf("signature-driven reader consumed %d of %d bytes and returned %d bytes (first difference at %d)", consumed, len(E), len(got), firstDiff(got, E)), detail)
		return
	}
	// reflection decoder
	ptr := reflect.New(goType(t))
	pv, stack = wk.Try(func() {
		var src io.Reader = bytes.NewReader(E)
		if i%3 == 1 {
			src = &fragReader{data: E, plan: func(rem int) int { return rem }}
		}
		err = encoding.NewDecoder(encoding.DefaultCap(), src).Decode(ptr.Interface())
	})
	if pv != nil {
		c.Viol(stream, i, "decode=panic/"+wk.PanicSite(stack), fmt.Sprintf("reflection decoder panicked: %v", pv), detail)
		return
	}
	if err != nil {
		c.Viol(stream, i, "decode=error/"+class, "reflection decoder rejected the serialization: "+err.Error(), detail)
		return
	}
	back, ferr := fromGo(t, ptr.Elem())
	if ferr != nil || !rc.Equal(t, v, back) {
		c.Viol(stream, i, "decode=differs/"+class, fmt.Sprintf("reflection decoder did not recover the value (%v)", ferr), detail)
		return
	}
	if t.K >= rc.List || t.K == rc.Dyn {
		c.Nontrivial(wk.Hash64(stream, t.Shape()))
	}
	if c.WantSample() && i%40 == 0 {
		c.Sample(map[string]interface{}{"stream": stream, "signature": sig, "encoded": hx(E, 48)})
	}
}
