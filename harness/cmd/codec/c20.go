package main

import (
	"bytes"
	"fmt"
	"math"
	"math/rand"
	"reflect"
	"strings"

	"github.com/lugu/qiloop/type/conversion"
	"github.com/lugu/qiloop/type/encoding"

	rc "verif/refcodec"
	"verif/wk"
)

func init() { engines["C20"] = c20 }

// schema of a compatible (source, target) pair.
type cnode struct {
	kind   string // bool string sint uint float slice map struct
	sw, tw int    // widths of source / target for numeric kinds
	elem   *cnode
	key    *cnode
	fields []cfield
	perm   []int // target field order: target field j is source field perm[j]
	q      []int // alternative schemas only (see alt)
}

type cfield struct {
	sname, tname string
	n            *cnode
}

var sintT = map[int]reflect.Type{8: reflect.TypeOf(int8(0)), 16: reflect.TypeOf(int16(0)), 32: reflect.TypeOf(int32(0)), 64: reflect.TypeOf(int64(0)), 65: reflect.TypeOf(int(0))}
var uintT = map[int]reflect.Type{8: reflect.TypeOf(uint8(0)), 16: reflect.TypeOf(uint16(0)), 32: reflect.TypeOf(uint32(0)), 64: reflect.TypeOf(uint64(0)), 65: reflect.TypeOf(uint(0))}
var widths = []int{8, 16, 32, 64, 65}

func genScalarNode(rng *rand.Rand) *cnode {
	switch rng.Intn(5) {
	case 0:
		return &cnode{kind: "bool"}
	case 1:
		return &cnode{kind: "string"}
	case 2, 3:
		a := rng.Intn(len(widths))
		b := a + rng.Intn(len(widths)-a)
		k := "sint"
		if rng.Intn(2) == 0 {
			k = "uint"
		}
		return &cnode{kind: k, sw: widths[a], tw: widths[b]}
	default:
		if rng.Intn(2) == 0 {
			return &cnode{kind: "float", sw: 32, tw: []int{32, 64}[rng.Intn(2)]}
		}
		return &cnode{kind: "float", sw: 64, tw: 64}
	}
}

func genNode(rng *rand.Rand, depth int) *cnode {
	if depth <= 1 || rng.Intn(4) == 0 {
		return genScalarNode(rng)
	}
	switch rng.Intn(3) {
	case 0:
		return &cnode{kind: "slice", elem: genNode(rng, depth-1)}
	case 1:
		var k *cnode
		for {
			k = genScalarNode(rng)
			if k.kind != "float" { // NaN keys make map equality ill-defined
				break
			}
		}
		return &cnode{kind: "map", key: k, elem: genNode(rng, depth-1)}
	default:
		n := 1 + rng.Intn(4)
		fs := make([]cfield, n)
		used := map[string]bool{}
		for i := range fs {
			var name string
			for {
				name = strings.ToUpper(rc.GenIdent(rng, 1)) + strings.ToLower(rc.GenIdent(rng, 5))
				if !used[strings.ToLower(name)] {
					used[strings.ToLower(name)] = true
					break
				}
			}
			tn := name
			if rng.Intn(3) == 0 { // vary the case after the (exported) first letter
				tn = name[:1] + strings.ToUpper(name[1:])
			}
			fs[i] = cfield{name, tn, genNode(rng, depth-1)}
		}
		return &cnode{kind: "struct", fields: fs, perm: rng.Perm(n)}
	}
}

func (n *cnode) types() (s, t reflect.Type) {
	switch n.kind {
	case "bool":
		return reflect.TypeOf(false), reflect.TypeOf(false)
	case "string":
		return reflect.TypeOf(""), reflect.TypeOf("")
	case "sint":
		return sintT[n.sw], sintT[n.tw]
	case "uint":
		return uintT[n.sw], uintT[n.tw]
	case "float":
		f := map[int]reflect.Type{32: reflect.TypeOf(float32(0)), 64: reflect.TypeOf(float64(0))}
		return f[n.sw], f[n.tw]
	case "slice":
		a, b := n.elem.types()
		return reflect.SliceOf(a), reflect.SliceOf(b)
	case "map":
		ka, kb := n.key.types()
		a, b := n.elem.types()
		return reflect.MapOf(ka, a), reflect.MapOf(kb, b)
	default:
		sf := make([]reflect.StructField, len(n.fields))
		tf := make([]reflect.StructField, len(n.fields))
		for i, f := range n.fields {
			a, _ := f.n.types()
			sf[i] = reflect.StructField{Name: f.sname, Type: a}
		}
		for j, i := range n.perm {
			_, b := n.fields[i].n.types()
			tf[j] = reflect.StructField{Name: n.fields[i].tname, Type: b}
		}
		return reflect.StructOf(sf), reflect.StructOf(tf)
	}
}

// alt returns a schema with the same target type whose source structs list their fields in another
// order (q[a] = index, in n's source struct, of the field at position a of the alternative source).
func (n *cnode) alt(rng *rand.Rand) *cnode {
	m := *n
	if n.elem != nil {
		m.elem = n.elem.alt(rng)
	}
	if n.kind == "struct" {
		q := rng.Perm(len(n.fields))
		qinv := make([]int, len(q))
		m.fields = make([]cfield, len(q))
		for a, i := range q {
			qinv[i] = a
			m.fields[a] = cfield{n.fields[i].sname, n.fields[i].tname, n.fields[i].n.alt(rng)}
		}
		m.perm = make([]int, len(q))
		for j, i := range n.perm {
			m.perm[j] = qinv[i]
		}
		m.q = q
	}
	return &m
}

// altCopy copies a value of n's source type into a value of the alternative source type.
func (m *cnode) altCopy(src, dst reflect.Value) {
	switch m.kind {
	case "slice":
		if src.IsNil() {
			return
		}
		dst.Set(reflect.MakeSlice(dst.Type(), src.Len(), src.Len()))
		for i := 0; i < src.Len(); i++ {
			m.elem.altCopy(src.Index(i), dst.Index(i))
		}
	case "map":
		if src.IsNil() {
			return
		}
		dst.Set(reflect.MakeMapWithSize(dst.Type(), src.Len()))
		it := src.MapRange()
		for it.Next() {
			e := reflect.New(dst.Type().Elem()).Elem()
			m.elem.altCopy(it.Value(), e)
			dst.SetMapIndex(it.Key(), e)
		}
	case "struct":
		for a := range m.fields {
			m.fields[a].n.altCopy(src.Field(m.q[a]), dst.Field(a))
		}
	default:
		dst.Set(src)
	}
}

func (n *cnode) describe() string {
	s, t := n.types()
	return fmt.Sprintf("%v -> %v", s, t)
}

// gen fills a source value.
func (n *cnode) gen(rng *rand.Rand, v reflect.Value, budget *int) {
	switch n.kind {
	case "bool":
		v.SetBool(rng.Intn(2) == 1)
	case "string":
		v.SetString(rc.GenString(rng, 12))
	case "sint":
		x := rc.GenValue(rng, rc.T(rc.Int64), rc.ValOpts{}).(int64)
		bits := v.Type().Bits()
		x = x << uint(64-bits) >> uint(64-bits)
		v.SetInt(x)
	case "uint":
		x := uint64(rc.GenValue(rng, rc.T(rc.Int64), rc.ValOpts{}).(int64))
		bits := v.Type().Bits()
		x = x << uint(64-bits) >> uint(64-bits)
		v.SetUint(x)
	case "float":
		if n.sw == 32 {
			v.SetFloat(float64(rc.GenValue(rng, rc.T(rc.Float), rc.ValOpts{}).(float32)))
		} else {
			v.SetFloat(rc.GenValue(rng, rc.T(rc.Double), rc.ValOpts{}).(float64))
		}
	case "slice":
		l := rng.Intn(4)
		if l > *budget {
			l = *budget
		}
		*budget -= l
		s := reflect.MakeSlice(v.Type(), l, l)
		for i := 0; i < l; i++ {
			n.elem.gen(rng, s.Index(i), budget)
		}
		v.Set(s)
	case "map":
		l := rng.Intn(4)
		if l > *budget {
			l = *budget
		}
		*budget -= l
		m := reflect.MakeMap(v.Type())
		for i := 0; i < l; i++ {
			k := reflect.New(v.Type().Key()).Elem()
			n.key.gen(rng, k, budget)
			e := reflect.New(v.Type().Elem()).Elem()
			n.elem.gen(rng, e, budget)
			m.SetMapIndex(k, e)
		}
		v.Set(m)
	case "struct":
		for i, f := range n.fields {
			f.n.gen(rng, v.Field(i), budget)
		}
	}
}

// refConv is the reference conversion source -> target.
func (n *cnode) refConv(s reflect.Value, t reflect.Value) {
	switch n.kind {
	case "bool":
		t.SetBool(s.Bool())
	case "string":
		t.SetString(s.String())
	case "sint":
		t.SetInt(s.Int())
	case "uint":
		t.SetUint(s.Uint())
	case "float":
		t.SetFloat(s.Float())
	case "slice":
		out := reflect.MakeSlice(t.Type(), s.Len(), s.Len())
		for i := 0; i < s.Len(); i++ {
			n.elem.refConv(s.Index(i), out.Index(i))
		}
		t.Set(out)
	case "map":
		out := reflect.MakeMap(t.Type())
		it := s.MapRange()
		for it.Next() {
			k := reflect.New(t.Type().Key()).Elem()
			n.key.refConv(it.Key(), k)
			e := reflect.New(t.Type().Elem()).Elem()
			n.elem.refConv(it.Value(), e)
			out.SetMapIndex(k, e)
		}
		t.Set(out)
	case "struct":
		for j, i := range n.perm {
			n.fields[i].n.refConv(s.Field(i), t.Field(j))
		}
	}
}

// same compares two values of the same type; NaNs equal NaNs, nil == empty.
func same(a, b reflect.Value) bool {
	switch a.Kind() {
	case reflect.Float32, reflect.Float64:
		x, y := a.Float(), b.Float()
		return x == y && math.Signbit(x) == math.Signbit(y) || x != x && y != y
	case reflect.Slice:
		if a.Len() != b.Len() {
			return false
		}
		for i := 0; i < a.Len(); i++ {
			if !same(a.Index(i), b.Index(i)) {
				return false
			}
		}
		return true
	case reflect.Map:
		if a.Len() != b.Len() {
			return false
		}
		it := a.MapRange()
		for it.Next() {
			o := b.MapIndex(it.Key())
			if !o.IsValid() || !same(it.Value(), o) {
				return false
			}
		}
		return true
	case reflect.Struct:
		for i := 0; i < a.NumField(); i++ {
			if !same(a.Field(i), b.Field(i)) {
				return false
			}
		}
		return true
	default:
		return a.Interface() == b.Interface()
	}
}

func (n *cnode) has(kind string) bool {
	if n.kind == kind {
		return true
	}
	if n.elem != nil && n.elem.has(kind) {
		return true
	}
	if n.key != nil && n.key.has(kind) {
		return true
	}
	for _, f := range n.fields {
		if f.n.has(kind) {
			return true
		}
	}
	return false
}

func (n *cnode) class() string {
	c := ""
	for _, k := range []string{"map", "slice", "struct"} {
		if n.has(k) {
			c += k[:2]
		}
	}
	if c == "" {
		c = n.kind
	}
	return c
}

func (n *cnode) shape() string {
	s := n.kind + fmt.Sprint(n.sw, n.tw)
	if n.key != nil {
		s += "k" + n.key.shape()
	}
	if n.elem != nil {
		s += "e" + n.elem.shape()
	}
	for _, f := range n.fields {
		s += "f" + f.n.shape()
	}
	return s + fmt.Sprint(n.perm)
}

// incompatible pairs: (target type, source value) that must be refused.
func genIncompatible(rng *rand.Rand) (target reflect.Type, source reflect.Value, what string) {
	scal := map[string]reflect.Value{
		"bool": reflect.ValueOf(true), "string": reflect.ValueOf("12"), "int": reflect.ValueOf(int32(1)), "uint": reflect.ValueOf(uint16(1)),
		"float": reflect.ValueOf(float64(1)), "slice": reflect.ValueOf([]int32{1}), "map": reflect.ValueOf(map[string]int32{"a": 1}),
		"struct": reflect.ValueOf(struct{ A int32 }{1}),
	}
	typ := map[string]reflect.Type{}
	for k, v := range scal {
		typ[k] = v.Type()
	}
	bad := [][2]string{{"bool", "int"}, {"int", "bool"}, {"bool", "uint"}, {"uint", "bool"}, {"string", "int"}, {"int", "string"}, {"string", "float"}, {"float", "string"},
		{"float", "int"}, {"int", "float"}, {"float", "uint"}, {"uint", "float"}, {"bool", "string"}, {"string", "bool"}, {"bool", "float"}, {"float", "bool"},
		{"slice", "map"}, {"map", "slice"}, {"slice", "int"}, {"int", "slice"}, {"map", "string"}, {"string", "map"}, {"struct", "slice"}, {"slice", "struct"},
		{"struct", "map"}, {"map", "struct"}, {"struct", "int"}, {"int", "struct"}, {"string", "slice"}, {"slice", "string"}}
	p := bad[rng.Intn(len(bad))]
	target, source, what = typ[p[0]], scal[p[1]], p[1]+"->"+p[0]
	// optionally nest the incompatibility inside a container
	switch rng.Intn(4) {
	case 1:
		s := reflect.MakeSlice(reflect.SliceOf(source.Type()), 1, 1)
		s.Index(0).Set(source)
		return reflect.SliceOf(target), s, "[]" + what
	case 2:
		m := reflect.MakeMap(reflect.MapOf(reflect.TypeOf(""), source.Type()))
		m.SetMapIndex(reflect.ValueOf("k"), source)
		return reflect.MapOf(reflect.TypeOf(""), target), m, "map-value " + what
	case 3:
		st := reflect.StructOf([]reflect.StructField{{Name: "F", Type: source.Type()}})
		sv := reflect.New(st).Elem()
		sv.Field(0).Set(source)
		return reflect.StructOf([]reflect.StructField{{Name: "F", Type: target}}), sv, "field " + what
	}
	return
}

func c20(c *wk.Ctx) {
	c.Note("rule", "streams: compat = a random pair (S,T) of structurally compatible Go types generated together (same-signedness integer widening incl. int/uint, float32->float64, string, bool, slices, maps with scalar keys, structs with permuted field order and varied letter case, depth <= 4/6) and a random edge-biased value s of S: ConvertFrom(&t, s) must succeed and equal the reference conversion, ConvertFrom(&s2, t) must recover s, the same conversion into a destination that already holds another value must give the same result (pairs without maps: entries are added to a destination map that already has some), a second source type with the same fields in another order must convert into the same target type with the same result, and DecodeFrom (the Proxy.Call2 path) must give the same t from the encoding of s, also right after a DecodeFrom of the same wire type that failed on a truncated encoding; incompat = pairs that must be refused (bool/int, string/number, float/int, slice/map, container/scalar, struct/container), bare and nested in a slice, map value or struct field. Distinct non-trivial = distinct pair shapes containing a composite or a width change.")
	depth := c.Pick(4, 6)
	c.Cases("compat", c.Pick(100000, 6000000), func(i int, rng *rand.Rand) {
		n := genNode(rng, 1+rng.Intn(depth))
		sT, tT := n.types()
		s := reflect.New(sT).Elem()
		b := 40
		n.gen(rng, s, &b)
		want := reflect.New(tT).Elem()
		n.refConv(s, want)
		detail := map[string]interface{}{"pair": n.describe(), "source": fmt.Sprintf("%+v", s.Interface())}
		cl := n.class()
		t := reflect.New(tT)
		var err error
		pv, stack := wk.Try(func() { err = conversion.ConvertFrom(t.Interface(), s.Interface()) })
		if pv != nil {
			c.Viol("compat", i, "convert=panic/"+wk.PanicSite(stack), fmt.Sprintf("ConvertFrom panicked: %v", pv), detail)
			return
		}
		if err != nil {
			c.Viol("compat", i, "convert=refused/"+cl, "a structurally compatible pair is refused: "+err.Error(), detail)
			return
		}
		if !same(t.Elem(), want) {
			detail["got"] = fmt.Sprintf("%+v", t.Elem().Interface())
			c.Viol("compat", i, "convert=differs/"+cl, "converted value differs from the source", detail)
			return
		}
		s2 := reflect.New(sT)
		pv, stack = wk.Try(func() { err = conversion.ConvertFrom(s2.Interface(), t.Elem().Interface()) })
		if pv != nil {
			c.Viol("compat", i, "back=panic/"+wk.PanicSite(stack), fmt.Sprintf("ConvertFrom (back) panicked: %v", pv), detail)
			return
		}
		if err != nil || !same(s2.Elem(), s) {
			detail["back"] = fmt.Sprintf("%+v err=%v", s2.Elem().Interface(), err)
			c.Viol("compat", i, "back=differs/"+cl, "converting back does not recover the source", detail)
			return
		}
		// a destination that already holds another value of the target type (a reused variable, a
		// pre-sized buffer): after the conversion it equals the source all the same
		// (not for pairs with maps: ConvertFrom adds the converted entries to a destination map that already
		// has some, like encoding/json does; the statement says nothing about a destination's previous content,
		// so only what the code guarantees for slices, structs and scalars - full replacement - is demanded)
		if i%2 == 1 && !n.has("map") {
			// the destination first receives three other values through ConvertFrom itself (so that lengths
			// and capacities of its slices are whatever the implementation leaves behind), then the source
			tUsed := reflect.New(tT)
			var s0 reflect.Value
			for k := 0; k < 3; k++ {
				s0 = reflect.New(sT).Elem()
				b0 := []int{60, 6, 30}[k]
				n.gen(rng, s0, &b0)
				if wk.Try2(func() { conversion.ConvertFrom(tUsed.Interface(), s0.Interface()) }) {
					break
				}
			}
			pv, stack = wk.Try(func() { err = conversion.ConvertFrom(tUsed.Interface(), s.Interface()) })
			if pv != nil {
				c.Viol("compat", i, "reused-destination=panic/"+wk.PanicSite(stack), fmt.Sprintf("ConvertFrom into a used destination panicked: %v", pv), detail)
				return
			}
			if err != nil {
				c.Viol("compat", i, "reused-destination=refused/"+cl, "conversion into a destination that already held a value is refused: "+err.Error(), detail)
				return
			}
			if !same(tUsed.Elem(), want) {
				detail["previous_content"] = fmt.Sprintf("%+v", s0.Interface())
				detail["got"] = fmt.Sprintf("%+v", tUsed.Elem().Interface())
				c.Viol("compat", i, "reused-destination=differs/"+cl, "converted into a destination that already held another value, the result differs from the source", detail)
				return
			}
			c.Count("conversions_into_a_used_destination", 1)
		}
		// a second, differently laid out source type converted into the SAME target type
		if n.has("struct") {
			m := n.alt(rng)
			s2T, t2T := m.types()
			if t2T == tT && s2T != sT {
				sAlt := reflect.New(s2T).Elem()
				m.altCopy(s, sAlt)
				tAlt := reflect.New(tT)
				pv, stack = wk.Try(func() { err = conversion.ConvertFrom(tAlt.Interface(), sAlt.Interface()) })
				detail["second_source"] = fmt.Sprintf("%v = %+v", s2T, sAlt.Interface())
				if pv != nil {
					c.Viol("compat", i, "second-source=panic/"+wk.PanicSite(stack), fmt.Sprintf("ConvertFrom panicked: %v", pv), detail)
					return
				}
				if err != nil {
					c.Viol("compat", i, "second-source=refused/"+cl, "a second compatible source type for the same target type is refused: "+err.Error(), detail)
					return
				}
				if !same(tAlt.Elem(), want) {
					detail["got"] = fmt.Sprintf("%+v", tAlt.Elem().Interface())
					c.Viol("compat", i, "second-source=differs/"+cl, "the value converted from a second source type (same fields, other order) differs", detail)
					return
				}
				delete(detail, "second_source")
				c.Count("second_source_type_for_the_same_target_checked", 1)
			}
		}
		// DecodeFrom path (Proxy.Call2 with a differing return signature)
		var buf bytes.Buffer
		if err := encoding.NewEncoder(encoding.DefaultCap(), &buf).Encode(s.Interface()); err == nil {
			if i%3 == 0 {
				// first a call that FAILS for the same wire type (another value, its encoding cut short): whatever it
				// decoded before failing must not show up in the next, valid, conversion
				s0 := reflect.New(sT).Elem()
				b0 := 40
				n.gen(rng, s0, &b0)
				var buf0 bytes.Buffer
				if encoding.NewEncoder(encoding.DefaultCap(), &buf0).Encode(s0.Interface()) == nil && buf0.Len() > 1 {
					cut := buf0.Bytes()[:1+rng.Intn(buf0.Len()-1)]
					t0 := reflect.New(tT)
					var err0 error
					pv, stack = wk.Try(func() {
						err0 = conversion.DecodeFrom(encoding.NewDecoder(encoding.DefaultCap(), bytes.NewReader(cut)), t0.Interface(), sT)
					})
					if pv != nil {
						c.Viol("compat", i, "decodefrom=panic/"+wk.PanicSite(stack), fmt.Sprintf("DecodeFrom panicked on a truncated encoding: %v", pv), detail)
						return
					}
					if err0 != nil {
						c.Count("decodefrom_failed_call_before_the_valid_one", 1)
					}
				}
			}
			t3 := reflect.New(tT)
			pv, stack = wk.Try(func() {
				err = conversion.DecodeFrom(encoding.NewDecoder(encoding.DefaultCap(), bytes.NewReader(buf.Bytes())), t3.Interface(), sT)
			})
			if pv != nil {
				c.Viol("compat", i, "decodefrom=panic/"+wk.PanicSite(stack), fmt.Sprintf("DecodeFrom panicked: %v", pv), detail)
				return
			}
			if err != nil || !same(t3.Elem(), want) {
				detail["got"] = fmt.Sprintf("%+v err=%v", t3.Elem().Interface(), err)
				c.Viol("compat", i, "decodefrom=differs/"+cl, "DecodeFrom does not yield the converted value", detail)
				return
			}
			c.Count("decodefrom_checked", 1)
		}
		if n.kind == "slice" || n.kind == "map" || n.kind == "struct" || n.sw != n.tw {
			c.Nontrivial(wk.Hash64("compat", n.shape()))
		}
		if c.WantSample() && i%300 == 0 {
			c.Sample(map[string]interface{}{"stream": "compat", "pair": n.describe(), "source": fmt.Sprintf("%+v", s.Interface())})
		}
	})
	c.Cases("incompat", c.Pick(3000, 300000), func(i int, rng *rand.Rand) {
		tT, s, what := genIncompatible(rng)
		t := reflect.New(tT)
		var err error
		pv, stack := wk.Try(func() { err = conversion.ConvertFrom(t.Interface(), s.Interface()) })
		detail := map[string]interface{}{"pair": what, "target": tT.String(), "source": fmt.Sprintf("%+v", s.Interface())}
		if pv != nil {
			c.Viol("incompat", i, "incompat=panic/"+wk.PanicSite(stack), fmt.Sprintf("ConvertFrom panicked on an incompatible pair: %v", pv), detail)
			return
		}
		if err == nil {
			detail["got"] = fmt.Sprintf("%+v", t.Elem().Interface())
			c.Viol("incompat", i, "incompat=accepted/"+strings.TrimLeft(what, "[]mapfield- valu"), "an incompatible pair was converted instead of refused", detail)
			return
		}
		c.Nontrivial(wk.Hash64("incompat", what))
		if c.WantSample() && i%300 == 1 {
			c.Sample(map[string]interface{}{"stream": "incompat", "pair": what, "error": err.Error()})
		}
	})
}
