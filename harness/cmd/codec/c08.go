package main

import (
	"bytes"
	"fmt"
	"io"
	"math/rand"
	gonet "net"
	"os"
	"reflect"
	"syscall"

	"github.com/lugu/qiloop/bus"
	"github.com/lugu/qiloop/bus/directory"
	qnet "github.com/lugu/qiloop/bus/net"
	"github.com/lugu/qiloop/meta/signature"
	"github.com/lugu/qiloop/type/encoding"
	"github.com/lugu/qiloop/type/object"
	"github.com/lugu/qiloop/type/value"

	rc "verif/refcodec"
	"verif/wk"
)

func init() { engines["C08"] = c08 }

var serviceInfoType, capMapType *rc.Type

func init() {
	var err error
	serviceInfoType, err = rc.ParseSig("(sIsI[s]ss)<ServiceInfo,name,serviceId,machineId,processId,endpoints,sessionId,objectUid>")
	if err != nil {
		panic(err)
	}
	capMapType = rc.MapOf(rc.T(rc.String), rc.T(rc.Dyn))
}

// cuts returns the cut positions to try for an encoding.
func cuts(rng *rand.Rand, n int, fields []rc.Field, exhaustiveBelow int) []int {
	if n <= exhaustiveBelow {
		out := make([]int, n)
		for k := range out {
			out[k] = k
		}
		return out
	}
	set := map[int]bool{0: true, 1: true, n - 1: true, n - 2: true}
	for _, f := range fields {
		for _, d := range []int{-1, 0, 1, 3, 4, 5} {
			k := f.Off + d
			if k >= 0 && k < n {
				set[k] = true
			}
		}
		k := f.Off + 4 + int(f.Val)
		for _, d := range []int{-1, 0, 1} {
			if f.Kind != "count" && k+d >= 0 && k+d < n {
				set[k+d] = true
			}
		}
		// long strings / buffers: cuts around the sizes at which a chunked reader would change chunk
		if f.Kind != "count" && f.Val > 4096 {
			body := f.Off + 4
			for _, at := range []int{4096, 8192, 16384, 32768, 65536, 131072} {
				for _, d := range []int{-1, 0, 1, 7} {
					if k := body + at + d; k > body && k < n && at <= int(f.Val) {
						set[k] = true
					}
				}
			}
			for j := 0; j < 8; j++ {
				set[body+rng.Intn(int(f.Val))] = true
			}
		}
		if len(set) > 400 {
			break
		}
	}
	for j := 0; j < 64; j++ {
		set[rng.Intn(n)] = true
	}
	out := make([]int, 0, len(set))
	for k := range set {
		out = append(out, k)
	}
	return out
}

type decoderFn func(prefix []byte) error

// cutAll feeds every chosen strict prefix to dec; a nil error is a violation.
func cutAll(c *wk.Ctx, stream string, i int, entry string, enc []byte, ks []int, dec decoderFn, detail map[string]interface{}) {
	// sanity: the full encoding must be accepted, otherwise the case says nothing. In one case out of
	// two the prefixes are tried FIRST and the complete encoding afterwards, so that the first thing
	// the decoder ever sees of a type / signature is a truncated datum (a decoder may keep state from
	// its first encounter with a type).
	prefixesFirst := wk.Hash64("cut-order", stream, i)>>9&1 == 1
	sanity := func() bool {
		var ferr error
		pv, stack := wk.Try(func() { ferr = dec(enc) })
		if pv != nil {
			c.Viol(stream, i, "full=panic/"+entry+"/"+wk.PanicSite(stack), fmt.Sprintf("%s panicked on a valid encoding: %v", entry, pv), detail)
			return false
		}
		if ferr != nil {
			// nothing can be said about the prefixes of an encoding the decoder does not accept in the first
			// place; it also means that the harness's idea of the format and the decoder disagree (or that the
			// decoder is broken for valid data, which C02 / C03 judge): visible as an inconclusive case
			c.Count("full_encoding_rejected_"+entry, 1)
			c.Inconclusive(stream, i, fmt.Sprintf("%s rejected the complete %d-byte encoding: %v", entry, len(enc), ferr))
			return false
		}
		return true
	}
	if !prefixesFirst && !sanity() {
		return
	}
	type finding struct{ key, what string }
	var found *finding
	cut := -1
	for _, k := range ks {
		var err error
		pv, stack := wk.Try(func() { err = dec(enc[:k]) })
		c.Eval(1)
		if pv != nil {
			cut = k
			found = &finding{"cut=panic/" + entry + "/" + wk.PanicSite(stack), fmt.Sprintf("%s panicked on a %d-byte prefix of a %d-byte encoding: %v", entry, k, len(enc), pv)}
			break
		}
		if err == nil {
			cut = k
			found = &finding{"accepted/" + entry + "/" + cutClass(detail), fmt.Sprintf("%s accepted a %d-byte prefix of a %d-byte encoding", entry, k, len(enc))}
			break
		}
	}
	if prefixesFirst {
		c.Count("encodings_whose_prefixes_were_decoded_before_the_complete_encoding", 1)
		if !sanity() {
			return
		}
	}
	if found != nil {
		detail["cut"] = cut
		detail["encoding"] = hx(enc, 128)
		detail["prefixes_decoded_before_the_complete_encoding"] = prefixesFirst
		c.Viol(stream, i, found.key, found.what, detail)
		return
	}
	c.Nontrivial(wk.Hash64(stream, entry, detail["signature"], len(enc)))
}

func cutClass(detail map[string]interface{}) string {
	if s, ok := detail["class"].(string); ok {
		return s
	}
	return "any"
}

// truncClass names what kind of datum ends the encoding / dominates it, for finding keys.
func truncClass(t *rc.Type) string {
	k := kindsIn(t)
	s := ""
	if k[rc.String] {
		s += "s"
	}
	if k[rc.Dyn] {
		s += "m"
	}
	if k[rc.Tuple] || k[rc.Struct] {
		s += "("
	}
	if k[rc.Map] {
		s += "{"
	}
	if k[rc.List] {
		s += "["
	}
	if s == "" {
		s = "scalar"
	}
	return s
}

// unixPair returns two connected unix stream sockets.
func unixPair() (gonet.Conn, gonet.Conn, error) {
	fds, err := syscall.Socketpair(syscall.AF_UNIX, syscall.SOCK_STREAM, 0)
	if err != nil {
		return nil, nil, err
	}
	fa, fb := os.NewFile(uintptr(fds[0]), "a"), os.NewFile(uintptr(fds[1]), "b")
	defer fa.Close()
	defer fb.Close()
	a, err := gonet.FileConn(fa)
	if err != nil {
		return nil, nil, err
	}
	b, err := gonet.FileConn(fb)
	if err != nil {
		a.Close()
		return nil, nil, err
	}
	return a, b, nil
}

// tcpPair returns the two ends of a fresh loopback TCP connection.
func tcpPair(l gonet.Listener) (gonet.Conn, gonet.Conn, error) {
	type res struct {
		c   gonet.Conn
		err error
	}
	ch := make(chan res, 1)
	go func() {
		c, err := l.Accept()
		ch <- res{c, err}
	}()
	a, err := gonet.Dial("tcp", l.Addr().String())
	if err != nil {
		return nil, nil, err
	}
	r := <-ch
	if r.err != nil {
		a.Close()
		return nil, nil, r.err
	}
	return a, r.c, nil
}

// srcFor wraps a prefix in one of the in-memory reader types decoders are handed in practice.
func srcFor(b []byte, i int) io.Reader {
	if i%2 == 0 {
		return bytes.NewBuffer(append([]byte{}, b...)) // what the bus gives a decoder: a *bytes.Buffer over the payload
	}
	return bytes.NewReader(b)
}

func c08(c *wk.Ctx) {
	c.Note("rule", "valid encodings (messages, dynamic values, typed data of random signatures, MetaObject, ObjectReference, ServiceInfo, CapabilityMap, Go values through the reflection decoder) are cut at every position k<len when len<=512, otherwise at every length/count field boundary +-1, around 4 KiB .. 128 KiB into every string or buffer longer than 4 KiB, plus 64 random positions; stream socket = messages cut at the header boundary, inside the payload and one byte before the end, sent over a unix socket pair / a TCP loopback connection whose peer then closes (read directly and through ConnStream); stream long-lists = Go values holding a list of 4097 .. 20000 one- to eight-byte elements (bare, last structure member, last tuple member) through the reflection decoder, prefixes tried whether or not the decoder accepts such a long list at all; stream long = data whose last element is a string / buffer of 64 KiB .. 200 KiB; each strict prefix is fed to the real decoder (from a *bytes.Reader or a *bytes.Buffer), which must return an error. Evaluations count prefixes. Distinct non-trivial = distinct (entry point, signature, length) whose full encoding the decoder accepts.")
	exh := 512
	scal := append(append([]rc.Kind{}, rc.AllScalars...), rc.Dyn)
	inner := rc.GenOpts{Depth: 2, Width: 3, ComparableKeys: true, MaxAnonNest: 3}

	c.Cases("message", c.Pick(600, 20000), func(i int, rng *rand.Rand) {
		h := genHeader(rng)
		p := genPayload(rng, 700)
		if len(p) == 0 && rng.Intn(2) == 0 {
			p = []byte{1}
		}
		chunk := 64
		var fields []rc.Field
		if rng.Intn(6) == 0 {
			// a payload beyond the sizes at which a reader may change strategy (64 KiB .. 1 MiB): cut around
			// every such size, at both ends and at random positions
			p = make([]byte, []int{65537, 66000, 70001, 100000, 131073, 200003, 262145, 300001, 1<<20 + 5}[rng.Intn(9)]+rng.Intn(3))
			rng.Read(p)
			chunk = 8192
			fields = []rc.Field{{Off: 24, Val: uint32(len(p)), Kind: "len"}}
			c.Count("messages_with_a_payload_beyond_64_KiB", 1)
		}
		enc := rc.Frame(h, p)
		cutAll(c, "message", i, "Message.Read", enc, cuts(rng, len(enc), fields, exh), func(b []byte) error {
			var m qnet.Message
			// alternate plain delivery and final-chunk-with-EOF delivery
			return m.Read(&fragReader{data: b, plan: planRandom(rng, chunk), eofWithData: i%2 == 0})
		}, map[string]interface{}{"signature": "message", "len": len(enc)})
		if c.WantSample() && i%100 == 0 {
			c.Sample(map[string]interface{}{"stream": "message", "frame_len": len(enc)})
		}
	})

	// socket: the truncated message arrives over a real connection (unix socket pair, TCP loopback) whose
	// peer closes after the prefix: transports with deadlines and half-closes take other code paths than
	// in-memory readers
	var tcpL gonet.Listener
	defer func() {
		if tcpL != nil {
			tcpL.Close()
		}
	}()
	c.Cases("socket", c.Pick(300, 6000), func(i int, rng *rand.Rand) {
		h := genHeader(rng)
		p := genPayload(rng, 300)
		if len(p) == 0 {
			p = []byte{1, 2, 3}
		}
		enc := rc.Frame(h, p)
		ks := map[int]bool{0: true, 27: true, 28: true, 29: true, len(enc) - 1: true, 28 + rng.Intn(len(p)): true, rng.Intn(len(enc)): true}
		kind := []string{"unix", "tcp"}[i%2]
		wrap := i%4 < 2
		for k := range ks {
			if k < 0 || k >= len(enc) {
				continue
			}
			var a, b gonet.Conn
			var err error
			if kind == "unix" {
				a, b, err = unixPair()
			} else {
				if tcpL == nil {
					tcpL, err = gonet.Listen("tcp", "127.0.0.1:0")
				}
				if err == nil {
					a, b, err = tcpPair(tcpL)
				}
			}
			if err != nil {
				c.Inconclusive("socket", i, "connection: "+err.Error())
				return
			}
			go func(k int) {
				b.Write(enc[:k])
				b.Close()
			}(k)
			var m qnet.Message
			var rerr error
			var r io.Reader = a
			if wrap {
				r = qnet.ConnStream(a)
			}
			pv, stack := wk.Try(func() { rerr = m.Read(r) })
			a.Close()
			c.Eval(1)
			detail := map[string]interface{}{"transport": kind, "through_ConnStream": wrap, "cut": k, "len": len(enc)}
			if pv != nil {
				c.Viol("socket", i, "cut=panic/Message.Read/"+wk.PanicSite(stack), fmt.Sprintf("Message.Read panicked on a truncated message from a %s connection: %v", kind, pv), detail)
				return
			}
			if rerr == nil {
				c.Viol("socket", i, "accepted/Message.Read/"+kind+"-connection", fmt.Sprintf("Message.Read accepted a %d-byte prefix of a %d-byte message received over a %s connection that was then closed", k, len(enc), kind), detail)
				return
			}
		}
		c.Nontrivial(wk.Hash64("socket", kind, wrap, len(enc)))
	})

	c.Cases("value", c.Pick(1500, 50000), func(i int, rng *rand.Rand) {
		var d rc.DynV
		if i%2 == 0 {
			b := 30
			d = genCtorDyn(rng, 4, &b, 30)
		} else {
			d = genOpaqueDyn(rng, 4, i%20 == 1)
		}
		enc, fields := rc.EncodeFields(rc.T(rc.Dyn), d)
		cutAll(c, "value", i, "value.NewValue", enc, cuts(rng, len(enc), fields, exh), func(b []byte) error {
			_, err := value.NewValue(srcFor(b, i))
			return err
		}, map[string]interface{}{"signature": d.T.Sig(), "class": truncClass(d.T)})
		if c.WantSample() && i%100 == 1 {
			c.Sample(map[string]interface{}{"stream": "value", "signature": d.T.Sig(), "len": len(enc)})
		}
	})

	c.Cases("typed", c.Pick(1500, 50000), func(i int, rng *rand.Rand) {
		t := rc.GenType(rng, rc.GenOpts{Depth: 4, Width: 4, Scalars: scal, ComparableKeys: true, TemplateNames: true, MaxAnonNest: 4})
		b := 100
		vo := rc.ValOpts{MaxLen: 4, MaxStr: 20, Budget: &b, DynDepth: 1, DynOpts: &inner}
		if i%16 == 15 { // up to two strings / buffers of 4 KiB .. 70 KiB
			long := 2
			vo.LongStr = &long
		}
		if i%8 == 3 { // up to two strings / buffers whose length is within 4 of a power of two (28 .. 4100)
			mid := 2
			vo.MidStr = &mid
		}
		v := fixDyn(rng, t, rc.GenValue(rng, t, vo))
		enc, fields := rc.EncodeFields(t, v)
		if len(enc) == 0 {
			return
		}
		if len(enc) > 4096 {
			c.Count("typed_data_with_long_strings", 1)
		}
		ty, err := signature.Parse(t.Sig())
		if err != nil {
			c.Count("signature_rejected", 1)
			return
		}
		detail := map[string]interface{}{"signature": t.Sig(), "class": truncClass(t)}
		cutAll(c, "typed", i, "signature.TypeReader.Read", enc, cuts(rng, len(enc), fields, exh), func(b []byte) error {
			_, err := ty.Reader().Read(srcFor(b, i))
			return err
		}, detail)
		// the same datum through the reflection decoder
		if !t.Has(rc.Object) {
			gt := goType(t)
			cutAll(c, "typed", i, "encoding.Decoder.Decode", enc, cuts(rng, len(enc), fields, exh), func(b []byte) error {
				return encoding.NewDecoder(encoding.DefaultCap(), bytes.NewReader(b)).Decode(reflect.New(gt).Interface())
			}, map[string]interface{}{"signature": t.Sig(), "class": truncClass(t)})
		}
		if c.WantSample() && i%100 == 2 {
			c.Sample(map[string]interface{}{"stream": "typed", "signature": t.Sig(), "len": len(enc)})
		}
	})

	// long: a string / buffer of 64 KiB .. 200 KiB as the LAST thing decoded (a reader that works in
	// chunks must still notice that the last chunk is missing)
	c.Cases("long", c.Pick(60, 1500), func(i int, rng *rand.Rand) {
		n := []int{65535, 65536, 65537, 70000, 100000, 131073, 200000}[rng.Intn(7)]
		b := make([]byte, n)
		for k := range b {
			b[k] = byte(' ' + rng.Intn(95))
		}
		long := string(b)
		var t *rc.Type
		var v interface{}
		switch i % 6 {
		case 0:
			t, v = rc.T(rc.String), long
		case 1:
			t, v = rc.TupleOf(rc.T(rc.Int32), rc.T(rc.String)), rc.Tup{int32(rng.Int31()), long}
		case 2:
			t, v = rc.ListOf(rc.T(rc.String)), []interface{}{"a", "bc", long}
		case 3:
			t, v = rc.MapOf(rc.T(rc.Uint32), rc.T(rc.String)), []rc.KV{{K: uint32(1), V: long}}
		case 4:
			t, v = rc.StructOf("Tail", []string{"n", "text"}, rc.T(rc.Uint16), rc.T(rc.String)), rc.Tup{uint16(7), long}
		default:
			t, v = rc.T(rc.Raw), b
		}
		enc, fields := rc.EncodeFields(t, v)
		detail := map[string]interface{}{"signature": t.Sig(), "class": "long-tail/" + truncClass(t), "long_len": n}
		ks := cuts(rng, len(enc), fields, 0)
		if ty, err := signature.Parse(t.Sig()); err == nil && t.K != rc.Raw {
			cutAll(c, "long", i, "signature.TypeReader.Read", enc, ks, func(b []byte) error {
				_, err := ty.Reader().Read(bytes.NewReader(b))
				return err
			}, detail)
		}
		if t.K != rc.Raw { // raw buffers exist only inside dynamic values
			cutAll(c, "long", i, "encoding.Decoder.Decode", enc, ks, func(b []byte) error {
				return encoding.NewDecoder(encoding.DefaultCap(), bytes.NewReader(b)).Decode(reflect.New(goType(t)).Interface())
			}, map[string]interface{}{"signature": t.Sig(), "class": "long-tail/" + truncClass(t), "long_len": n})
		}
		denc, dfields := rc.EncodeFields(rc.T(rc.Dyn), rc.DynV{T: t, V: v})
		cutAll(c, "long", i, "value.NewValue", denc, cuts(rng, len(denc), dfields, 0), func(b []byte) error {
			_, err := value.NewValue(bytes.NewReader(b))
			return err
		}, map[string]interface{}{"signature": t.Sig(), "class": "long-tail/" + truncClass(t), "long_len": n})
		if c.WantSample() && i%20 == 0 {
			c.Sample(map[string]interface{}{"stream": "long", "signature": t.Sig(), "long_len": n, "cuts": len(ks)})
		}
	})

	// long-lists: lists of more than 4096 small elements (the reflection decoder's own limit for allocating
	// a list; it may refuse such a list altogether - its strict prefixes must be refused in any case, which
	// is why these prefixes are tried whether or not the complete encoding is accepted)
	c.Cases("long-lists", c.Pick(60, 1500), func(i int, rng *rand.Rand) {
		n := []int{4097, 4100, 5000, 6000, 8191, 8192, 20000}[rng.Intn(7)]
		ek := []rc.Kind{rc.Uint8, rc.Int8, rc.Bool, rc.Uint16, rc.Int32, rc.Double}[rng.Intn(6)]
		l := make([]interface{}, n)
		for k := range l {
			l[k] = rc.GenValue(rng, rc.T(ek), rc.ValOpts{})
		}
		var t *rc.Type
		var v interface{}
		switch i % 3 {
		case 0:
			t, v = rc.ListOf(rc.T(ek)), l
		case 1:
			t, v = rc.StructOf("Tail", []string{"n", "items"}, rc.T(rc.Uint16), rc.ListOf(rc.T(ek))), rc.Tup{uint16(7), l}
		default:
			t, v = rc.TupleOf(rc.T(rc.String), rc.ListOf(rc.T(ek))), rc.Tup{"head", l}
		}
		enc, fields := rc.EncodeFields(t, v)
		detail := map[string]interface{}{"signature": t.Sig(), "class": "long-list/" + t.Sig(), "elements": n}
		gt := goType(t)
		dec := func(b []byte) error {
			return encoding.NewDecoder(encoding.DefaultCap(), srcFor(b, i/3)).Decode(reflect.New(gt).Interface())
		}
		var ferr error
		if wk.Try2(func() { ferr = dec(enc) }) {
			c.Viol("long-lists", i, "full=panic/encoding.Decoder.Decode", "the reflection decoder panicked on a valid encoding", detail)
			return
		}
		if ferr == nil {
			c.Count("long_lists_accepted_complete", 1)
		} else {
			c.Count("long_lists_refused_complete", 1)
		}
		for _, k := range cuts(rng, len(enc), fields, 0) {
			var err error
			panicked := wk.Try2(func() { err = dec(enc[:k]) })
			c.Eval(1)
			if panicked || err == nil {
				detail["cut"] = k
				c.Viol("long-lists", i, "accepted/encoding.Decoder.Decode/long-list", fmt.Sprintf("the reflection decoder accepted (or panicked on) a %d-byte prefix of a %d-byte encoding of %d elements", k, len(enc), n), detail)
				return
			}
		}
		c.Nontrivial(wk.Hash64("long-lists", t.Sig(), n))
	})

	c.Cases("structs", c.Pick(600, 20000), func(i int, rng *rand.Rand) {
		b := 40
		vo := rc.ValOpts{MaxLen: 3, MaxStr: 16, Budget: &b, DynDepth: 1, DynOpts: &inner}
		switch i % 4 {
		case 0:
			v := rc.GenValue(rng, rc.MetaObjectType, vo)
			enc, fields := rc.EncodeFields(rc.MetaObjectType, v)
			cutAll(c, "structs", i, "object.ReadMetaObject", enc, cuts(rng, len(enc), fields, exh), func(b []byte) error {
				_, err := object.ReadMetaObject(srcFor(b, i/4))
				return err
			}, map[string]interface{}{"signature": "MetaObject"})
		case 1:
			v := rc.GenValue(rng, rc.ObjectRefType, vo)
			enc, fields := rc.EncodeFields(rc.ObjectRefType, v)
			cutAll(c, "structs", i, "object.ReadObjectReference", enc, cuts(rng, len(enc), fields, exh), func(b []byte) error {
				_, err := object.ReadObjectReference(srcFor(b, i/4))
				return err
			}, map[string]interface{}{"signature": "ObjectReference"})
		case 2:
			v := rc.GenValue(rng, serviceInfoType, vo)
			enc, fields := rc.EncodeFields(serviceInfoType, v)
			cutAll(c, "structs", i, "directory.ReadServiceInfo", enc, cuts(rng, len(enc), fields, exh), func(b []byte) error {
				_, err := directory.ReadServiceInfo(bytes.NewReader(b))
				return err
			}, map[string]interface{}{"signature": "ServiceInfo"})
		case 3:
			v := fixDyn(rng, capMapType, rc.GenValue(rng, capMapType, vo))
			enc, fields := rc.EncodeFields(capMapType, v)
			cutAll(c, "structs", i, "bus.ReadCapabilityMap", enc, cuts(rng, len(enc), fields, exh), func(b []byte) error {
				_, err := bus.ReadCapabilityMap(bytes.NewReader(b))
				return err
			}, map[string]interface{}{"signature": "CapabilityMap"})
		}
	})
}
