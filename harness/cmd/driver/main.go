// driver: builds the worker from /repo's current tree, runs it in child
// processes (one per shard, restarted after a crash), aggregates what the
// monitors observed, matches violations against KNOWN_FINDINGS.txt, writes the
// evidence file and prints the verdict lines.
package main

import (
	"bufio"
	"bytes"
	"encoding/binary"
	"encoding/json"
	"fmt"
	"io/ioutil"
	"os"
	"os/exec"
	"path/filepath"
	"regexp"
	"runtime"
	"sort"
	"strconv"
	"strings"
	"sync"
	"syscall"
	"time"
)

var root = "/verif"

type propCfg struct {
	engine   string
	race     bool
	gen      bool // needs freshly generated harness services
	level    string
	qShards  int
	tShards  int
	raceViol bool   // race reports inside qiloop count as violations
	racePkg  string // only races with a frame in this package path count (empty: any qiloop frame)
	qTimeout time.Duration
	tTimeout time.Duration
	assume   []string
}

var ncpu = runtime.NumCPU()

var (
	goCachesOnce sync.Once
	goCaches     []string
)

func cfgFor(id string) (propCfg, bool) {
	c, ok := props[id]
	return c, ok
}

type viol struct {
	Stream string          `json:"stream"`
	Case   int             `json:"case"`
	Key    string          `json:"key"`
	What   string          `json:"what"`
	Detail json.RawMessage `json:"detail"`
	Shard  int             `json:"shard"`
	Kind   string          `json:"kind"` // monitor | crash | race
	Stderr string          `json:"stderr,omitempty"`
}

type snap struct {
	T        string                 `json:"t"`
	Evals    int64                  `json:"evals"`
	Viols    int64                  `json:"viols"`
	Incon    int64                  `json:"incon"`
	Distinct int64                  `json:"distinct"`
	Counters map[string]int64       `json:"counters"`
	Samples  []interface{}          `json:"samples"`
	Notes    map[string]string      `json:"notes"`
	ViolKeys map[string]int         `json:"violkeys"`
	Extra    map[string]interface{} `json:"-"`
}

type agg struct {
	mu        sync.Mutex
	evals     int64
	incon     int64
	counters  map[string]int64
	maxes     map[string]int64
	samples   []interface{}
	samplePer map[string]int
	notes     map[string]string
	viols     []viol
	violCount map[string]int
	hashes    map[uint64]struct{}
	crashes   int
	watchdogs int
	broken    []string
	incons    []string
}

func (a *agg) addSnap(s *snap) {
	a.mu.Lock()
	defer a.mu.Unlock()
	a.evals += s.Evals
	a.incon += s.Incon
	for k, v := range s.Counters {
		if strings.HasPrefix(k, "max_") {
			if v > a.counters[k] {
				a.counters[k] = v
			}
		} else {
			a.counters[k] += v
		}
	}
	for _, x := range s.Samples {
		// keep the evidence samples diverse: at most 2 per stream, 12 in all
		key := ""
		if m, ok := x.(map[string]interface{}); ok {
			if st, ok := m["stream"].(string); ok {
				key = st
			}
		}
		if a.samplePer == nil {
			a.samplePer = map[string]int{}
		}
		if len(a.samples) < 12 && (a.samplePer[key] < 2 || key == "" && a.samplePer[key] < 6) {
			a.samplePer[key]++
			a.samples = append(a.samples, x)
		}
	}
	for k, v := range s.Notes {
		a.notes[k] = v
	}
	for k, v := range s.ViolKeys {
		a.violCount[k] += v
	}
}

// procsFor gives each shard of a concurrency engine its own GOMAXPROCS, so that one check
// explores several scheduling regimes: full parallelism (0 = all cores), and few processors,
// where a goroutine that loses its processor between two critical sections stays away for a
// whole time slice - a delay injected between any two instructions without touching the source.
// VERIF_PROCS=n forces one value (0 = default) for every shard, e.g. for a replay.
var procsTable = []int{0, 2, 4, 0, 3, 8, 0, 2, 6, 0, 4, 2, 0, 3, 12, 5}

func procsFor(shard int, replay bool) int {
	if v := os.Getenv("VERIF_PROCS"); v != "" {
		n, _ := strconv.Atoi(v)
		return n
	}
	if replay {
		return 0
	}
	p := procsTable[shard%len(procsTable)]
	if p > ncpu {
		p = 0
	}
	return p
}

// perturbFor gives each shard of a concurrency engine the probability (per thousand) with which the
// mutexes of lugu/qiloop's bus packages yield or sleep at a lock boundary (hook bus/util/vsync, build
// tag verif): half of the shards run unperturbed (most cases per second), the others widen the gaps
// between critical sections more or less. The table's length is coprime with procsTable's.
// VERIF_PERTURB=n in the environment forces one value for every shard.
var perturbTable = []int{0, 50, 0, 150, 20, 0, 100, 0, 30, 250, 0}

func perturbFor(shard int, replay bool) int {
	if v := os.Getenv("VERIF_PERTURB"); v != "" {
		n, _ := strconv.Atoi(v)
		return n
	}
	if replay {
		return 100
	}
	return perturbTable[shard%len(perturbTable)]
}

func env(extra ...string) []string {
	e := []string{}
	for _, kv := range os.Environ() {
		if strings.HasPrefix(kv, "GOFLAGS=") || strings.HasPrefix(kv, "GOPROXY=") || strings.HasPrefix(kv, "GOSUMDB=") || strings.HasPrefix(kv, "GOTOOLCHAIN=") || strings.HasPrefix(kv, "GORACE=") {
			continue
		}
		e = append(e, kv)
	}
	e = append(e, "GOFLAGS=-mod=mod", "GOPROXY=off", "GOSUMDB=off", "GOTOOLCHAIN=local")
	// children run with a scratch HOME: pin the module and build caches to the real ones
	goCachesOnce.Do(func() {
		cmd := exec.Command("go", "env", "GOMODCACHE", "GOCACHE")
		cmd.Env = e
		if out, err := cmd.Output(); err == nil {
			f := strings.Fields(string(out))
			if len(f) == 2 {
				goCaches = []string{"GOMODCACHE=" + f[0], "GOCACHE=" + f[1]}
			}
		}
	})
	e = append(e, goCaches...)
	return append(e, extra...)
}

func run(dir string, envv []string, name string, args ...string) (string, error) {
	cmd := exec.Command(name, args...)
	cmd.Dir = dir
	cmd.Env = envv
	out, err := cmd.CombinedOutput()
	return string(out), err
}

var reNum = regexp.MustCompile(`0x[0-9a-f]+|\d+`)

func classifyCrash(stderr string) (kind, msg, site string) {
	lines := strings.Split(stderr, "\n")
	for i, l := range lines {
		if strings.HasPrefix(l, "panic: ") || strings.HasPrefix(l, "fatal error: ") || strings.HasPrefix(l, "runtime: ") {
			kind = "panic"
			if strings.HasPrefix(l, "fatal error: ") {
				kind = "fatal"
			}
			msg = reNum.ReplaceAllString(l, "N")
			if len(msg) > 90 {
				msg = msg[:90]
			}
			rest := strings.Join(lines[i:], "\n")
			site = panicSite(rest)
			return
		}
	}
	return "", "", ""
}

func panicSite(stack string) string {
	// first goroutine block only
	blocks := strings.SplitN(stack, "\n\n", 3)
	search := stack
	if len(blocks) >= 2 {
		search = blocks[0] + "\n\n" + blocks[1]
	}
	for _, l := range strings.Split(search, "\n") {
		l = strings.TrimSpace(l)
		if strings.HasPrefix(l, "github.com/lugu/qiloop/") {
			l = strings.TrimPrefix(l, "github.com/lugu/qiloop/")
			if k := strings.LastIndex(l, "("); k > 0 {
				l = l[:k]
			}
			return l
		}
	}
	return "unknown"
}

func keyify(s string) string {
	s = strings.TrimSpace(s)
	s = strings.Map(func(r rune) rune {
		if r == ' ' || r == '\t' {
			return '_'
		}
		return r
	}, s)
	return s
}

// runShard runs one shard to completion, restarting after crashes.
func runShard(id, tier string, seed int64, shard, nshards int, cfg propCfg, worker, outdir string, a *agg, timeout time.Duration, only int, onlyStream string) {
	from := 0
	fromStream := ""
	for seg := 0; seg < 40; seg++ {
		base := fmt.Sprintf("%s/s%02d.%03d", outdir, shard, seg)
		args := []string{id, "-tier", tier, "-seed", strconv.FormatInt(seed, 10), "-shard", strconv.Itoa(shard), "-nshards", strconv.Itoa(nshards),
			"-out", outdir, "-seg", strconv.Itoa(seg)}
		if fromStream != "" {
			args = append(args, "-fromstream", fromStream, "-from", strconv.Itoa(from))
		}
		if only >= 0 {
			args = append(args, "-case", strconv.Itoa(only), "-stream", onlyStream)
		}
		cmd := exec.Command(worker, args...)
		cmd.Dir = outdir
		home := outdir + "/home"
		os.MkdirAll(home, 0755)
		tmpd := outdir + "/tmp"
		os.MkdirAll(tmpd, 0755)
		ev := env("HOME="+home, "TMPDIR="+tmpd, "VERIF_ROOT="+root, "GOTRACEBACK=all")
		if cfg.race {
			ev = append(ev, "GORACE=halt_on_error=0 exitcode=0 log_path="+base+".race history_size=3")
			if p := procsFor(shard+int(seed&0xffff), only >= 0); p > 0 {
				ev = append(ev, "GOMAXPROCS="+strconv.Itoa(p))
			}
			ev = append(ev, "VERIF_PERTURB="+strconv.Itoa(perturbFor(shard+int(seed&0xffff), only >= 0)))
		}
		cmd.Env = ev
		errf, _ := os.Create(base + ".stderr")
		cmd.Stderr = errf
		cmd.Stdout = errf
		if err := cmd.Start(); err != nil {
			a.mu.Lock()
			a.broken = append(a.broken, "start worker: "+err.Error())
			a.mu.Unlock()
			return
		}
		done := make(chan error, 1)
		go func() { done <- cmd.Wait() }()
		var werr error
		watchdog := false
		select {
		case werr = <-done:
		case <-time.After(timeout):
			watchdog = true
			cmd.Process.Signal(syscall.SIGQUIT)
			select {
			case werr = <-done:
			case <-time.After(20 * time.Second):
				cmd.Process.Kill()
				werr = <-done
			}
		}
		errf.Close()
		// parse jsonl
		finished := false
		var last *snap
		if f, err := os.Open(base + ".jsonl"); err == nil {
			sc := bufio.NewScanner(f)
			sc.Buffer(make([]byte, 1<<20), 64<<20)
			for sc.Scan() {
				line := sc.Bytes()
				var head struct {
					T string `json:"t"`
				}
				if json.Unmarshal(line, &head) != nil {
					continue
				}
				switch head.T {
				case "viol":
					var v viol
					json.Unmarshal(line, &v)
					v.Shard = shard
					v.Kind = "monitor"
					a.mu.Lock()
					a.viols = append(a.viols, v)
					a.mu.Unlock()
				case "incon":
					var m struct {
						Stream string `json:"stream"`
						Case   int    `json:"case"`
						Why    string `json:"why"`
					}
					json.Unmarshal(line, &m)
					a.mu.Lock()
					if len(a.incons) < 10 {
						a.incons = append(a.incons, fmt.Sprintf("%s#%d: %s", m.Stream, m.Case, m.Why))
					}
					a.mu.Unlock()
				case "snap", "done":
					var s snap
					json.Unmarshal(line, &s)
					last = &s
					if head.T == "done" {
						finished = true
					}
				}
			}
			f.Close()
		}
		if last != nil {
			a.addSnap(last)
		}
		// hashes
		if hb, err := ioutil.ReadFile(base + ".hashes"); err == nil {
			a.mu.Lock()
			for i := 0; i+8 <= len(hb); i += 8 {
				a.hashes[binary.LittleEndian.Uint64(hb[i:])] = struct{}{}
			}
			a.mu.Unlock()
		}
		if finished && werr == nil {
			return
		}
		// crashed or killed: find the case
		pb, _ := ioutil.ReadFile(base + ".progress")
		ci := -1
		cs := ""
		if len(pb) >= 8 {
			ci = int(binary.LittleEndian.Uint64(pb[:8]))
			cs = string(bytes.TrimRight(pb[8:], "\x00"))
		}
		stderrB, _ := ioutil.ReadFile(base + ".stderr")
		stderrS := string(stderrB)
		if watchdog {
			a.mu.Lock()
			a.watchdogs++
			a.broken = append(a.broken, fmt.Sprintf("watchdog fired after %s in shard %d at %s#%d (inconclusive); dump in %s.stderr", timeout, shard, cs, ci, base))
			a.mu.Unlock()
			return
		}
		if strings.Contains(stderrS, "CASE-WATCHDOG") {
			// one case ran for too long: inconclusive (already recorded by the worker), go on with the next
			a.mu.Lock()
			a.counters["case_watchdogs"]++
			if len(a.incons) < 10 {
				a.incons = append(a.incons, fmt.Sprintf("case watchdog at %s#%d, goroutine dump in %s.stderr", cs, ci, base))
			}
			a.mu.Unlock()
			if only >= 0 || ci < 0 {
				return
			}
			fromStream = cs
			from = ci + 1
			continue
		}
		if strings.Contains(stderrS, "RECYCLE-EXIT") {
			// the worker handed over to a fresh process (memory): go on with the next case
			a.mu.Lock()
			a.counters["workers_recycled_for_memory"]++
			a.mu.Unlock()
			if only >= 0 || ci < 0 {
				return
			}
			fromStream = cs
			from = ci + 1
			continue
		}
		if strings.Contains(stderrS, "GUARD-EXIT") {
			// the worker's resource guard reported the case itself and exited
			a.mu.Lock()
			a.counters["guard_exits"]++
			a.mu.Unlock()
			if only >= 0 || ci < 0 {
				return
			}
			fromStream = cs
			from = ci + 1
			continue
		}
		kind, msg, site := classifyCrash(stderrS)
		if kind == "" {
			a.mu.Lock()
			tail := stderrS
			if len(tail) > 600 {
				tail = tail[len(tail)-600:]
			}
			a.broken = append(a.broken, fmt.Sprintf("worker shard %d exited abnormally (%v) without a panic signature: %s", shard, werr, tail))
			a.mu.Unlock()
			return
		}
		harnessOnly := !strings.Contains(stderrS, "github.com/lugu/qiloop/")
		if harnessOnly && kind == "panic" && !strings.Contains(msg, "out of memory") {
			a.mu.Lock()
			tail := stderrS
			if len(tail) > 1500 {
				tail = tail[:1500]
			}
			a.broken = append(a.broken, fmt.Sprintf("harness panic in shard %d at %s#%d: %s", shard, cs, ci, tail))
			a.mu.Unlock()
			return
		}
		if len(stderrS) > 6000 {
			stderrS = stderrS[:6000]
		}
		v := viol{Stream: cs, Case: ci, Shard: shard, Kind: "crash",
			Key:    keyify("crash=" + kind + "/site=" + site + "/msg=" + msg),
			What:   "process crashed: " + msg + " at " + site,
			Stderr: stderrS}
		a.mu.Lock()
		a.viols = append(a.viols, v)
		a.violCount[v.Key]++
		a.crashes++
		a.mu.Unlock()
		if only >= 0 || ci < 0 {
			return
		}
		fromStream = cs
		from = ci + 1
	}
	a.mu.Lock()
	a.broken = append(a.broken, fmt.Sprintf("shard %d: too many crashes, remaining cases not run", shard))
	a.mu.Unlock()
}

type known struct {
	prop, key, text string
}

func loadKnown() []known {
	var ks []known
	b, err := ioutil.ReadFile(root + "/KNOWN_FINDINGS.txt")
	if err != nil {
		return nil
	}
	for _, l := range strings.Split(string(b), "\n") {
		l = strings.TrimSpace(l)
		if !strings.HasPrefix(l, "known:") {
			continue
		}
		f := strings.Fields(strings.TrimPrefix(l, "known:"))
		if len(f) < 2 || !strings.HasPrefix(f[0], "property=") || !strings.HasPrefix(f[1], "key=") {
			continue
		}
		ks = append(ks, known{strings.TrimPrefix(f[0], "property="), strings.TrimPrefix(f[1], "key="), strings.Join(f[2:], " ")})
	}
	return ks
}

// race reports
var reRaceFrame = regexp.MustCompile(`^\s+(github\.com/lugu/qiloop/[^\s(]+|verif/[^\s(]+)`)

type raceRep struct {
	key   string
	text  string
	inPkg bool
}

func parseRaces(outdir string, racePkg string) (reps []raceRep, harnessOnly int) {
	files, _ := filepath.Glob(outdir + "/*.race.*")
	seen := map[string]bool{}
	for _, f := range files {
		b, _ := ioutil.ReadFile(f)
		blocks := strings.Split(string(b), "==================")
		for _, blk := range blocks {
			if !strings.Contains(blk, "WARNING: DATA RACE") {
				continue
			}
			// sections: access 1, access 2 ("Previous ...")
			secs := regexp.MustCompile(`(?m)^(Read|Write|Previous read|Previous write|Atomic|Previous atomic)[^\n]*\n`).Split(blk, -1)
			var tops []string
			inPkg := false
			for _, s := range secs[1:] {
				// who made the access: the first frame that is neither runtime nor
				// standard library. qiloop code -> its function; harness code -> "(harness)".
				top := ""
				for _, l := range strings.Split(s, "\n") {
					if l == "" {
						break
					}
					if strings.HasPrefix(l, "  ") && !strings.HasPrefix(l, "      ") {
						fn := strings.TrimSpace(l)
						if k := strings.LastIndex(fn, "("); k > 0 {
							fn = fn[:k]
						}
						if strings.HasPrefix(fn, "github.com/lugu/qiloop/") {
							if top == "" {
								top = strings.TrimPrefix(fn, "github.com/lugu/qiloop/")
								if racePkg == "" || strings.Contains(fn, racePkg) {
									inPkg = true
								}
							}
						} else if strings.HasPrefix(fn, "verif/") || strings.HasPrefix(fn, "main.") {
							if top == "" {
								top = "(harness)"
							}
						}
					}
				}
				if top == "" {
					top = "(harness)"
				}
				tops = append(tops, top)
				if len(tops) == 2 {
					break
				}
			}
			sort.Strings(tops)
			key := "race=" + strings.Join(tops, "|")
			allNon := false
			for _, t := range tops {
				if t == "(harness)" {
					allNon = true // an access made by harness code: a harness bug, not a finding
				}
			}
			if allNon {
				harnessOnly++
				if !seen[key+blk[:min(len(blk), 200)]] {
					seen[key+blk[:min(len(blk), 200)]] = true
					reps = append(reps, raceRep{key: "harness-only", text: blk})
				}
				continue
			}
			if seen[key] {
				continue
			}
			seen[key] = true
			if len(blk) > 5000 {
				blk = blk[:5000]
			}
			reps = append(reps, raceRep{key: keyify(key), text: blk, inPkg: inPkg})
		}
	}
	return
}

func min(a, b int) int {
	if a < b {
		return a
	}
	return b
}

func main() {
	if r := os.Getenv("VERIF_ROOT"); r != "" {
		root = r
	}
	if len(os.Args) < 3 {
		fmt.Fprintln(os.Stderr, "usage: driver check <id> [quick|thorough] | driver replay <path>")
		os.Exit(2)
	}
	switch os.Args[1] {
	case "check":
		tier := os.Getenv("VERIF_TIER")
		if len(os.Args) > 3 {
			tier = os.Args[3]
		}
		if tier == "" {
			tier = "quick"
		}
		os.Exit(check(os.Args[2], tier, -1, "", true))
	case "replay":
		os.Exit(replay(os.Args[2]))
	default:
		fmt.Fprintln(os.Stderr, "unknown command")
		os.Exit(2)
	}
}

func replay(path string) int {
	b, err := ioutil.ReadFile(path)
	if err != nil {
		fmt.Fprintln(os.Stderr, err)
		return 2
	}
	var r struct {
		Property string `json:"property"`
		Tier     string `json:"tier"`
		Seed     int64  `json:"seed"`
		Stream   string `json:"stream"`
		Case     int    `json:"case"`
		Key      string `json:"key"`
	}
	if err := json.Unmarshal(b, &r); err != nil {
		fmt.Fprintln(os.Stderr, err)
		return 2
	}
	os.Setenv("VERIF_SEED", strconv.FormatInt(r.Seed, 10))
	fmt.Printf("replaying %s %s seed=%d case %s#%d (recorded key %s)\n", r.Property, r.Tier, r.Seed, r.Stream, r.Case, r.Key)
	if r.Case < 0 || r.Stream == "" {
		return check(r.Property, r.Tier, -1, "", false)
	}
	return check(r.Property, r.Tier, r.Case, r.Stream, false)
}

func check(id, tier string, only int, onlyStream string, writeEvidence bool) int {
	t0 := time.Now()
	cfg, ok := cfgFor(id)
	if !ok {
		fmt.Fprintf(os.Stderr, "unknown property %s\n", id)
		return 2
	}
	seed := int64(1)
	if s := os.Getenv("VERIF_SEED"); s != "" {
		if v, err := strconv.ParseInt(s, 10, 64); err == nil {
			seed = v
		}
	}
	suffix := ""
	if only >= 0 {
		suffix = "-replay"
	}
	outdir := fmt.Sprintf("%s/build/out/%s-%s%s", root, id, tier, suffix)
	os.RemoveAll(outdir)
	os.MkdirAll(outdir, 0755)
	harness := root + "/harness"

	genNote := ""
	if cfg.gen {
		note, err := generate(harness)
		genNote = note
		if err != nil {
			fmt.Printf("BROKEN: cannot generate harness services: %v\n", err)
			return 2
		}
	}
	// build worker from /repo's current tree
	worker := root + "/build/worker-" + cfg.engine
	bargs := []string{"build", "-tags", "verif"}
	overlayFiles := 0
	if cfg.race {
		worker += "-race"
		bargs = append(bargs, "-race")
		if os.Getenv("VERIF_NO_OVERLAY") == "" {
			opath, n, err := makeOverlay(root, harness)
			if err != nil {
				fmt.Printf("BROKEN: cannot prepare the build overlay: %v\n", err)
				return 2
			}
			overlayFiles = n
			if n > 0 {
				bargs = append(bargs, "-overlay", opath)
			}
		}
	}
	bargs = append(bargs, "-o", worker, "./cmd/"+cfg.engine)
	out, err := run(harness, env(), "go", bargs...)
	if err != nil && overlayFiles > 0 {
		// the rewritten copies may not compile (a use of package sync that verif/vsync does not
		// offer): build from the plain sources rather than fail the check
		plain := []string{}
		for k := 0; k < len(bargs); k++ {
			if bargs[k] == "-overlay" {
				k++
				continue
			}
			plain = append(plain, bargs[k])
		}
		if out2, err2 := run(harness, env(), "go", plain...); err2 == nil {
			out, err, bargs, overlayFiles = out2, nil, plain, 0
		}
	}
	if err != nil {
		if cfg.gen && genNote != "pinned-fallback" {
			// freshly generated code may not compile: fall back to pinned copies
			if err2 := usePinned(harness); err2 == nil {
				genNote = "pinned-fallback"
				out, err = run(harness, env(), "go", bargs...)
			}
		}
		if err != nil {
			fmt.Printf("BROKEN: worker build failed:\n%s\n", out)
			return 2
		}
	}

	a := &agg{counters: map[string]int64{}, notes: map[string]string{}, violCount: map[string]int{}, hashes: map[uint64]struct{}{}}
	nshards := cfg.qShards
	timeout := cfg.qTimeout
	if tier == "thorough" {
		nshards = cfg.tShards
		timeout = cfg.tTimeout
	}
	if nshards <= 0 {
		nshards = 1
	}
	if timeout == 0 {
		timeout = 15 * time.Minute
		if tier == "thorough" {
			timeout = 90 * time.Minute
		}
	}
	if only >= 0 {
		runShard(id, tier, seed, 0, 1, cfg, worker, outdir, a, timeout, only, onlyStream)
	} else {
		var wg sync.WaitGroup
		sem := make(chan struct{}, ncpu)
		for s := 0; s < nshards; s++ {
			wg.Add(1)
			go func(s int) {
				defer wg.Done()
				sem <- struct{}{}
				defer func() { <-sem }()
				runShard(id, tier, seed, s, nshards, cfg, worker, outdir, a, timeout, -1, "")
			}(s)
		}
		wg.Wait()
	}

	// race reports
	var races []raceRep
	raceKeys := []string{}
	if cfg.race {
		var honly int
		races, honly = parseRaces(outdir, cfg.racePkg)
		_ = honly
		for _, r := range races {
			if r.key == "harness-only" {
				a.broken = append(a.broken, "data race involving an access made by harness code (harness bug):\n"+r.text[:min(len(r.text), 1500)])
				continue
			}
			raceKeys = append(raceKeys, r.key)
			if cfg.raceViol && r.inPkg {
				a.viols = append(a.viols, viol{Stream: "", Case: -1, Kind: "race", Key: r.key, What: "data race reported by the Go race detector: " + r.key, Stderr: r.text})
				a.violCount[r.key]++
			}
		}
	}

	// classify violations
	kn := loadKnown()
	knownHit := map[string]string{}
	var unknown []viol
	seenKey := map[string]bool{}
	for _, v := range a.viols {
		matched := false
		for _, k := range kn {
			if k.prop == id && k.key == v.Key {
				knownHit[k.key] = k.text
				matched = true
				break
			}
		}
		if !matched && !seenKey[v.Key] {
			seenKey[v.Key] = true
			unknown = append(unknown, v)
		}
	}
	var knownKeys []string
	for k := range knownHit {
		knownKeys = append(knownKeys, k)
	}
	sort.Strings(knownKeys)
	for _, k := range knownKeys {
		fmt.Printf("KNOWN-FINDING: property=%s %s [key=%s, %d occurrence(s)]\n", id, knownHit[k], k, a.violCount[k])
	}
	os.MkdirAll(root+"/replay", 0755)
	if old, _ := filepath.Glob(fmt.Sprintf("%s/replay/%s-%s-seed%d-*.json", root, id, tier, seed)); only < 0 {
		for _, f := range old {
			os.Remove(f)
		}
	}
	for n, v := range unknown {
		path := fmt.Sprintf("%s/replay/%s-%s-seed%d-%d.json", root, id, tier, seed, n)
		rb, _ := json.MarshalIndent(map[string]interface{}{
			"property": id, "tier": tier, "seed": seed, "stream": v.Stream, "case": v.Case, "key": v.Key,
			"what": v.What, "kind": v.Kind, "detail": v.Detail, "stderr": v.Stderr, "occurrences": a.violCount[v.Key],
		}, "", " ")
		ioutil.WriteFile(path, rb, 0644)
		fmt.Printf("VIOLATION property=%s replay=%s\n", id, path)
		fmt.Printf("  key=%s\n  %s\n", v.Key, v.What)
	}

	distinct := int64(len(a.hashes))
	wall := time.Since(t0).Seconds()
	rule := a.notes["rule"]
	delete(a.notes, "rule")
	cov := map[string]interface{}{
		"evaluations":         a.evals,
		"distinct_nontrivial": distinct,
		"rule":                rule,
		"samples":             a.samples,
		"counters":            a.counters,
		"inconclusive":        a.incon,
		"inconclusive_sample": a.incons,
		"crashes":             a.crashes,
		"known_findings":      knownKeys,
		"unlisted_violations": len(unknown),
		"shards":              nshards,
	}
	if cfg.race {
		sort.Strings(raceKeys)
		procs := []int{}
		for s := 0; s < nshards; s++ {
			procs = append(procs, procsFor(s+int(seed&0xffff), only >= 0))
		}
		cov["gomaxprocs_by_shard"] = procs
		pert := []int{}
		for s := 0; s < nshards; s++ {
			pert = append(pert, perturbFor(s+int(seed&0xffff), only >= 0))
		}
		cov["lock_boundary_perturbation_permille_by_shard"] = pert
		cov["source_files_built_with_perturbed_mutexes"] = overlayFiles
		cov["race_reports"] = raceKeys
		cov["race_detector"] = "on"
	}
	if genNote != "" {
		cov["generated_code"] = genNote
	}
	for k, v := range a.notes {
		cov["note_"+k] = v
	}
	if writeEvidence && os.Getenv("VERIF_NO_EVIDENCE") == "" {
		ev := map[string]interface{}{
			"property_id": id, "tier": tier, "seed": seed, "level": cfg.level,
			"coverage": cov, "assumptions": cfg.assume, "wall_s": wall, "violations": len(unknown),
		}
		eb, _ := json.MarshalIndent(ev, "", " ")
		os.MkdirAll(root+"/evidence", 0755)
		ioutil.WriteFile(root+"/evidence/"+id+".json", eb, 0644)
	}
	fmt.Printf("%s %s seed=%d: %d evaluations, %d distinct non-trivial, %d inconclusive, %d crash(es), %d known finding(s), %d unlisted violation(s), %.1fs\n",
		id, tier, seed, a.evals, distinct, a.incon, a.crashes, len(knownKeys), len(unknown), wall)
	if len(unknown) > 0 {
		return 1
	}
	if len(a.broken) > 0 {
		for n, b := range a.broken {
			if n >= 3 {
				fmt.Printf("BROKEN: ... and %d more\n", len(a.broken)-3)
				break
			}
			fmt.Printf("BROKEN: %s\n", b)
		}
		return 2
	}
	if only < 0 && (a.evals == 0 || distinct < 2) {
		fmt.Printf("BROKEN: the run observed nothing non-trivial (evaluations=%d distinct=%d)\n", a.evals, distinct)
		return 2
	}
	return 0
}
