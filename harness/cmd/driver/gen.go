package main

import (
	"fmt"
	"io/ioutil"
	"os"
)

// generate regenerates the harness services (harness/idl/*.idl) with the stub
// generator built from /repo's current tree, into harness/gen (gitignored).
// If the generator cannot be built or fails, the pinned copy is used instead
// (reported as "pinned-fallback") so that a generator defect is reported by
// C05 rather than breaking every check.
func generate(harness string) (string, error) {
	os.MkdirAll(harness+"/gen/probe", 0755)
	stubgen := root + "/build/stubgen"
	out, err := run(harness, env(), "go", "build", "-o", stubgen, "github.com/lugu/qiloop/meta/cmd/stub")
	if err == nil {
		tmp := harness + "/gen/probe/probe_gen.go.tmp"
		out, err = run(harness, env(), stubgen, "--idl", "idl/probe.idl", "--output", tmp)
		if err == nil {
			if st, e := os.Stat(tmp); e == nil && st.Size() > 0 {
				if err = os.Rename(tmp, harness+"/gen/probe/probe_gen.go"); err == nil {
					return "fresh", nil
				}
			} else {
				err = fmt.Errorf("empty generator output")
			}
		}
		os.Remove(tmp)
	}
	if e2 := usePinned(harness); e2 != nil {
		return "", fmt.Errorf("generator failed (%v: %s) and pinned copy unusable: %v", err, out, e2)
	}
	return "pinned-fallback", nil
}

func usePinned(harness string) error {
	b, err := ioutil.ReadFile(harness + "/pinned/probe/probe_gen.go.txt")
	if err != nil {
		return err
	}
	os.MkdirAll(harness+"/gen/probe", 0755)
	return ioutil.WriteFile(harness+"/gen/probe/probe_gen.go", b, 0644)
}
