package main

import "fmt"

// generate regenerates the harness services with the generator built from
// /repo's current tree. Filled in with the bus engines.
func generate(harness string) (string, error) {
	return "", fmt.Errorf("not implemented")
}

func usePinned(harness string) error { return fmt.Errorf("not implemented") }
