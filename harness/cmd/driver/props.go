package main

import "time"

var codecAssume = []string{
	"the reference codec (harness/refcodec), written from doc/about-qimessaging.md, is a faithful model of the documented wire format",
	"cases are a finite PRNG-determined sample of the input space; nothing is claimed beyond the cases run",
}

var props = map[string]propCfg{
	"C01": {engine: "codec", gen: true, level: "exploration", qShards: 8, tShards: 16, assume: codecAssume},
	"C02": {engine: "codec", gen: true, level: "exploration", qShards: 8, tShards: 16, assume: codecAssume},
	"C03": {engine: "codec", gen: true, level: "exploration", qShards: 8, tShards: 16, assume: codecAssume},
	"C07": {engine: "codec", gen: true, level: "exploration", qShards: 8, tShards: 16, assume: codecAssume},
	"C08": {engine: "codec", gen: true, level: "exploration", qShards: 8, tShards: 16, assume: codecAssume},
	"C09": {engine: "codec", gen: true, level: "exploration", qShards: 8, tShards: 16, assume: codecAssume},
	"C18": {engine: "codec", gen: true, level: "exploration", qShards: 8, tShards: 16, assume: codecAssume},
	"C20": {engine: "codec", gen: true, level: "exploration", qShards: 8, tShards: 16, assume: codecAssume},
}

var _ = time.Second
