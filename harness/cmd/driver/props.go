package main

import "time"

var codecAssume = []string{
	"the reference codec (harness/refcodec), written from doc/about-qimessaging.md, is a faithful model of the documented wire format",
	"cases are a finite PRNG-determined sample of the input space; nothing is claimed beyond the cases run",
}

var props = map[string]propCfg{
	"C01": {engine: "codec", gen: true, level: "exploration", qShards: 8, tShards: 16, assume: codecAssume},
	"C02": {engine: "codec", gen: true, level: "exploration", qShards: 8, tShards: 16, assume: codecAssume},
	"C03": {engine: "codec", gen: true, level: "exploration", qShards: 8, tShards: 16, assume: codecAssume},
	"C07": {engine: "codec", gen: true, level: "exploration", qShards: 8, tShards: 16, assume: codecAssume},
	"C08": {engine: "codec", gen: true, level: "exploration", qShards: 8, tShards: 16, assume: codecAssume},
	"C09": {engine: "codec", gen: true, level: "exploration", qShards: 8, tShards: 16, assume: codecAssume},
	"C18": {engine: "codec", gen: true, level: "exploration", qShards: 8, tShards: 16, assume: codecAssume},
	"C20": {engine: "codec", gen: true, level: "exploration", qShards: 8, tShards: 16, assume: codecAssume},
	"C04": {engine: "bus", gen: true, race: true, level: "exploration", qShards: 12, tShards: 16, assume: busAssume},
	"C05": {engine: "codegen", gen: true, level: "exploration", qShards: 4, tShards: 16, assume: []string{"implementors and drivers are derived from the generated code's own interface declarations (go/ast), so they add no naming assumptions of their own", "values are filled by reflection from the Go types the generator chose; NaN is not generated"}},
	"C06": {engine: "bus", gen: true, race: true, level: "exploration", qShards: 12, tShards: 16, assume: busAssume},
	"C10": {engine: "bus", gen: true, race: true, level: "exploration", qShards: 6, tShards: 16, qTimeout: 8 * time.Minute, assume: busAssume},
	"C11": {engine: "bus", gen: true, race: true, level: "fault_enumeration", qShards: 12, tShards: 16, assume: busAssume},
	"C12": {engine: "bus", gen: true, race: true, raceViol: true, level: "exploration", qShards: 8, tShards: 16, assume: busAssume},
	"C13": {engine: "bus", gen: true, race: true, level: "exploration", qShards: 12, tShards: 16, assume: busAssume},
	"C14": {engine: "bus", gen: true, race: true, level: "exploration", qShards: 12, tShards: 16, assume: busAssume},
	"C15": {engine: "bus", gen: true, race: true, raceViol: true, racePkg: "qiloop/bus/directory", level: "exploration", qShards: 12, tShards: 16, assume: busAssume},
	"C16": {engine: "bus", gen: true, race: true, raceViol: true, racePkg: "qiloop/bus.(*clientService)", level: "exploration", qShards: 12, tShards: 16, assume: busAssume},
	"C17": {engine: "bus", gen: true, race: true, raceViol: true, racePkg: "qiloop/bus/net", level: "exploration", qShards: 12, tShards: 16, assume: busAssume},
	"C19": {engine: "bus", gen: true, race: true, raceViol: true, racePkg: "qiloop/bus/session", level: "exploration", qShards: 12, tShards: 16, assume: busAssume},
}

var busAssume = []string{
	"workloads run real qiloop code in-process over harness-owned streams, listeners and service implementations; interleavings are those the Go scheduler produces under the harness's barriers, yields and gates",
	"'never returns' is decided by the goroutine-state quiescence detector (harness/stuck), never by a timeout; a wall-clock watchdog only yields 'inconclusive'",
	"the Go race detector reports only races on executed paths",
	"schedule diversity: shards run under different GOMAXPROCS and the mutexes of lugu/qiloop yield or sleep at lock boundaries with a per-shard probability (build overlay replacing package sync by harness/vsync in build-time copies of the repository's files); this adds no interleaving the program cannot have and leaves mutual exclusion and happens-before unchanged",
}

var _ = time.Second
