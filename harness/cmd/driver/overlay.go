package main

import (
	"encoding/json"
	"io/ioutil"
	"os"
	"path/filepath"
	"regexp"
	"strings"
)

// Lock-boundary perturbation without touching lugu/qiloop's source: the workers of the concurrency
// engines are built with `go build -overlay`, in which every non-test Go file of the repository's
// CURRENT working tree that imports package sync is replaced by a copy whose import line reads
// `sync "verif/vsync"` (same line, same line numbers: stack traces and race reports still point at
// the real source). verif/vsync (harness/vsync) is package sync with Mutex and RWMutex wrapped: with
// the per-thousand probability given by VERIF_PERTURB they yield or sleep before a lock is taken and
// after it is released. Because the copies are made at check time from whatever the tree contains, a
// mutex added or a critical section split by a change to the repository is perturbed as well.

var reSyncImport = regexp.MustCompile(`(?m)^(\s*)(import\s+)?"sync"\s*$`)

// repoDir returns the directory the harness module's replace directive points at.
func repoDir(harness string) string {
	b, err := ioutil.ReadFile(harness + "/go.mod")
	if err != nil {
		return "/repo"
	}
	m := regexp.MustCompile(`(?m)^replace\s+github.com/lugu/qiloop\s+=>\s+(\S+)`).FindSubmatch(b)
	if m == nil {
		return "/repo"
	}
	return string(m[1])
}

// makeOverlay writes the rewritten copies and the overlay description; it returns the path of the
// latter and the number of files rewritten.
func makeOverlay(root, harness string) (string, int, error) {
	repo := repoDir(harness)
	odir := root + "/build/overlay"
	os.RemoveAll(odir)
	if err := os.MkdirAll(odir, 0755); err != nil {
		return "", 0, err
	}
	replace := map[string]string{}
	err := filepath.Walk(repo, func(p string, fi os.FileInfo, err error) error {
		if err != nil {
			return nil
		}
		if fi.IsDir() {
			n := fi.Name()
			if p != repo && (strings.HasPrefix(n, ".") || n == "testdata" || n == "vendor") {
				return filepath.SkipDir
			}
			return nil
		}
		if !strings.HasSuffix(p, ".go") || strings.HasSuffix(p, "_test.go") {
			return nil
		}
		src, err := ioutil.ReadFile(p)
		if err != nil {
			return nil
		}
		// only the import section: stop at the first declaration
		head := src
		if k := regexp.MustCompile(`(?m)^(func|type|var|const)\s`).FindIndex(src); k != nil {
			head = src[:k[0]]
		}
		loc := reSyncImport.FindSubmatchIndex(head)
		if loc == nil {
			return nil
		}
		m := reSyncImport.FindSubmatch(head)
		repl := string(m[1]) + string(m[2]) + `sync "verif/vsync"`
		out := string(src[:loc[0]]) + repl + string(src[loc[1]:])
		rel, _ := filepath.Rel(repo, p)
		dst := filepath.Join(odir, rel)
		os.MkdirAll(filepath.Dir(dst), 0755)
		if err := ioutil.WriteFile(dst, []byte(out), 0644); err != nil {
			return err
		}
		replace[p] = dst
		return nil
	})
	if err != nil {
		return "", 0, err
	}
	js, _ := json.MarshalIndent(map[string]interface{}{"Replace": replace}, "", " ")
	opath := odir + "/overlay.json"
	if err := ioutil.WriteFile(opath, js, 0644); err != nil {
		return "", 0, err
	}
	return opath, len(replace), nil
}
