package main

import (
	"fmt"
	"math/rand"
	"os"
	"runtime"
	"strings"
	"sync"
	"sync/atomic"
	"time"

	"github.com/lugu/qiloop/bus"
	qnet "github.com/lugu/qiloop/bus/net"

	"verif/gen/probe"
	rc "verif/refcodec"
	"verif/stuck"
	"verif/wk"
)

func init() { engines["C13"] = c13 }

const otherBase = uint64(1) << 40 // values of the "other" signal live in a disjoint range

type c13sub struct {
	n        int
	kind     string
	ack      int64 // clock after the subscription was acknowledged
	cancelAt int64 // clock before cancel was requested (0 = not yet)
	cancel   func()
	mu       sync.Mutex
	got      []uint64
	closed   int32
}

func (s *c13sub) add(v uint64) {
	s.mu.Lock()
	s.got = append(s.got, v)
	s.mu.Unlock()
}

func (s *c13sub) has(v uint64) bool {
	s.mu.Lock()
	defer s.mu.Unlock()
	for _, x := range s.got {
		if x == v {
			return true
		}
	}
	return false
}

type emission struct {
	k      uint64
	es, ee int64
}

func c13(c *wk.Ctx) {
	c.Note("rule", "each plan: a Probe object with signals tick and other; one emitter calls the generated helper with n = 0,1,2,... (each emission bracketed by logical-clock stamps) and interleaves emissions of the other signal; subscribers use the generated SubscribeTick on the same proxy, on other proxies of the same session, on other sessions, plus a raw connection doing registerEvent / unregisterEvent itself; a PRNG sequence of subscribe / cancel / emit-burst steps includes the tight schedules (two goroutines subscribing on one proxy at once with an emission right after the first returns; cancel of the last subscriber racing a new subscribe; one or two clients on fresh connections subscribing while a burst of emissions is in flight). Flow control keeps unconsumed emissions far below the 100-slot client queue. Oracle per subscriber: strictly increasing tick values only, every k emitted entirely between its acknowledgement and its cancel request is received ('missing' decided by the quiescence detector), channel closed after cancel; raw connection: no event for a registration after the unregister reply (barrier call). Stream faulty-link (shared with C14): 2-5 subscribers of the signal tick (and of the property) on own connections to a stand-alone server behind a harness listener; the link towards one of them refuses writes, or stalls in the middle of a fan-out while a later subscriber cancels: every other subscriber receives every emission once, in order. Stream bulk: 150-550 events of 5-60 KiB reach a subscriber while, on the same connection, another signal is subscribed to and cancelled over and over and a method is called (acknowledgements and replies are written between the events): every event arrives once, in order, with its payload, and the channel stays open until the cancel. Distinct non-trivial = distinct plans with at least two subscribers that each had to receive at least one emission.")
	var w *world
	defer func() {
		if w != nil {
			w.close()
		}
	}()
	n := 0
	c.Cases("plan", c.Pick(1800, 100000), func(i int, rng *rand.Rand) {
		if w == nil || n%50 == 0 {
			if w != nil {
				w.close()
			}
			var err error
			w, err = newWorld("unix", nil)
			if err != nil {
				c.Inconclusive("plan", i, "world: "+err.Error())
				w = nil
				return
			}
		}
		n++
		c13one(c, i, rng, w, fmt.Sprintf("S%d", n))
	})
	// the sequential faulty-link stream of C14 also covers the signal tick (see c14faulty)
	c.Cases("faulty-link", c.Pick(120, 6000), func(i int, rng *rand.Rand) { c14faulty(c, i, rng) })
	c.Cases("bulk", c.Pick(24, 600), func(i int, rng *rand.Rand) { c13bulk(c, i, rng) })
}

func c13one(c *wk.Ctx, i int, rng *rand.Rand, w *world, name string) {
	ps, err := w.addProbe(name, 1, nil)
	if err != nil {
		c.Inconclusive("plan", i, "addProbe: "+err.Error())
		return
	}
	defer ps.service.Terminate()
	impl := ps.objs[0].impl
	nSess := 1 + rng.Intn(3)
	sessions := make([]bus.Session, nSess)
	proxies := make([][]probe.ProbeProxy, nSess)
	for k := range sessions {
		s, err := w.session()
		if err != nil {
			c.Inconclusive("plan", i, "session: "+err.Error())
			return
		}
		defer s.Terminate()
		sessions[k] = s
		for j := 0; j < 2; j++ {
			p, err := proxyFor(s, ps, ps.objs[0])
			if err != nil {
				c.Inconclusive("plan", i, "proxy: "+err.Error())
				return
			}
			proxies[k] = append(proxies[k], p)
		}
	}
	var progress, siblingRaces, joinedDuringEmissions int64
	var mu sync.Mutex
	var subs []*c13sub
	var emissions []emission
	var next uint64
	var viols [][2]string
	viol := func(key, what string) {
		mu.Lock()
		viols = append(viols, [2]string{key, what})
		mu.Unlock()
	}

	trace := func(f string, a ...interface{}) {
		if c.Verbose {
			fmt.Fprintf(os.Stderr, "TRACE %d "+f+"\n", append([]interface{}{atomic.LoadInt64(&clock)}, a...)...)
		}
	}
	emit := func() {
		mu.Lock()
		k := next
		next++
		mu.Unlock()
		trace("emit %d", k)
		es := now()
		if err := impl.Helper.SignalTick(k); err != nil {
			// a subscriber's connection may be closing; not an error of the emitter
			_ = err
		}
		ee := now()
		mu.Lock()
		emissions = append(emissions, emission{k, es, ee})
		mu.Unlock()
		atomic.AddInt64(&progress, 1)
	}
	emitOther := func(r *rand.Rand) { impl.Helper.SignalOther(otherBase + uint64(r.Intn(1000))) }

	subscribe := func(p probe.ProbeProxy, kind string) *c13sub {
		cancel, ch, err := p.SubscribeTick()
		if err != nil {
			viol("subscribe=error", "SubscribeTick failed: "+err.Error())
			return nil
		}
		s := &c13sub{kind: kind, cancel: cancel}
		s.ack = now()
		trace("subscribed %s ack=%d", kind, s.ack)
		go func() {
			for v := range ch {
				s.add(v)
				atomic.AddInt64(&progress, 1)
			}
			atomic.StoreInt32(&s.closed, 1)
		}()
		mu.Lock()
		s.n = len(subs)
		subs = append(subs, s)
		mu.Unlock()
		return s
	}
	// catchUp waits until every subscriber has what it must have (flow control + missing detection)
	expected := func(s *c13sub) []uint64 {
		mu.Lock()
		defer mu.Unlock()
		var out []uint64
		ca := atomic.LoadInt64(&s.cancelAt)
		for _, e := range emissions {
			if e.es > s.ack && (ca == 0 || e.ee < ca) {
				out = append(out, e.k)
			}
		}
		return out
	}
	catchUp := func() bool {
		mu.Lock()
		all := append([]*c13sub{}, subs...)
		mu.Unlock()
		ok := func() bool {
			for _, s := range all {
				for _, k := range expected(s) {
					if !s.has(k) {
						return false
					}
				}
			}
			return true
		}
		v, _ := stuck.WaitFunc(ok, &progress, 3*time.Minute)
		if v == stuck.Stuck {
			for _, s := range all {
				for _, k := range expected(s) {
					if !s.has(k) {
						viol("event=missed/subscriber="+s.kind, fmt.Sprintf("subscriber #%d (%s, acknowledged at %d) never received emission %d although it was emitted entirely while it was subscribed", s.n, s.kind, s.ack, k))
						return false
					}
				}
			}
		}
		return v == stuck.Returned
	}

	// subscribers of the other signal on the same connections: they must only see values of that signal
	var otherSubs []*c13sub
	subscribeOther := func(p probe.ProbeProxy) {
		cancel, ch, err := p.SubscribeOther()
		if err != nil {
			viol("subscribe=error", "SubscribeOther failed: "+err.Error())
			return
		}
		s := &c13sub{kind: "other-signal", cancel: cancel}
		go func() {
			for v := range ch {
				s.add(v)
			}
			atomic.StoreInt32(&s.closed, 1)
		}()
		mu.Lock()
		otherSubs = append(otherSubs, s)
		mu.Unlock()
	}

	// cancelSub requests the cancellation only once the subscriber holds every emission made so far:
	// an event still in flight when the cancel is requested may legitimately be discarded (events
	// concurrent with a cancel are not demanded), so the harness never creates that situation.
	cancelSub := func(s *c13sub) {
		if s == nil || atomic.LoadInt64(&s.cancelAt) != 0 {
			return
		}
		if !catchUp() {
			return
		}
		if !atomic.CompareAndSwapInt64(&s.cancelAt, 0, now()) {
			return
		}
		trace("cancel #%d %s", s.n, s.kind)
		s.cancel()
		trace("cancelled #%d", s.n)
	}

	// raw subscriber
	var rawEvents []uint64
	var rawViol string
	rawRun := func(r *rand.Rand, rounds int) {
		rcn, err := dialRaw(w.addr)
		if err != nil {
			return
		}
		defer rcn.close()
		if ok, _ := rcn.authenticate("", ""); !ok {
			return
		}
		meta := proxies[0][0].Proxy().MetaObject()
		tickID, err := meta.SignalID("tick", "(L)")
		if err != nil {
			rawViol = "signal id: " + err.Error()
			return
		}
		workID, _, _ := meta.MethodID("work", "(Ls)")
		for round := 0; round < rounds; round++ {
			handler := uint64(r.Int63())
			args := rc.Encode(rc.TupleOf(rc.T(rc.Uint32), rc.T(rc.Uint32), rc.T(rc.Uint64)), rc.Tup{uint32(1), tickID, handler})
			var others []rawFrame
			f, err := rcn.call(ps.id, 1, 0, args, &others)
			if err != nil || f.H.Type != qnet.Reply {
				return
			}
			regID := f.H.ID
			// let some events flow
			time.Sleep(time.Duration(r.Intn(2000)) * time.Microsecond)
			f, err = rcn.call(ps.id, 1, 1, args, &others)
			if err != nil {
				return
			}
			unregOK := f.H.Type == qnet.Reply
			var after []rawFrame
			// barrier: any event for the registration arriving after the unregister reply is a violation
			time.Sleep(time.Duration(r.Intn(500)) * time.Microsecond)
			if _, err := rcn.call(ps.id, 1, workID, workArgs(uint64(9000+round), "b"), &after); err != nil {
				return
			}
			last := int64(-1)
			for _, of := range others {
				if of.H.Type == qnet.Event && of.H.ID == regID {
					v, _, err := rc.Decode(rc.T(rc.Uint64), of.P)
					if err != nil {
						rawViol = "raw event payload is not a tick value"
						return
					}
					k := int64(v.(uint64))
					if k <= last {
						rawViol = fmt.Sprintf("raw subscriber received %d after %d (duplicate or reordering)", k, last)
					}
					last = k
					rawEvents = append(rawEvents, uint64(k))
				}
			}
			if unregOK {
				for _, of := range after {
					if of.H.Type == qnet.Event && of.H.ID == regID {
						rawViol = "an event for a registration was sent after the server acknowledged its removal"
					}
				}
			}
		}
	}

	// the plan
	var rawWg sync.WaitGroup
	if rng.Intn(2) == 0 {
		rawWg.Add(1)
		r := rand.New(rand.NewSource(rng.Int63()))
		go func() { defer rawWg.Done(); rawRun(r, 1+r.Intn(3)) }()
	}
	pickProxy := func(r *rand.Rand) (probe.ProbeProxy, string) {
		s := r.Intn(nSess)
		j := r.Intn(2)
		kind := "other-session"
		if s == 0 && j == 0 {
			kind = "same-proxy"
		} else if s == 0 {
			kind = "same-session-other-proxy"
		}
		return proxies[s][j], kind
	}
	// pickPair: the proxy one goroutine uses and the one the goroutine racing with it uses: the same
	// proxy, or (one time in two) the other proxy of the same object in the same session, which
	// shares the connection and the client-side registration
	pickPair := func(r *rand.Rand) (probe.ProbeProxy, probe.ProbeProxy) {
		s := r.Intn(nSess)
		j := r.Intn(2)
		if r.Intn(2) == 0 {
			atomic.AddInt64(&siblingRaces, 1)
			return proxies[s][j], proxies[s][1-j]
		}
		return proxies[s][j], proxies[s][j]
	}
	for k := range sessions {
		if rng.Intn(2) == 0 {
			subscribeOther(proxies[k][rng.Intn(2)])
		}
	}
	steps := 6 + rng.Intn(14)
	okPlan := true
	noTight := os.Getenv("C13_NOTIGHT") != ""
	for st := 0; st < steps && okPlan; st++ {
		x := rng.Intn(13)
		if noTight && (x == 3 || x == 4) {
			x = 0
		}
		switch {
		case x < 3:
			p, kind := pickProxy(rng)
			subscribe(p, kind)
		case x < 4:
			// two goroutines subscribe on one proxy at once; emit right after the first returns
			pa, pb := pickPair(rng)
			first := make(chan struct{}, 2)
			var wg sync.WaitGroup
			for g := 0; g < 2; g++ {
				wg.Add(1)
				p := pa
				if g == 1 {
					p = pb
				}
				go func() {
					defer wg.Done()
					subscribe(p, "concurrent-subscribe-same-signal")
					first <- struct{}{}
				}()
			}
			<-first
			emit()
			wg.Wait()
			emit()
		case x < 5:
			// cancel of the last subscriber of a proxy racing a new subscribe on it
			p, q := pickPair(rng)
			s1 := subscribe(p, "before-cancel-race")
			emit()
			var wg sync.WaitGroup
			wg.Add(2)
			go func() { defer wg.Done(); cancelSub(s1) }()
			go func() { defer wg.Done(); subscribe(q, "cancel-racing-subscribe") }()
			wg.Wait()
			emit()
			emit()
		case x < 9:
			for k := 1 + rng.Intn(8); k > 0; k-- {
				emit()
				if rng.Intn(4) == 0 {
					emitOther(rng)
				}
			}
			okPlan = catchUp()
		case x == 12:
			// one or two clients on fresh connections (hence registrations of their own at the object) subscribe
			// WHILE a burst of emissions is in flight; whatever is emitted after a subscription was acknowledged
			// must reach that subscriber (the emissions overlapping the subscription are not demanded)
			var joiners []probe.ProbeProxy
			for k := 1 + rng.Intn(2); k > 0; k-- {
				js, err := w.session()
				if err != nil {
					break
				}
				defer js.Terminate()
				jp, err := proxyFor(js, ps, ps.objs[0])
				if err != nil {
					break
				}
				joiners = append(joiners, jp)
			}
			var wg sync.WaitGroup
			burst := 3 + rng.Intn(5)
			wg.Add(1)
			go func() {
				defer wg.Done()
				for k := 0; k < burst; k++ {
					emit()
				}
			}()
			for _, jp := range joiners {
				jp := jp
				yields := rng.Intn(60)
				wg.Add(1)
				go func() {
					defer wg.Done()
					for y := 0; y < yields; y++ {
						runtime.Gosched()
					}
					subscribe(jp, "joining-during-emissions")
				}()
			}
			wg.Wait()
			atomic.AddInt64(&joinedDuringEmissions, int64(len(joiners)))
			emit()
			emit()
			okPlan = catchUp()
		default:
			mu.Lock()
			var live []*c13sub
			for _, s := range subs {
				if atomic.LoadInt64(&s.cancelAt) == 0 {
					live = append(live, s)
				}
			}
			mu.Unlock()
			if len(live) > 0 {
				cancelSub(live[rng.Intn(len(live))])
			}
		}
	}
	if okPlan {
		emit()
		okPlan = catchUp()
	}
	rawWg.Wait()
	// cancel everything: channels must close
	mu.Lock()
	all := append([]*c13sub{}, subs...)
	mu.Unlock()
	for _, s := range all {
		cancelSub(s)
	}
	v, _ := stuck.WaitFunc(func() bool {
		for _, s := range all {
			if atomic.LoadInt32(&s.closed) == 0 {
				return false
			}
		}
		return true
	}, &progress, 3*time.Minute)
	if v == stuck.Stuck {
		viol("cancel=channel-not-closed", "a subscriber's channel was not closed after it cancelled")
	} else if v == stuck.Watchdog {
		c.Inconclusive("plan", i, "watchdog")
	}
	mustReceive := 0
	for _, s := range all {
		s.mu.Lock()
		last := int64(-1)
		for _, vv := range s.got {
			if vv >= otherBase {
				viol("event=wrong-signal/subscriber="+s.kind, fmt.Sprintf("subscriber #%d (%s) of tick received a value of the other signal", s.n, s.kind))
				break
			}
			if int64(vv) <= last {
				what := "out of order"
				if int64(vv) == last {
					what = "twice"
				}
				viol("event=duplicate-or-reordered/subscriber="+s.kind, fmt.Sprintf("subscriber #%d (%s) received emission %d %s (after %d)", s.n, s.kind, vv, what, last))
				break
			}
			last = int64(vv)
		}
		s.mu.Unlock()
		if len(expected(s)) > 0 {
			mustReceive++
		}
	}
	for _, s := range otherSubs {
		s.cancel()
		s.mu.Lock()
		for _, vv := range s.got {
			if vv < otherBase {
				viol("event=wrong-signal/subscriber=other-signal", fmt.Sprintf("a subscriber of the other signal received tick emission %d", vv))
				break
			}
		}
		s.mu.Unlock()
	}
	if rawViol != "" {
		key := "raw=other"
		switch {
		case strings.HasPrefix(rawViol, "an event for a registration was sent after"):
			key = "raw=event-after-unregister-ack/emission=concurrent-with-unregister"
		case strings.Contains(rawViol, "duplicate or reordering"):
			key = "raw=duplicate-or-reordered"
		case strings.Contains(rawViol, "not a tick value"):
			key = "raw=wrong-payload"
		}
		viol(key, rawViol)
	}
	seen := map[string]bool{}
	for _, x := range viols {
		if seen[x[0]] {
			continue
		}
		seen[x[0]] = true
		c.Viol("plan", i, x[0], x[1], map[string]interface{}{"service": name, "sessions": nSess, "subscribers": len(all), "emissions": next, "steps": steps})
	}
	c.Count("races_between_two_proxies_of_one_object_in_one_session", atomic.LoadInt64(&siblingRaces))
	c.Count("subscribers_joining_on_fresh_connections_during_a_burst_of_emissions", atomic.LoadInt64(&joinedDuringEmissions))
	c.Count("emissions", int64(next))
	c.Count("subscribers", int64(len(all)))
	c.Count("raw_events", int64(len(rawEvents)))
	c.Count("subscribers_with_mandatory_events", int64(mustReceive))
	if mustReceive >= 2 {
		c.Nontrivial(wk.Hash64("C13", i))
	}
	if c.WantSample() && i%20 == 0 {
		c.Sample(map[string]interface{}{"plan": i, "sessions": nSess, "subscribers": len(all), "emissions": next, "steps": steps, "subscribers_with_mandatory_events": mustReceive, "raw_events": len(rawEvents)})
	}
}

func minI(a, b int) int {
	if a < b {
		return a
	}
	return b
}
