package main

import (
	"fmt"
	"math/rand"
	"reflect"
	"strings"
	"sync"
	"sync/atomic"
	"time"

	"github.com/lugu/qiloop/bus"

	"verif/gen/probe"
	"verif/stuck"
	"verif/wk"
)

// c14wide: registers whose values are not four bytes wide. The freshly generated properties
// label (str) and spot (a structure with a string, a list and a map) of a Probe object are written
// concurrently by 2-3 clients (SetLabel / SetSpot) and 1-3 goroutines of the service itself
// (UpdateLabel / UpdateSpot); the values are unique, their content is a function of their number, and
// their encoded size is 10 B - 40 KiB (beyond one buffer, one TLS record, one pipe write). Readers on
// their own connections stay subscribed, a getter reads all along.
// Oracle: a valid write is accepted, a write the validator refuses reports an error; a read returns
// the initial value or a value some write carried, intact; the final read returns the last accepted
// value of one of the writers; every subscriber receives exactly the accepted values, each once and
// intact, and nothing for refused writes (missing events are decided by the quiescence detector).
func c14wide(c *wk.Ctx, i int, rng *rand.Rand) {
	transport := "unix"
	if i%3 == 1 {
		transport = "tcp"
	}
	w, err := newWorld(transport, nil)
	if err != nil {
		c.Inconclusive("wide", i, "world: "+err.Error())
		return
	}
	defer w.close()
	ps, err := w.addProbe("W", 1, nil)
	if err != nil {
		c.Inconclusive("wide", i, "addProbe: "+err.Error())
		return
	}
	impl := ps.objs[0].impl
	useSpot := i%3 == 2
	sizeClass := []string{"large", "mixed", "medium", "small"}[rng.Intn(4)]
	padFor := func(n int, r *rand.Rand) int {
		switch sizeClass {
		case "small":
			return r.Intn(100)
		case "medium":
			return 1000 + r.Intn(4000)
		case "large":
			return 5000 + r.Intn(35000)
		}
		return []int{0, 50, 3000, 4090, 4200, 9000, 20000, 40000}[r.Intn(8)]
	}
	// content of value number n with pad bytes of padding: a function of (n, pad) only
	content := func(n, pad int, bad bool) string {
		var sb strings.Builder
		if bad {
			sb.WriteString("bad")
		}
		fmt.Fprintf(&sb, "v%07d:%06d|", n, pad)
		x := uint32(n)*2654435761 + 12345
		for sb.Len() < pad+18 {
			x = x*1664525 + 1013904223
			sb.WriteByte("abcdefghijklmnopqrstuvwxyz0123456789-_"[x>>24%38])
		}
		return sb.String()
	}
	item := func(s string, n int) probe.Item {
		return probe.Item{Id: uint64(n), Name: s, Tags: []string{"t", s[:8]}, Attrs: map[string]int32{"n": int32(n), s[:6]: 1}}
	}
	// parse recovers (n, pad, bad) from a received content and checks its integrity
	parse := func(s string) (n int, ok bool) {
		t := strings.TrimPrefix(s, "bad")
		var pad int
		if _, err := fmt.Sscanf(t, "v%07d:%06d|", &n, &pad); err != nil {
			return 0, false
		}
		return n, content(n, pad, t != s) == s
	}
	detail := map[string]interface{}{"transport": transport, "sizes": sizeClass, "property": map[bool]string{false: "label (str)", true: "spot (structure)"}[useSpot]}
	var progress int64
	newProxy := func() (probe.ProbeProxy, bus.Session, error) {
		s, err := w.session()
		if err != nil {
			return nil, nil, err
		}
		p, err := proxyFor(s, ps, ps.objs[0])
		if err != nil {
			s.Terminate()
			return nil, nil, err
		}
		return p, s, nil
	}
	// subscribers, each on its own connection
	type reader struct {
		mu     sync.Mutex
		got    []string
		broken string
		closed int32
	}
	nReaders := 1 + rng.Intn(2)
	readers := make([]*reader, nReaders)
	for k := range readers {
		p, s, err := newProxy()
		if err != nil {
			c.Inconclusive("wide", i, "proxy: "+err.Error())
			return
		}
		defer s.Terminate()
		rd := &reader{}
		readers[k] = rd
		push := func(s string, whole bool) {
			rd.mu.Lock()
			if !whole && rd.broken == "" {
				rd.broken = "a structure event whose fields disagree: " + clipS(s)
			}
			rd.got = append(rd.got, s)
			rd.mu.Unlock()
			atomic.AddInt64(&progress, 1)
		}
		if useSpot {
			_, ch, err := p.SubscribeSpot()
			if err != nil {
				c.Inconclusive("wide", i, "subscribe: "+err.Error())
				return
			}
			go func() {
				for v := range ch {
					n, _ := parse(v.Name)
					push(v.Name, len(v.Name) >= 8 && reflect.DeepEqual(v, item(v.Name, n)))
				}
				atomic.StoreInt32(&rd.closed, 1)
			}()
		} else {
			_, ch, err := p.SubscribeLabel()
			if err != nil {
				c.Inconclusive("wide", i, "subscribe: "+err.Error())
				return
			}
			go func() {
				for v := range ch {
					push(v, true)
				}
				atomic.StoreInt32(&rd.closed, 1)
			}()
		}
	}
	var mu sync.Mutex
	accepted := map[int]bool{}
	issued := map[int]bool{}
	lastOf := map[int]int{} // writer -> number of its last accepted value
	var viol []string
	report := func(key, what string) {
		mu.Lock()
		viol = append(viol, key+"\x00"+what)
		mu.Unlock()
	}
	var seq int32
	write := func(writer int, r *rand.Rand, do func(s string, n int) error) {
		n := int(atomic.AddInt32(&seq, 1))
		bad := r.Intn(6) == 0
		s := content(n, padFor(n, r), bad)
		mu.Lock()
		issued[n] = true
		mu.Unlock()
		err := do(s, n)
		atomic.AddInt64(&progress, 1)
		mu.Lock()
		defer mu.Unlock()
		switch {
		case bad && err == nil:
			viol = append(viol, "write=invalid-accepted/wide\x00"+fmt.Sprintf("a write the validator refuses (value %d) was reported as accepted", n))
		case !bad && err != nil:
			viol = append(viol, "write=valid-refused/wide\x00"+fmt.Sprintf("a valid write (value %d, %d bytes) was refused: %v", n, len(s), err))
		case !bad:
			accepted[n] = true
			lastOf[writer] = n
		}
	}
	nClients := 2 + rng.Intn(2)
	nService := 1 + rng.Intn(3)
	per := 4 + rng.Intn(7)
	start := make(chan struct{})
	var wg sync.WaitGroup
	for k := 0; k < nClients; k++ {
		p, s, err := newProxy()
		if err != nil {
			c.Inconclusive("wide", i, "proxy: "+err.Error())
			return
		}
		defer s.Terminate()
		r := rand.New(rand.NewSource(rng.Int63()))
		wg.Add(1)
		go func(k int) {
			defer wg.Done()
			<-start
			for j := 0; j < per; j++ {
				write(k, r, func(s string, n int) error {
					if useSpot {
						return p.SetSpot(item(s, n))
					}
					return p.SetLabel(s)
				})
			}
		}(k)
	}
	for k := 0; k < nService; k++ {
		r := rand.New(rand.NewSource(rng.Int63()))
		wg.Add(1)
		go func(k int) {
			defer wg.Done()
			<-start
			for j := 0; j < per; j++ {
				write(100+k, r, func(s string, n int) error {
					if useSpot {
						return impl.Helper.UpdateSpot(item(s, n))
					}
					return impl.Helper.UpdateLabel(s)
				})
			}
		}(k)
	}
	// a getter reads all along
	gp, gs, err := newProxy()
	if err != nil {
		c.Inconclusive("wide", i, "proxy: "+err.Error())
		return
	}
	defer gs.Terminate()
	get := func() (string, bool, error) {
		if useSpot {
			v, err := gp.GetSpot()
			if err != nil || v.Name == "" {
				return v.Name, true, err
			}
			n, _ := parse(v.Name)
			return v.Name, len(v.Name) >= 8 && reflect.DeepEqual(v, item(v.Name, n)), nil
		}
		v, err := gp.GetLabel()
		return v, true, err
	}
	checkRead := func(when string) (int, bool) {
		s, whole, err := get()
		atomic.AddInt64(&progress, 1)
		if err != nil {
			report("read=error/wide", fmt.Sprintf("reading the property %s failed: %v", when, err))
			return 0, false
		}
		if s == "" {
			return 0, true
		}
		n, ok := parse(s)
		mu.Lock()
		was := issued[n]
		mu.Unlock()
		if !ok || !whole || !was || strings.HasPrefix(s, "bad") {
			report("read=never-written/wide", fmt.Sprintf("a read %s returned a value no accepted write carried (intact=%v, issued=%v): %s", when, ok && whole, was, clipS(s)))
			return 0, false
		}
		return n, true
	}
	stopGet := make(chan struct{})
	var gwg sync.WaitGroup
	gwg.Add(1)
	reads := 0
	go func() {
		defer gwg.Done()
		<-start
		for {
			select {
			case <-stopGet:
				return
			default:
			}
			if _, ok := checkRead("during the writes"); !ok {
				return
			}
			reads++
			if reads >= 300 { // bounded: a spinning reader would keep the quiescence detector from deciding
				return
			}
		}
	}()
	done := make(chan struct{})
	go func() { wg.Wait(); close(done) }()
	close(start)
	v, dump := stuck.Wait(done, &progress, 4*time.Minute)
	close(stopGet)
	if v == stuck.Stuck {
		detail["dump"] = clipDump(dump)
		c.Viol("wide", i, "write=never-returned/wide/"+wk.PanicSite(dump), "a property write never returned", detail)
		c.Abandon("writes blocked")
		return
	} else if v == stuck.Watchdog {
		c.Inconclusive("wide", i, "watchdog")
		return
	}
	gdone := make(chan struct{})
	go func() { gwg.Wait(); close(gdone) }()
	if v, _ := stuck.Wait(gdone, &progress, 4*time.Minute); v != stuck.Returned {
		if v == stuck.Stuck {
			c.Viol("wide", i, "read=never-returned/wide", "a property read never returned", detail)
			c.Abandon("read blocked")
		} else {
			c.Inconclusive("wide", i, "watchdog")
		}
		return
	}
	flush := func() bool {
		mu.Lock()
		defer mu.Unlock()
		if len(viol) == 0 {
			return false
		}
		kv := strings.SplitN(viol[0], "\x00", 2)
		c.Viol("wide", i, kv[0], kv[1], detail)
		return true
	}
	if flush() {
		return
	}
	// the register holds the last accepted value of one of the writers
	fin, ok := checkRead("after the writes")
	if flush() || !ok {
		return
	}
	if len(accepted) > 0 {
		isLast := false
		for _, n := range lastOf {
			if n == fin {
				isLast = true
			}
		}
		if !isLast {
			detail["final_read"], detail["last_accepted_per_writer"] = fin, fmt.Sprint(lastOf)
			c.Viol("wide", i, "read=not-most-recent/wide", fmt.Sprintf("after all writes returned the property holds value %d, which is not the last accepted write of any writer", fin), detail)
			return
		}
	}
	// events
	want := len(accepted)
	for k, rd := range readers {
		rd := rd
		v, dump := stuck.WaitFunc(func() bool {
			rd.mu.Lock()
			defer rd.mu.Unlock()
			return len(rd.got) >= want
		}, &progress, 4*time.Minute)
		if v == stuck.Watchdog {
			c.Inconclusive("wide", i, "watchdog")
			return
		}
		rd.mu.Lock()
		got := append([]string{}, rd.got...)
		broken := rd.broken
		rd.mu.Unlock()
		detail["subscriber"], detail["events_received"], detail["accepted_writes"] = k, len(got), want
		if broken != "" {
			c.Viol("wide", i, "event=corrupted/wide", "subscriber received "+broken, detail)
			return
		}
		seen := map[int]bool{}
		for _, s := range got {
			n, ok := parse(s)
			switch {
			case !ok:
				c.Viol("wide", i, "event=corrupted/wide", "a change event carries a value no write carried: "+clipS(s), detail)
				return
			case !accepted[n]:
				c.Viol("wide", i, "event=for-rejected-or-unknown-write/wide", fmt.Sprintf("a change event carries value %d, which was not an accepted write", n), detail)
				return
			case seen[n]:
				c.Viol("wide", i, "event=duplicate/wide", fmt.Sprintf("the change event of value %d arrived twice", n), detail)
				return
			}
			seen[n] = true
		}
		if v == stuck.Stuck || len(got) < want {
			detail["dump"] = clipDump(dump)
			detail["subscription_channel_closed"] = atomic.LoadInt32(&rd.closed) == 1
			c.Viol("wide", i, "event=missing/wide", fmt.Sprintf("subscriber %d received %d change events for %d accepted writes", k, len(got), want), detail)
			return
		}
	}
	delete(detail, "subscriber")
	c.Count("wide_register_accepted_writes", int64(want))
	c.Count("wide_register_reads_during_writes", int64(reads))
	c.Eval(want)
	if want >= 2 {
		c.Nontrivial(wk.Hash64("C14wide", i))
	}
	if c.WantSample() && i%8 == 0 {
		c.Sample(map[string]interface{}{"stream": "wide", "plan": detail, "client_writers": nClients, "service_writers": nService, "writes_each": per, "accepted": want})
	}
}
