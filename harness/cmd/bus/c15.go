package main

import (
	"fmt"
	"math/rand"
	"runtime"
	"sort"
	"strings"
	"sync"
	"sync/atomic"
	"time"

	"github.com/anishathalye/porcupine"
	"github.com/lugu/qiloop/bus"
	qnet "github.com/lugu/qiloop/bus/net"
	"github.com/lugu/qiloop/bus/services"

	"verif/gen/probe"
	rc "verif/refcodec"
	"verif/stuck"
	"verif/svc"
	"verif/wk"
)

func init() { engines["C15"] = c15 }

// ---- sequential model of the registry ----

type dirEntry struct {
	id   uint32
	name string
	tag  string // first endpoint: identifies the version of the info
}

type dirState struct {
	staging []dirEntry // sorted by id
	ready   []dirEntry
	lastID  uint32
}

func (s dirState) clone() dirState {
	return dirState{append([]dirEntry{}, s.staging...), append([]dirEntry{}, s.ready...), s.lastID}
}

func (s dirState) String() string {
	return fmt.Sprintf("last=%d staging=%v ready=%v", s.lastID, s.staging, s.ready)
}

func find(l []dirEntry, id uint32) int {
	for k, e := range l {
		if e.id == id {
			return k
		}
	}
	return -1
}

func findName(l []dirEntry, name string) int {
	for k, e := range l {
		if e.name == name {
			return k
		}
	}
	return -1
}

type dirIn struct {
	Op    string // register ready unregister update service services localterminate
	Name  string
	ID    uint32
	Tag   string
	Valid bool // register/update: the info passes the documented validity checks
}

type dirOut struct {
	Err  bool
	ID   uint32
	Tag  string
	List []uint32 // services(): ids (sorted)
	Msg  string
}

func dirStep(st dirState, in dirIn, out dirOut) (bool, dirState) {
	switch in.Op {
	case "register":
		taken := findName(st.staging, in.Name) >= 0 || findName(st.ready, in.Name) >= 0
		if !in.Valid || taken {
			return out.Err, st
		}
		if out.Err || out.ID <= st.lastID {
			return false, st
		}
		n := st.clone()
		n.lastID = out.ID
		n.staging = append(n.staging, dirEntry{out.ID, in.Name, in.Tag})
		return true, n
	case "ready":
		k := find(st.staging, in.ID)
		if k < 0 {
			return out.Err, st
		}
		if out.Err {
			return false, st
		}
		n := st.clone()
		e := n.staging[k]
		n.staging = append(n.staging[:k], n.staging[k+1:]...)
		n.ready = append(n.ready, e)
		sort.Slice(n.ready, func(a, b int) bool { return n.ready[a].id < n.ready[b].id })
		return true, n
	case "unregister":
		if k := find(st.ready, in.ID); k >= 0 {
			if out.Err {
				return false, st
			}
			n := st.clone()
			n.ready = append(n.ready[:k], n.ready[k+1:]...)
			return true, n
		}
		if k := find(st.staging, in.ID); k >= 0 {
			if out.Err {
				return false, st
			}
			n := st.clone()
			n.staging = append(n.staging[:k], n.staging[k+1:]...)
			return true, n
		}
		return out.Err, st
	case "localterminate": // Service.Terminate(): unregisters if registered, reports nothing
		n := st.clone()
		if k := find(n.ready, in.ID); k >= 0 {
			n.ready = append(n.ready[:k], n.ready[k+1:]...)
		} else if k := find(n.staging, in.ID); k >= 0 {
			n.staging = append(n.staging[:k], n.staging[k+1:]...)
		}
		return true, n
	case "update":
		k := find(st.ready, in.ID)
		if !in.Valid || k < 0 || st.ready[k].name != in.Name {
			return out.Err, st
		}
		if out.Err {
			return false, st
		}
		n := st.clone()
		n.ready[k].tag = in.Tag
		return true, n
	case "service":
		k := findName(st.ready, in.Name)
		if k < 0 {
			return out.Err, st
		}
		return !out.Err && out.ID == st.ready[k].id && out.Tag == st.ready[k].tag, st
	case "services":
		if out.Err || len(out.List) != len(st.ready) {
			return false, st
		}
		for k, e := range st.ready {
			if out.List[k] != e.id {
				return false, st
			}
		}
		return true, st
	}
	return false, st
}

func dirEqual(a, b dirState) bool {
	if a.lastID != b.lastID || len(a.staging) != len(b.staging) || len(a.ready) != len(b.ready) {
		return false
	}
	as, bs := a.clone(), b.clone()
	sort.Slice(as.staging, func(x, y int) bool { return as.staging[x].id < as.staging[y].id })
	sort.Slice(bs.staging, func(x, y int) bool { return bs.staging[x].id < bs.staging[y].id })
	for k := range as.staging {
		if as.staging[k] != bs.staging[k] {
			return false
		}
	}
	for k := range as.ready {
		if as.ready[k] != bs.ready[k] {
			return false
		}
	}
	return true
}

func describeDir(in dirIn, out dirOut) string {
	r := "ok"
	if out.Err {
		r = "error(" + out.Msg + ")"
	}
	switch in.Op {
	case "register":
		if !out.Err {
			r = fmt.Sprintf("id %d", out.ID)
		}
		return fmt.Sprintf("register(%s valid=%v) -> %s", in.Name, in.Valid, r)
	case "service":
		if !out.Err {
			r = fmt.Sprintf("id %d tag %s", out.ID, out.Tag)
		}
		return fmt.Sprintf("service(%s) -> %s", in.Name, r)
	case "services":
		if !out.Err {
			r = fmt.Sprint(out.List)
		}
		return "services() -> " + r
	case "update":
		return fmt.Sprintf("update(id %d name %s tag %s valid=%v) -> %s", in.ID, in.Name, in.Tag, in.Valid, r)
	}
	return fmt.Sprintf("%s(%d) -> %s", in.Op, in.ID, r)
}

// ---- driving the real directory ----

var tagSeq int64

func newTag() string { return fmt.Sprintf("tcp://tag-%d:1", atomic.AddInt64(&tagSeq, 1)) }

func short(err error) string {
	m := err.Error()
	if k := strings.LastIndex(m, ": "); k >= 0 && k+2 < len(m) {
		m = m[k+2:]
	}
	if len(m) > 60 {
		m = m[:60]
	}
	return m
}

func remoteOp(d services.ServiceDirectoryProxy, in dirIn) dirOut {
	switch in.Op {
	case "register":
		info := services.ServiceInfo{Name: in.Name, MachineId: "machine", ProcessId: 42, Endpoints: []string{in.Tag}}
		if !in.Valid {
			switch in.Tag[len(in.Tag)-1] % 4 {
			case 0:
				info.MachineId = ""
			case 1:
				info.ProcessId = 0
			case 2:
				info.Endpoints = nil
			default:
				info.Endpoints = []string{""}
			}
		}
		// the identifier field of a submitted info is the directory's to assign: half of the registrations
		// carry one that was issued earlier (a client resubmitting the info it once looked up), some a
		// value never issued; the directory must assign a fresh one whatever it says
		info.ServiceId = issuedIDs.wish(in.Tag)
		id, err := d.RegisterService(info)
		if err != nil {
			return dirOut{Err: true, Msg: short(err)}
		}
		issuedIDs.add(id)
		return dirOut{ID: id}
	case "ready":
		if err := d.ServiceReady(in.ID); err != nil {
			return dirOut{Err: true, Msg: short(err)}
		}
		return dirOut{}
	case "unregister":
		if err := d.UnregisterService(in.ID); err != nil {
			return dirOut{Err: true, Msg: short(err)}
		}
		return dirOut{}
	case "update":
		info := services.ServiceInfo{Name: in.Name, ServiceId: in.ID, MachineId: "machine", ProcessId: 42, Endpoints: []string{in.Tag}}
		if !in.Valid {
			info.MachineId = ""
		}
		if err := d.UpdateServiceInfo(info); err != nil {
			return dirOut{Err: true, Msg: short(err)}
		}
		return dirOut{}
	case "service":
		info, err := d.Service(in.Name)
		if err != nil {
			return dirOut{Err: true, Msg: short(err)}
		}
		tag := ""
		if len(info.Endpoints) > 0 {
			tag = info.Endpoints[0]
		}
		return dirOut{ID: info.ServiceId, Tag: tag}
	case "services":
		l, err := d.Services()
		if err != nil {
			return dirOut{Err: true, Msg: short(err)}
		}
		var ids []uint32
		for _, x := range l {
			ids = append(ids, x.ServiceId)
		}
		sort.Slice(ids, func(a, b int) bool { return ids[a] < ids[b] })
		return dirOut{List: ids}
	}
	panic("remoteOp: " + in.Op)
}

// issuedIDs remembers the identifiers the directories of this process have handed out (any directory:
// a foreign identifier is as good a wish as an own one).
var issuedIDs idList

type idList struct {
	mu  sync.Mutex
	ids []uint32
}

func (l *idList) add(id uint32) {
	l.mu.Lock()
	if len(l.ids) < 4096 {
		l.ids = append(l.ids, id)
	} else {
		l.ids[int(id)%len(l.ids)] = id
	}
	l.mu.Unlock()
}

func (l *idList) wish(tag string) uint32 {
	h := wk.Hash64("wish", tag)
	l.mu.Lock()
	defer l.mu.Unlock()
	switch h % 4 {
	case 0, 1:
		if len(l.ids) > 0 {
			return l.ids[int(h>>8)%len(l.ids)]
		}
	case 2:
		return uint32(h>>8)%64 + 1
	}
	return 0
}

// eventLog collects serviceAdded / serviceRemoved events by service id.
type eventLog struct {
	mu      sync.Mutex
	added   map[uint32]int
	removed map[uint32]int
	order   map[uint32]string // "a", "ar", "ra"...
	prog    *int64
}

// watchEvents observes serviceAdded / serviceRemoved on ONE raw connection, so that the order of
// the frames on the wire is the order in which the directory emitted them.
func watchEvents(d services.ServiceDirectoryProxy, prog *int64, addr string) (*eventLog, func(), error) {
	l := &eventLog{added: map[uint32]int{}, removed: map[uint32]int{}, order: map[uint32]string{}, prog: prog}
	meta := d.Proxy().MetaObject()
	addedID, err := meta.SignalID("serviceAdded", "(Is)")
	if err != nil {
		return nil, nil, err
	}
	removedID, err := meta.SignalID("serviceRemoved", "(Is)")
	if err != nil {
		return nil, nil, err
	}
	rcn, err := dialRaw(addr)
	if err != nil {
		return nil, nil, err
	}
	if ok, err := rcn.authenticate("", ""); !ok {
		rcn.close()
		return nil, nil, fmt.Errorf("raw authenticate: %v", err)
	}
	for k, sig := range []uint32{addedID, removedID} {
		args := rc.Encode(rc.TupleOf(rc.T(rc.Uint32), rc.T(rc.Uint32), rc.T(rc.Uint64)), rc.Tup{uint32(1), sig, uint64(0x77770000 + k)})
		f, err := rcn.call(1, 1, 0, args, nil)
		if err != nil || f.H.Type != qnet.Reply {
			rcn.close()
			return nil, nil, fmt.Errorf("registerEvent failed: %v", err)
		}
	}
	go func() {
		for {
			f, err := rcn.recv(0)
			if err != nil {
				return
			}
			if f.H.Type != qnet.Event {
				continue
			}
			v, _, err := rc.Decode(rc.TupleOf(rc.T(rc.Uint32), rc.T(rc.String)), f.P)
			if err != nil {
				continue
			}
			id := v.(rc.Tup)[0].(uint32)
			l.mu.Lock()
			if f.H.Action == addedID {
				l.added[id]++
				l.order[id] += "a"
			} else if f.H.Action == removedID {
				l.removed[id]++
				l.order[id] += "r"
			}
			l.mu.Unlock()
			atomic.AddInt64(prog, 1)
		}
	}()
	return l, func() { rcn.close() }, nil
}

// vanishOnce is a subscriber of serviceAdded / serviceRemoved that disappears without a word: a raw
// connection registers for both signals, tells the caller, yields a few times and closes its socket
// (no unregisterEvent). The directory then meets a dead subscriber while it announces a transition;
// what the healthy subscribers and the callers see must not depend on it.
func vanishOnce(addr string, d services.ServiceDirectoryProxy, yields int, subscribed chan<- struct{}) {
	tell := func() {
		if subscribed != nil {
			subscribed <- struct{}{}
		}
	}
	meta := d.Proxy().MetaObject()
	addedID, err1 := meta.SignalID("serviceAdded", "(Is)")
	removedID, err2 := meta.SignalID("serviceRemoved", "(Is)")
	rcn, err := dialRaw(addr)
	if err != nil || err1 != nil || err2 != nil {
		tell()
		return
	}
	defer rcn.close()
	if ok, _ := rcn.authenticate("", ""); !ok {
		tell()
		return
	}
	for k, sig := range []uint32{addedID, removedID} {
		args := rc.Encode(rc.TupleOf(rc.T(rc.Uint32), rc.T(rc.Uint32), rc.T(rc.Uint64)), rc.Tup{uint32(1), sig, uint64(0x99990000 + k)})
		if _, err := rcn.call(1, 1, 0, args, nil); err != nil {
			break
		}
	}
	atomic.AddInt64(&vanished, 1)
	tell()
	for y := 0; y < yields; y++ {
		runtime.Gosched()
	}
}

var vanished int64

// checkEvents compares the event log with what the operations' outcomes imply.
func checkEvents(l *eventLog, wantAdded, wantRemoved map[uint32]bool, removedAllowed func(uint32) bool, prog *int64) (string, string) {
	ok := func() bool {
		l.mu.Lock()
		defer l.mu.Unlock()
		for id := range wantAdded {
			if l.added[id] < 1 {
				return false
			}
		}
		for id := range wantRemoved {
			if l.removed[id] < 1 {
				return false
			}
		}
		return true
	}
	v, _ := stuck.WaitFunc(ok, prog, 3*time.Minute)
	l.mu.Lock()
	defer l.mu.Unlock()
	if v == stuck.Stuck {
		for id := range wantAdded {
			if l.added[id] < 1 {
				return "event=added-missing", fmt.Sprintf("no serviceAdded event for service %d although its serviceReady succeeded", id)
			}
		}
		for id := range wantRemoved {
			if l.removed[id] < 1 {
				return "event=removed-missing", fmt.Sprintf("no serviceRemoved event for service %d although it was ready and its unregister succeeded", id)
			}
		}
	}
	if v == stuck.Watchdog {
		return "", "watchdog"
	}
	for id, n := range l.added {
		if n > 1 {
			return "event=added-twice", fmt.Sprintf("%d serviceAdded events for service %d", n, id)
		}
		if !wantAdded[id] && id != 1 {
			return "event=added-unexpected", fmt.Sprintf("serviceAdded event for service %d which never became ready", id)
		}
	}
	for id, n := range l.removed {
		if n > 1 {
			return "event=removed-twice", fmt.Sprintf("%d serviceRemoved events for service %d", n, id)
		}
		if !wantRemoved[id] && !(removedAllowed != nil && removedAllowed(id)) {
			return "event=removed-unexpected", fmt.Sprintf("serviceRemoved event for service %d which was not a ready service being unregistered", id)
		}
		if wantAdded[id] && !strings.HasPrefix(l.order[id], "a") {
			return "event=removed-before-added", fmt.Sprintf("service %d: events arrived in order %q", id, l.order[id])
		}
	}
	return "", ""
}

var seqAlphabet = []string{"regA", "regB", "regInvalid", "readyLast", "readyFirst", "readyNever", "unregLast", "unregFirst", "unregNever", "updateLast", "updateRename", "updateInvalid", "updateZeroId", "serviceA", "serviceB", "services"}

func c15(c *wk.Ctx) {
	c.Note("rule", "streams: seq = operation sequences over two names applied remotely to one directory and compared step by step with a sequential model (register / ready / unregister / update / service / services with symbolic ids: the last / first id issued in the sequence, an id never issued; invalid infos; renames), random length <= 8 (quick) and exhaustive to length 3 over a 16-symbol alphabet plus sampled longer ones (thorough), clean-up between sequences so that 'never reused' spans sequences; conc = concurrent histories of 3-5 remote clients (ServiceDirectory proxy) plus 1-2 local goroutines (Server.NewService = register+ready sharing one interval, Service.Terminate) over 3-4 names, <= 40 operations, checked with porcupine against the same model; serviceAdded/serviceRemoved events collected by another session must be exactly one per successful ready / unregister-of-ready, in that order. race = 20-60 rounds per world in which the server's local NewService (register + ready) overlaps a remote unregister of the identifier it is about to get: per identifier the events on one connection are none, or one added followed by one removed. Race detector reports inside bus/directory are violations. Distinct non-trivial = distinct sequences (seq) / histories with at least one overlapping local-remote pair (conc).")
	c15seq(c)
	c15conc(c)
	c15race(c)
	c15pair(c)
}

// c15pair: two or three actors work on ONE service at the same moment, round after round on one
// directory: the hosting server creates the service locally (register + ready), then a remote
// client's burst of operations on it (updateServiceInfo / service / services / unregisterService)
// overlaps its removal (the server's local Service.Terminate, or another client's unregisterService)
// and sometimes a registration of the same name; each round ends with sequential reads. The whole
// history is checked against the sequential model with porcupine: e.g. an update that re-inserts a
// service removed in between makes the closing service() / services() answers (and the next round's
// registration of the name) impossible in every sequential order.
func c15pair(c *wk.Ctx) {
	c.Cases("pair", c.Pick(360, 6000), func(i int, rng *rand.Rand) {
		w, err := newWorld("unix", nil)
		if err != nil {
			c.Inconclusive("pair", i, "world: "+err.Error())
			return
		}
		defer w.close()
		var progress int64
		var ds []services.ServiceDirectoryProxy
		for k := 0; k < 3; k++ {
			sess, err := w.session()
			if err != nil {
				c.Inconclusive("pair", i, err.Error())
				return
			}
			defer sess.Terminate()
			d, err := services.ServiceDirectory(sess)
			if err != nil {
				c.Inconclusive("pair", i, err.Error())
				return
			}
			ds = append(ds, d)
		}
		log, stop, err := watchEvents(ds[2], &progress, w.addr)
		if err != nil {
			c.Inconclusive("pair", i, err.Error())
			return
		}
		defer stop()
		var mu sync.Mutex
		var ops []porcupine.Operation
		wantAdded := map[uint32]bool{}
		addOp := func(client int, in dirIn, call int64, out dirOut, ret int64) {
			mu.Lock()
			ops = append(ops, porcupine.Operation{ClientId: client, Input: in, Call: call, Output: out, Return: ret})
			if in.Op == "ready" && !out.Err {
				wantAdded[in.ID] = true
			}
			mu.Unlock()
			atomic.AddInt64(&progress, 1)
		}
		remote := func(client int, in dirIn) dirOut {
			call := now()
			out := remoteOp(ds[client], in)
			addOp(client, in, call, out, now())
			return out
		}
		rounds := 6 + rng.Intn(14)
		overlapped := 0
		var shapes []string
		for k := 0; k < rounds; k++ {
			name := fmt.Sprintf("p%d", rng.Intn(2))
			var vwg sync.WaitGroup
			if rng.Intn(2) == 0 {
				// a subscriber of the directory's signals disappears while the service is announced
				sub := make(chan struct{}, 1)
				y := rng.Intn(40)
				vwg.Add(1)
				go func() { defer vwg.Done(); vanishOnce(w.addr, ds[1], y, sub) }()
				<-sub
			}
			call := now()
			s, err := w.server.NewService(name, probe.ProbeObject(svc.NewImpl(name)))
			ret := now()
			vwg.Wait()
			if err != nil {
				// the name must be free at this point: the model decides
				addOp(100, dirIn{Op: "register", Name: name, Tag: w.addr, Valid: true}, call, dirOut{Err: true, Msg: short(err)}, ret)
				continue
			}
			id := s.ServiceID()
			addOp(100, dirIn{Op: "register", Name: name, Tag: w.addr, Valid: true}, call, dirOut{ID: id}, ret)
			addOp(200, dirIn{Op: "ready", ID: id}, call, dirOut{}, ret)
			burst := 1 + rng.Intn(10)
			aKind := rng.Intn(5)
			bKind := rng.Intn(3)
			third := rng.Intn(3) == 0
			yields := rng.Intn(60)
			shapes = append(shapes, fmt.Sprintf("a%d.b%d.n%d", aKind, bKind, burst))
			start := make(chan struct{})
			var wg sync.WaitGroup
			wg.Add(2)
			go func() { // actor A: a remote client's burst on the service
				defer wg.Done()
				<-start
				for j := 0; j < burst; j++ {
					switch aKind {
					case 0, 1:
						remote(0, dirIn{Op: "update", ID: id, Name: name, Tag: newTag(), Valid: true})
					case 2:
						remote(0, dirIn{Op: "service", Name: name})
					case 3:
						remote(0, dirIn{Op: "services"})
					default:
						if j == burst/2 {
							remote(0, dirIn{Op: "unregister", ID: id})
						} else {
							remote(0, dirIn{Op: "update", ID: id, Name: name, Tag: newTag(), Valid: true})
						}
					}
				}
			}()
			var bCall, bRet int64
			go func() { // actor B: the removal
				defer wg.Done()
				<-start
				for y := 0; y < yields; y++ {
					runtime.Gosched()
				}
				if bKind == 1 {
					bCall = now()
					remote(1, dirIn{Op: "unregister", ID: id})
					bRet = now()
					return
				}
				bCall = now()
				s.Terminate()
				bRet = now()
				addOp(101, dirIn{Op: "localterminate", ID: id}, bCall, dirOut{}, bRet)
			}()
			if third {
				wg.Add(1)
				go func() { // actor C: somebody asks for the same name
					defer wg.Done()
					<-start
					out := remote(2, dirIn{Op: "register", Name: name, Tag: newTag(), Valid: true})
					if !out.Err {
						remote(2, dirIn{Op: "unregister", ID: out.ID})
					}
				}()
			}
			close(start)
			done := make(chan struct{})
			go func() { wg.Wait(); close(done) }()
			detail := map[string]interface{}{"round": k, "id": id}
			if v, dump := stuck.Wait(done, &progress, 3*time.Minute); v == stuck.Stuck {
				detail["dump"] = clipDump(dump)
				c.Viol("pair", i, "operation=never-returned/"+wk.PanicSite(dump), "a directory operation never returned", detail)
				c.Abandon("directory blocked")
				return
			} else if v == stuck.Watchdog {
				c.Inconclusive("pair", i, "watchdog")
				return
			}
			// did the removal overlap one of A's operations ?
			mu.Lock()
			for _, op := range ops {
				if op.ClientId == 0 && op.Call < bRet && bCall < op.Return {
					overlapped++
					break
				}
			}
			mu.Unlock()
			// sequential closing reads, then make sure the service is gone
			remote(0, dirIn{Op: "service", Name: name})
			remote(1, dirIn{Op: "services"})
			if bKind == 1 {
				tc := now()
				s.Terminate()
				addOp(101, dirIn{Op: "localterminate", ID: id}, tc, dirOut{}, now())
			}
			remote(0, dirIn{Op: "services"})
		}
		mu.Lock()
		hist := append([]porcupine.Operation{}, ops...)
		mu.Unlock()
		init := dirState{ready: []dirEntry{{1, "ServiceDirectory", w.addr}}, lastID: 1}
		model := c15model
		model.Init = func() interface{} { return init }
		res, _ := porcupine.CheckOperationsVerbose(model, hist, 90*time.Second)
		detail := map[string]interface{}{"rounds": rounds, "operations": len(hist), "shapes": shapes}
		trace := func() []string {
			var tr []string
			sort.Slice(hist, func(a, b int) bool { return hist[a].Call < hist[b].Call })
			for _, op := range hist {
				tr = append(tr, fmt.Sprintf("client %d [%d,%d] %s", op.ClientId, op.Call, op.Return, describeDir(op.Input.(dirIn), op.Output.(dirOut))))
			}
			return tr
		}
		if res == porcupine.Illegal {
			detail["history"] = trace()
			c.Viol("pair", i, "history=not-linearizable/pair", "the history of operations racing on one service is not equivalent to any sequential order respecting real time", detail)
		} else if res == porcupine.Unknown {
			c.Inconclusive("pair", i, "porcupine timeout")
		} else {
			c.Count("histories_linearizable", 1)
		}
		if k, wmsg := checkEvents(log, wantAdded, map[uint32]bool{}, func(id uint32) bool { return wantAdded[id] }, &progress); k != "" {
			detail["history"] = trace()
			log.mu.Lock()
			detail["event_order"] = fmt.Sprint(log.order)
			log.mu.Unlock()
			c.Viol("pair", i, "pair="+k, wmsg, detail)
		} else if wmsg == "watchdog" {
			c.Inconclusive("pair", i, "watchdog (events)")
		}
		c.Count("subscribers_that_vanished_without_unregistering", atomic.SwapInt64(&vanished, 0))
		c.Count("pair_rounds", int64(rounds))
		c.Count("pair_rounds_with_removal_overlapping_the_burst", int64(overlapped))
		c.Count("pair_operations", int64(len(hist)))
		if overlapped > 0 {
			c.Nontrivial(wk.Hash64("pair", i))
		}
		if c.WantSample() && i%40 == 0 {
			c.Sample(map[string]interface{}{"stream": "pair", "rounds": rounds, "operations": len(hist), "rounds_with_overlap": overlapped, "shapes": shapes})
		}
	})
}

// c15race: the hosting server registers and readies a service locally (Server.NewService) while a
// remote client unregisters the identifier that service is about to get (identifiers are consecutive,
// so they can be predicted): the two transitions of ONE service overlap. Whatever the outcome, the
// events seen on one connection for that identifier are: nothing (the service never became ready) or
// exactly one serviceAdded followed by exactly one serviceRemoved.
func c15race(c *wk.Ctx) {
	c.Cases("race", c.Pick(120, 4000), func(i int, rng *rand.Rand) {
		w, err := newWorld("unix", nil)
		if err != nil {
			c.Inconclusive("race", i, "world: "+err.Error())
			return
		}
		defer w.close()
		var progress int64
		sess, err := w.session()
		if err != nil {
			c.Inconclusive("race", i, err.Error())
			return
		}
		defer sess.Terminate()
		d, err := services.ServiceDirectory(sess)
		if err != nil {
			c.Inconclusive("race", i, err.Error())
			return
		}
		log, stop, err := watchEvents(d, &progress, w.addr)
		if err != nil {
			c.Inconclusive("race", i, err.Error())
			return
		}
		defer stop()
		first, err := w.server.NewService("first", probe.ProbeObject(svc.NewImpl("first")))
		if err != nil {
			c.Inconclusive("race", i, "NewService: "+err.Error())
			return
		}
		next := first.ServiceID() + 1
		wantAdded := map[uint32]bool{first.ServiceID(): true}
		rounds := 20 + rng.Intn(40)
		readyAndRemotelyRemoved, neverReady := 0, 0
		var outcomes []string
		for k := 0; k < rounds; k++ {
			id := next
			next++
			name := fmt.Sprintf("r%d", k)
			start := make(chan struct{})
			var s bus.Service
			var nerr error
			var unregOK int32
			spins := 1 + rng.Intn(4)
			yields := rng.Intn(30)
			var wg sync.WaitGroup
			wg.Add(2)
			go func() {
				defer wg.Done()
				<-start
				s, nerr = w.server.NewService(name, probe.ProbeObject(svc.NewImpl(name)))
				atomic.AddInt64(&progress, 1)
			}()
			go func() {
				defer wg.Done()
				<-start
				for y := 0; y < yields; y++ {
					runtime.Gosched()
				}
				for t := 0; t < spins; t++ {
					if d.UnregisterService(id) == nil {
						atomic.StoreInt32(&unregOK, 1)
						break
					}
				}
				atomic.AddInt64(&progress, 1)
			}()
			close(start)
			done := make(chan struct{})
			go func() { wg.Wait(); close(done) }()
			detail := map[string]interface{}{"round": k, "predicted_id": id}
			if v, dump := stuck.Wait(done, &progress, 3*time.Minute); v == stuck.Stuck {
				detail["dump"] = clipDump(dump)
				c.Viol("race", i, "operation=never-returned/"+wk.PanicSite(dump), "a directory operation never returned", detail)
				c.Abandon("directory blocked")
				return
			} else if v == stuck.Watchdog {
				c.Inconclusive("race", i, "watchdog")
				return
			}
			switch {
			case nerr != nil:
				neverReady++
				outcomes = append(outcomes, fmt.Sprintf("%d:never-ready(unregistered=%v)", id, unregOK == 1))
			case s.ServiceID() != id:
				c.Inconclusive("race", i, fmt.Sprintf("identifier prediction failed: got %d, predicted %d", s.ServiceID(), id))
				return
			default:
				wantAdded[id] = true
				if unregOK == 1 {
					readyAndRemotelyRemoved++
				}
				outcomes = append(outcomes, fmt.Sprintf("%d:ready(remotely-unregistered=%v)", id, unregOK == 1))
				s.Terminate() // unregisters it if it is still there
			}
		}
		first.Terminate()
		wantRemoved := map[uint32]bool{}
		for id := range wantAdded {
			wantRemoved[id] = true
		}
		detail := map[string]interface{}{"rounds": rounds, "outcomes": outcomes}
		if k, msg := checkEvents(log, wantAdded, wantRemoved, nil, &progress); k != "" {
			log.mu.Lock()
			detail["event_order"] = fmt.Sprint(log.order)
			log.mu.Unlock()
			c.Viol("race", i, "race="+k, msg, detail)
			return
		} else if msg == "watchdog" {
			c.Inconclusive("race", i, "watchdog (events)")
			return
		}
		c.Count("race_rounds", int64(rounds))
		c.Count("race_rounds_ready_then_remotely_unregistered", int64(readyAndRemotelyRemoved))
		c.Count("race_rounds_unregistered_before_ready", int64(neverReady))
		if readyAndRemotelyRemoved > 0 {
			c.Nontrivial(wk.Hash64("race", i))
		}
		if c.WantSample() && i%10 == 0 {
			c.Sample(map[string]interface{}{"stream": "race", "rounds": rounds, "ready_then_remotely_unregistered": readyAndRemotelyRemoved, "unregistered_before_ready": neverReady})
		}
	})
}

type seqWorld struct {
	w      *world
	sess   bus.Session
	d      services.ServiceDirectoryProxy
	log    *eventLog
	stop   func()
	prog   int64
	model  dirState
	issued []uint32 // every id ever issued on this world
}

func newSeqWorld() (*seqWorld, error) {
	sw := &seqWorld{}
	var err error
	sw.w, err = newWorld("unix", nil)
	if err != nil {
		return nil, err
	}
	sw.sess, err = sw.w.session()
	if err != nil {
		return nil, err
	}
	sw.d, err = services.ServiceDirectory(sw.sess)
	if err != nil {
		return nil, err
	}
	esess, err := sw.w.session()
	if err != nil {
		return nil, err
	}
	ed, err := services.ServiceDirectory(esess)
	if err != nil {
		return nil, err
	}
	sw.log, sw.stop, err = watchEvents(ed, &sw.prog, sw.w.addr)
	if err != nil {
		return nil, err
	}
	sw.model = dirState{ready: []dirEntry{{1, "ServiceDirectory", sw.w.addr}}, lastID: 1}
	return sw, nil
}

func (sw *seqWorld) close() {
	sw.stop()
	sw.sess.Terminate()
	sw.w.close()
}

// runSequence applies the symbolic sequence, returns a violation (key, what, trace) if any.
func (sw *seqWorld) runSequence(symbols []string) (string, string, []string) {
	var issued []uint32
	wantAdded, wantRemoved := map[uint32]bool{}, map[uint32]bool{}
	var trace []string
	pickID := func(which string) uint32 {
		switch {
		case which == "Never" || len(issued) == 0:
			return 0xfffffff0
		case which == "Last":
			return issued[len(issued)-1]
		default:
			return issued[0]
		}
	}
	apply := func(in dirIn) (string, string) {
		out := remoteOp(sw.d, in)
		trace = append(trace, describeDir(in, out))
		wasReady := in.Op == "unregister" && find(sw.model.ready, in.ID) >= 0
		ok, next := dirStep(sw.model, in, out)
		if !ok {
			return "seq=" + in.Op + "-diverges", fmt.Sprintf("step %d: %s is not what the sequential model allows in state %s", len(trace), describeDir(in, out), sw.model)
		}
		sw.model = next
		if in.Op == "register" && !out.Err {
			for _, old := range sw.issued {
				if old == out.ID {
					return "seq=id-reused", fmt.Sprintf("identifier %d was issued twice", out.ID)
				}
			}
			issued = append(issued, out.ID)
			sw.issued = append(sw.issued, out.ID)
		}
		if in.Op == "ready" && !out.Err {
			wantAdded[in.ID] = true
		}
		if in.Op == "unregister" && !out.Err && wasReady {
			wantRemoved[in.ID] = true
		}
		return "", ""
	}
	for _, sym := range symbols {
		var in dirIn
		switch sym {
		case "regA", "regB":
			in = dirIn{Op: "register", Name: "name" + sym[3:], Tag: newTag(), Valid: true}
		case "regInvalid":
			in = dirIn{Op: "register", Name: "nameA", Tag: newTag(), Valid: false}
		case "readyLast", "readyFirst", "readyNever":
			in = dirIn{Op: "ready", ID: pickID(sym[5:])}
		case "unregLast", "unregFirst", "unregNever":
			in = dirIn{Op: "unregister", ID: pickID(sym[5:])}
		case "updateZeroId":
			// identifier 0 (never assigned) with the name of a service that is ready, if there is one
			name := "nameA"
			if len(sw.model.ready) > 1 {
				name = sw.model.ready[len(sw.model.ready)-1].name
			}
			in = dirIn{Op: "update", ID: 0, Name: name, Tag: newTag(), Valid: true}
		case "updateLast", "updateRename", "updateInvalid":
			id := pickID("Last")
			name := "nameA"
			if k := find(sw.model.ready, id); k >= 0 {
				name = sw.model.ready[k].name
			} else if k := find(sw.model.staging, id); k >= 0 {
				name = sw.model.staging[k].name
			}
			if sym == "updateRename" {
				if name == "nameA" {
					name = "nameB"
				} else {
					name = "nameA"
				}
			}
			in = dirIn{Op: "update", ID: id, Name: name, Tag: newTag(), Valid: sym != "updateInvalid"}
		case "serviceA", "serviceB":
			in = dirIn{Op: "service", Name: "name" + sym[7:]}
		case "services":
			in = dirIn{Op: "services"}
		}
		if k, w := apply(in); k != "" {
			return k, w, trace
		}
	}
	// final observation, then clean up
	if k, w := apply(dirIn{Op: "services"}); k != "" {
		return k, w, trace
	}
	for _, id := range issued {
		if find(sw.model.ready, id) >= 0 || find(sw.model.staging, id) >= 0 {
			if k, w := apply(dirIn{Op: "unregister", ID: id}); k != "" {
				return k, w, trace
			}
		}
	}
	if k, w := checkEvents(sw.log, wantAdded, wantRemoved, nil, &sw.prog); k != "" {
		return "seq=" + k, w, trace
	}
	// forget the events of this sequence
	sw.log.mu.Lock()
	for _, id := range issued {
		delete(sw.log.added, id)
		delete(sw.log.removed, id)
		delete(sw.log.order, id)
	}
	sw.log.mu.Unlock()
	return "", "", trace
}

func c15seq(c *wk.Ctx) {
	var sw *seqWorld
	defer func() {
		if sw != nil {
			sw.close()
		}
	}()
	n := 0
	run := func(stream string, i int, symbols []string) {
		if sw == nil || n%400 == 0 {
			if sw != nil {
				sw.close()
			}
			var err error
			sw, err = newSeqWorld()
			if err != nil {
				c.Inconclusive(stream, i, "world: "+err.Error())
				sw = nil
				return
			}
		}
		n++
		key, what, trace := sw.runSequence(symbols)
		if key != "" {
			c.Viol(stream, i, key, what, map[string]interface{}{"sequence": symbols, "trace": trace})
			sw.close()
			sw = nil
			return
		}
		c.Nontrivial(wk.Hash64("seq", strings.Join(symbols, ",")))
		c.Eval(len(symbols))
		if c.WantSample() && i%300 == 0 {
			c.Sample(map[string]interface{}{"stream": stream, "sequence": symbols, "trace": trace})
		}
	}
	c.Cases("seq", c.Pick(3000, 300000), func(i int, rng *rand.Rand) {
		l := 1 + rng.Intn(8)
		symbols := make([]string, l)
		for k := range symbols {
			symbols[k] = seqAlphabet[rng.Intn(len(seqAlphabet))]
		}
		run("seq", i, symbols)
	})
	if c.Thorough() {
		// exhaustive to length 3 (15 + 225 + 3375 sequences)
		var all [][]string
		var gen func(prefix []string, depth int)
		gen = func(prefix []string, depth int) {
			if len(prefix) > 0 {
				all = append(all, append([]string{}, prefix...))
			}
			if depth == 0 {
				return
			}
			for _, s := range seqAlphabet {
				gen(append(prefix, s), depth-1)
			}
		}
		gen(nil, 3)
		c.Note("exhaustive", fmt.Sprintf("all %d sequences of length <= 3 over the %d-symbol alphabet", len(all), len(seqAlphabet)))
		c.Cases("seq-exhaustive", len(all), func(i int, rng *rand.Rand) { run("seq-exhaustive", i, all[i]) })
	}
}

var c15model = porcupine.Model{
	Init: func() interface{} { return dirState{} },
	Step: func(state, input, output interface{}) (bool, interface{}) {
		ok, n := dirStep(state.(dirState), input.(dirIn), output.(dirOut))
		return ok, n
	},
	Equal: func(a, b interface{}) bool { return dirEqual(a.(dirState), b.(dirState)) },
	DescribeOperation: func(in, out interface{}) string {
		return describeDir(in.(dirIn), out.(dirOut))
	},
}

func c15conc(c *wk.Ctx) {
	c.Cases("conc", c.Pick(1800, 60000), func(i int, rng *rand.Rand) {
		w, err := newWorld("unix", nil)
		if err != nil {
			c.Inconclusive("conc", i, "world: "+err.Error())
			return
		}
		defer w.close()
		var progress int64
		esess, err := w.session()
		if err != nil {
			c.Inconclusive("conc", i, err.Error())
			return
		}
		defer esess.Terminate()
		ed, err := services.ServiceDirectory(esess)
		if err != nil {
			c.Inconclusive("conc", i, err.Error())
			return
		}
		log, stop, err := watchEvents(ed, &progress, w.addr)
		if err != nil {
			c.Inconclusive("conc", i, err.Error())
			return
		}
		defer stop()
		nNames := 3 + rng.Intn(2)
		names := []string{"alpha", "beta", "gamma", "delta"}[:nNames]
		nRemote := 3 + rng.Intn(3)
		nLocal := 1 + rng.Intn(2)
		perClient := 3 + rng.Intn(6)
		var mu sync.Mutex
		var ops []porcupine.Operation
		var issued []uint32
		wantAdded, wantRemoved := map[uint32]bool{}, map[uint32]bool{}
		addOp := func(client int, in dirIn, call int64, out dirOut, ret int64) {
			mu.Lock()
			ops = append(ops, porcupine.Operation{ClientId: client, Input: in, Call: call, Output: out, Return: ret})
			if in.Op == "register" && !out.Err {
				issued = append(issued, out.ID)
			}
			if in.Op == "ready" && !out.Err {
				wantAdded[in.ID] = true
			}
			mu.Unlock()
			atomic.AddInt64(&progress, 1)
		}
		pickIssued := func(r *rand.Rand) uint32 {
			mu.Lock()
			defer mu.Unlock()
			if len(issued) == 0 || r.Intn(8) == 0 {
				return 0xfffffff0
			}
			return issued[r.Intn(len(issued))]
		}
		var wg sync.WaitGroup
		start := make(chan struct{})
		setupFail := ""
		for k := 0; k < nRemote; k++ {
			sess, err := w.session()
			if err != nil {
				setupFail = err.Error()
				break
			}
			defer sess.Terminate()
			d, err := services.ServiceDirectory(sess)
			if err != nil {
				setupFail = err.Error()
				break
			}
			wg.Add(1)
			r := rand.New(rand.NewSource(rng.Int63()))
			go func(k int) {
				defer wg.Done()
				<-start
				for j := 0; j < perClient; j++ {
					var in dirIn
					switch x := r.Intn(12); {
					case x < 3:
						in = dirIn{Op: "register", Name: names[r.Intn(nNames)], Tag: newTag(), Valid: r.Intn(8) != 0}
					case x < 5:
						in = dirIn{Op: "ready", ID: pickIssued(r)}
					case x < 7:
						in = dirIn{Op: "unregister", ID: pickIssued(r)}
					case x < 8:
						in = dirIn{Op: "update", ID: pickIssued(r), Name: names[r.Intn(nNames)], Tag: newTag(), Valid: true}
					case x < 10:
						in = dirIn{Op: "service", Name: names[r.Intn(nNames)]}
					default:
						in = dirIn{Op: "services"}
					}
					call := now()
					out := remoteOp(d, in)
					addOp(k, in, call, out, now())
				}
			}(k)
		}
		if setupFail != "" {
			close(start)
			wg.Wait()
			c.Inconclusive("conc", i, setupFail)
			return
		}
		if rng.Intn(2) == 0 {
			// subscribers of the directory's signals that come and disappear without unregistering
			cycles := 4 + rng.Intn(12)
			vr := rand.New(rand.NewSource(rng.Int63()))
			wg.Add(1)
			go func() {
				defer wg.Done()
				<-start
				for k := 0; k < cycles; k++ {
					vanishOnce(w.addr, ed, vr.Intn(60), nil)
				}
			}()
		}
		localRemote := int32(0)
		for k := 0; k < nLocal; k++ {
			wg.Add(1)
			r := rand.New(rand.NewSource(rng.Int63()))
			go func(k int) {
				defer wg.Done()
				<-start
				var mine []bus.Service
				for j := 0; j < perClient; j++ {
					if len(mine) > 0 && r.Intn(3) == 0 {
						s := mine[len(mine)-1]
						mine = mine[:len(mine)-1]
						call := now()
						s.Terminate()
						addOp(100+k, dirIn{Op: "localterminate", ID: s.ServiceID()}, call, dirOut{}, now())
						continue
					}
					name := names[r.Intn(nNames)]
					call := now()
					s, err := w.server.NewService(name, probe.ProbeObject(svc.NewImpl(name)))
					ret := now()
					if err != nil {
						addOp(100+k, dirIn{Op: "register", Name: name, Tag: w.addr, Valid: true}, call, dirOut{Err: true, Msg: short(err)}, ret)
						continue
					}
					id := s.ServiceID()
					addOp(100+k, dirIn{Op: "register", Name: name, Tag: w.addr, Valid: true}, call, dirOut{ID: id}, ret)
					addOp(200+k, dirIn{Op: "ready", ID: id}, call, dirOut{}, ret)
					mine = append(mine, s)
					atomic.AddInt32(&localRemote, 1)
				}
			}(k)
		}
		close(start)
		done := make(chan struct{})
		go func() { wg.Wait(); close(done) }()
		v, dump := stuck.Wait(done, &progress, 3*time.Minute)
		detail := map[string]interface{}{"remote_clients": nRemote, "local_goroutines": nLocal, "names": nNames}
		if v == stuck.Stuck {
			detail["dump"] = clipDump(dump)
			c.Viol("conc", i, "operation=never-returned/"+wk.PanicSite(dump), "a directory operation never returned", detail)
			return
		}
		if v == stuck.Watchdog {
			c.Inconclusive("conc", i, "watchdog")
			return
		}
		mu.Lock()
		hist := append([]porcupine.Operation{}, ops...)
		mu.Unlock()
		// the directory's own entry
		init := dirState{ready: []dirEntry{{1, "ServiceDirectory", w.addr}}, lastID: 1}
		model := c15model
		model.Init = func() interface{} { return init }
		res, _ := porcupine.CheckOperationsVerbose(model, hist, 90*time.Second)
		detail["operations"] = len(hist)
		if res == porcupine.Illegal {
			var tr []string
			sort.Slice(hist, func(a, b int) bool { return hist[a].Call < hist[b].Call })
			for _, op := range hist {
				tr = append(tr, fmt.Sprintf("client %d [%d,%d] %s", op.ClientId, op.Call, op.Return, describeDir(op.Input.(dirIn), op.Output.(dirOut))))
			}
			detail["history"] = tr
			c.Viol("conc", i, "history=not-linearizable", "the concurrent history of directory operations is not equivalent to any sequential order respecting real time", detail)
		} else if res == porcupine.Unknown {
			c.Inconclusive("conc", i, "porcupine timeout")
		} else {
			c.Count("histories_linearizable", 1)
		}
		// events: which unregisters removed a ready service is ambiguous under concurrency; only
		// demand: exactly one added per successful ready, never two removed, removed only for added ids
		for _, op := range hist {
			in := op.Input.(dirIn)
			out := op.Output.(dirOut)
			if in.Op == "ready" && !out.Err {
				wantAdded[in.ID] = true
			}
		}
		// which unregister removed a ready service is ambiguous under concurrency: a removed event is
		// legitimate exactly for an id that became ready (and at most once, after its added event)
		wr := map[uint32]bool{}
		_ = wantRemoved
		if k, wmsg := checkEvents(log, wantAdded, wr, func(id uint32) bool { return wantAdded[id] }, &progress); k != "" {
			var tr []string
			sort.Slice(hist, func(a, b int) bool { return hist[a].Call < hist[b].Call })
			for _, op := range hist {
				tr = append(tr, fmt.Sprintf("client %d [%d,%d] %s", op.ClientId, op.Call, op.Return, describeDir(op.Input.(dirIn), op.Output.(dirOut))))
			}
			detail["history"] = tr
			log.mu.Lock()
			detail["event_order"] = fmt.Sprint(log.order)
			log.mu.Unlock()
			c.Viol("conc", i, "conc="+k, wmsg, detail)
		} else if wmsg == "watchdog" {
			c.Inconclusive("conc", i, "watchdog (events)")
		}
		// overlap evidence between a local and a remote operation
		overl := 0
		for _, a := range hist {
			if a.ClientId < 100 {
				continue
			}
			for _, b := range hist {
				if b.ClientId < 100 && a.Call < b.Return && b.Call < a.Return {
					overl++
				}
			}
		}
		c.Count("subscribers_that_vanished_without_unregistering", atomic.SwapInt64(&vanished, 0))
		c.Count("conc_operations", int64(len(hist)))
		c.Count("local_remote_overlapping_pairs", int64(overl))
		if overl > 0 {
			c.Nontrivial(wk.Hash64("conc", i))
		}
		if c.WantSample() && i%40 == 0 {
			c.Sample(map[string]interface{}{"stream": "conc", "history": i, "operations": len(hist), "local_remote_overlapping_pairs": overl, "remote_clients": nRemote, "local_goroutines": nLocal})
		}
	})
}
