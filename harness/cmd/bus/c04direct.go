package main

import (
	"fmt"
	"math/rand"
	"sync"
	"sync/atomic"
	"time"

	"verif/gen/probe"
	"verif/stuck"
	"verif/svc"
	"verif/wk"
)

// c04direct: objects created with the generated CreateProbe helper. Such an object is fed by TWO
// mailboxes: the one of the service it was added to (calls arriving over server connections) and the
// one of the in-process bus.DirectClient behind the proxy CreateProbe returns. 1-3 such objects; for
// each, 1-2 goroutines call through the direct proxy while 2-5 goroutines call the same objects through
// 1-2 remote sessions, bodies park and are released in PRNG order; in two plans out of three the
// object's generic statistics and / or traces are switched on first (every call then goes through
// the accounting hooks). Oracle as everywhere in C04: every call returns once; success => f(own token,
// own argument) and the method ran exactly once for the token; failure => at most once.
func c04direct(c *wk.Ctx, i int, rng *rand.Rand) {
	w, err := newWorld("unix", nil)
	if err != nil {
		c.Inconclusive("direct", i, "world: "+err.Error())
		return
	}
	defer w.close()
	pk := newParking(rng.Int63(), 20+rng.Intn(50))
	defer pk.close()
	first := svc.NewImpl("D#1")
	first.Gate = pk.gate
	service, err := w.server.NewService("Direct", probe.ProbeObject(first))
	if err != nil {
		c.Inconclusive("direct", i, "NewService: "+err.Error())
		return
	}
	nObj := 1 + rng.Intn(3)
	impls := make([]*svc.Impl, nObj)
	direct := make([]probe.ProbeProxy, nObj)
	ids := make([]uint32, nObj)
	for k := range impls {
		impls[k] = svc.NewImpl(fmt.Sprintf("D#direct%d", k))
		impls[k].Gate = pk.gate
		p, err := probe.CreateProbe(w.server.Session(), service, impls[k])
		if err != nil {
			c.Inconclusive("direct", i, "CreateProbe: "+err.Error())
			return
		}
		direct[k] = p
		ids[k] = impls[k].Activation().ObjectID
	}
	nSess := 1 + rng.Intn(2)
	remote := make([][]probe.ProbeProxy, nSess)
	for s := range remote {
		sess, err := w.session()
		if err != nil {
			c.Inconclusive("direct", i, "session: "+err.Error())
			return
		}
		defer sess.Terminate()
		for k := 0; k < nObj; k++ {
			var p probe.ProbeProxy
			for try := 0; ; try++ {
				bp, err := sess.Proxy("Direct", ids[k])
				if err == nil {
					p = probe.MakeProbe(sess, bp)
					break
				}
				if try > 2000 {
					c.Inconclusive("direct", i, "proxy: "+err.Error())
					return
				}
				time.Sleep(time.Millisecond)
			}
			remote[s] = append(remote[s], p)
		}
	}
	accounting := []string{"off", "statistics", "statistics+traces"}[i%3]
	for k := 0; k < nObj && accounting != "off"; k++ {
		// switched on through either entrance
		p := remote[0][k]
		if rng.Intn(2) == 0 {
			p = direct[k]
		}
		if err := p.EnableStats(true); err != nil {
			c.Inconclusive("direct", i, "enableStats: "+err.Error())
			return
		}
		if accounting == "statistics+traces" {
			if err := p.EnableTrace(true); err != nil {
				c.Inconclusive("direct", i, "enableTrace: "+err.Error())
				return
			}
		}
	}
	type rec struct {
		obj   int
		via   string
		token uint64
		arg   string
		out   string
		err   error
	}
	var mu sync.Mutex
	var recs []rec
	var progress int64
	var wg sync.WaitGroup
	start := make(chan struct{})
	per := 8 + rng.Intn(25)
	caller := func(id int, via string, px func(k int) probe.ProbeProxy, r *rand.Rand) {
		defer wg.Done()
		<-start
		for j := 0; j < per; j++ {
			k := r.Intn(nObj)
			rc := rec{obj: k, via: via, token: uint64(id)<<32 | uint64(j), arg: genArg(r, false)}
			rc.out, rc.err = px(k).Work(rc.token, rc.arg)
			atomic.AddInt64(&progress, 1)
			mu.Lock()
			recs = append(recs, rc)
			mu.Unlock()
		}
	}
	id := 0
	for n := 1 + rng.Intn(2); n > 0; n-- {
		id++
		wg.Add(1)
		go caller(id, "direct", func(k int) probe.ProbeProxy { return direct[k] }, rand.New(rand.NewSource(rng.Int63())))
	}
	for n := 2 + rng.Intn(4); n > 0; n-- {
		id++
		s := rng.Intn(nSess)
		wg.Add(1)
		go caller(id, "remote", func(k int) probe.ProbeProxy { return remote[s][k] }, rand.New(rand.NewSource(rng.Int63())))
	}
	detail := map[string]interface{}{"objects": nObj, "remote_sessions": nSess, "callers": id, "calls_each": per, "accounting": accounting}
	done := make(chan struct{})
	go func() { wg.Wait(); close(done) }()
	close(start)
	if v, dump := stuck.Wait(done, &progress, 4*time.Minute); v != stuck.Returned {
		if v == stuck.Stuck {
			detail["dump"] = clipDump(dump)
			c.Viol("direct", i, "call=never-returned/direct/accounting="+accounting, "a call to an object created with CreateProbe (reached through its direct proxy and through server connections at once) never returned", detail)
			c.Abandon("calls blocked")
		} else {
			c.Inconclusive("direct", i, "watchdog")
		}
		return
	}
	ok, failed, viaDirect := 0, 0, 0
	for _, r := range recs {
		d := map[string]interface{}{"plan": detail, "object": r.obj, "via": r.via, "token": r.token}
		for k, im := range impls {
			n := im.ExecCount(r.token)
			switch {
			case k != r.obj && n != 0:
				c.Viol("direct", i, "exec=other-object/direct", fmt.Sprintf("a call addressed to object %d ran the method of object %d", r.obj, k), d)
				return
			case k == r.obj && r.err == nil && n != 1:
				c.Viol("direct", i, fmt.Sprintf("exec=%d-for-success/direct", n), fmt.Sprintf("a successful call (%s) ran the method %d times", r.via, n), d)
				return
			case k == r.obj && n > 1:
				c.Viol("direct", i, "exec=more-than-once/direct", fmt.Sprintf("a failed call (%s) ran the method %d times", r.via, n), d)
				return
			}
		}
		if r.err != nil {
			failed++
			continue
		}
		if want := svc.F(r.token, r.arg); r.out != want {
			c.Viol("direct", i, "result=not-own/direct/accounting="+accounting, fmt.Sprintf("a call through the %s entrance returned %q, its own arguments give %q", r.via, clipS(r.out), clipS(want)), d)
			return
		}
		ok++
		if r.via == "direct" {
			viaDirect++
		}
	}
	c.Count("calls_to_objects_with_a_direct_and_a_remote_entrance", int64(ok))
	c.Count("of_which_through_the_direct_proxy", int64(viaDirect))
	c.Count("direct_stream_calls_answered_with_an_error", int64(failed))
	c.Eval(ok)
	if ok >= 2 && viaDirect > 0 && viaDirect < ok {
		c.Nontrivial(wk.Hash64("C04direct", i))
	}
	if c.WantSample() && i%10 == 0 {
		c.Sample(map[string]interface{}{"stream": "direct", "plan": detail, "calls": ok})
	}
}
