package main

import (
	"fmt"
	"math/rand"

	"github.com/lugu/qiloop/bus"
	qnet "github.com/lugu/qiloop/bus/net"

	rc "verif/refcodec"
	"verif/svc"
	"verif/wk"
)

// tokenOnly accepts any user name with the right token.
type tokenOnly struct{ secret string }

func (t tokenOnly) Authenticate(user, token string) bool { return token == t.secret }

// c06lenient: authenticators that do not constrain the user name (bus.Yes, a token-only one). A request
// whose auth_user or auth_token entry is present but is not a string carries no user/token pair at all:
// it must be refused whatever the authenticator would say about the strings one could make up from it.
func c06lenient(c *wk.Ctx, i int, rng *rand.Rand) {
	var auth bus.Authenticator = bus.Yes{}
	kind := "yes"
	if i%2 == 1 {
		auth, kind = tokenOnly{"s3cret"}, "token-only"
	}
	w, err := newWorld("unix", auth)
	if err != nil {
		c.Inconclusive("lenient", i, "world: "+err.Error())
		return
	}
	defer w.close()
	ps, err := w.addProbe("Probe", 1, nil)
	if err != nil {
		c.Inconclusive("lenient", i, "addProbe: "+err.Error())
		return
	}
	dyn := func(t *rc.Type, v interface{}) []byte { return rc.Encode(rc.T(rc.Dyn), rc.DynV{T: t, V: v}) }
	wrong := [][2]interface{}{
		{"uint32", uint32(7)}, {"int32", int32(7)}, {"bool", true}, {"list", dyn(rc.ListOf(rc.T(rc.String)), []interface{}{"alice"})},
		{"raw", dyn(rc.T(rc.Raw), []byte("alice"))}, {"float", dyn(rc.T(rc.Float), float32(1))}, {"void", dyn(rc.T(rc.Void), rc.VoidV{})},
	}
	for round := 0; round < 6; round++ {
		// which entries are present, and with which type
		userMode, tokenMode := rng.Intn(3), rng.Intn(3) // 0 absent, 1 string, 2 wrongly typed
		if round == 0 {
			userMode, tokenMode = 2, 1
		}
		entries := []interface{}{"ClientServerSocket", true}
		desc := ""
		switch userMode {
		case 1:
			entries = append(entries, "auth_user", "alice")
			desc += "user=string "
		case 2:
			wv := wrong[rng.Intn(len(wrong))]
			entries = append(entries, "auth_user", wv[1])
			desc += "user=" + wv[0].(string) + " "
		default:
			desc += "user=absent "
		}
		tok := "s3cret"
		switch tokenMode {
		case 1:
			entries = append(entries, "auth_token", tok)
			desc += "token=string"
		case 2:
			wv := wrong[rng.Intn(len(wrong))]
			entries = append(entries, "auth_token", wv[1])
			desc += "token=" + wv[0].(string)
		default:
			tok = ""
			desc += "token=absent"
		}
		wellTyped := userMode != 2 && tokenMode != 2
		user := ""
		if userMode == 1 {
			user = "alice"
		}
		mayPass := wellTyped && auth.Authenticate(user, tok)
		rcn, err := dialRaw(w.addr)
		if err != nil {
			c.Inconclusive("lenient", i, "dial: "+err.Error())
			return
		}
		detail := map[string]interface{}{"authenticator": kind, "request": desc}
		f, err := rcn.call(0, 0, 8, capMap(entries...), nil)
		state := "no-answer"
		if err == nil && f.H.Type == qnet.Reply {
			state = "reply"
			if v, _, derr := rc.Decode(rc.MapOf(rc.T(rc.String), rc.T(rc.Dyn)), f.P); derr == nil {
				for _, kv := range v.([]rc.KV) {
					if kv.K.(string) == "__qi_auth_state" {
						state = fmt.Sprintf("state=%v", kv.V.(rc.DynV).V)
					}
				}
			}
		}
		token := uint64(i)<<8 | uint64(round+1)
		f2, err2 := rcn.call(ps.id, 1, workID(w, ps), workArgs(token, "lenient"), nil)
		rcn.close()
		executed := ps.objs[0].impl.ExecCount(token)
		detail["authenticate_answer"], detail["executed"] = state, executed
		c.Eval(1)
		if !mayPass {
			if executed != 0 || (err2 == nil && f2.H.Type == qnet.Reply) {
				c.Viol("lenient", i, "unauthenticated=executed/wrongly-typed-credentials/"+kind, fmt.Sprintf("after an authenticate request with %s the call to the service was executed (%d) / answered", desc, executed), detail)
				return
			}
			c.Count("lenient_requests_refused", 1)
		} else {
			if err2 != nil || f2.H.Type != qnet.Reply || executed != 1 {
				c.Viol("lenient", i, "authenticated=refused/"+kind, fmt.Sprintf("after a well-formed authenticate request (%s) the authenticator accepts, the call was not served", desc), detail)
				return
			}
			if got, ok := strResult(f2.P); !ok || got != svc.F(token, "lenient") {
				c.Viol("lenient", i, "authenticated=wrong-result/"+kind, "the call returned a wrong result", detail)
				return
			}
			c.Count("lenient_requests_accepted", 1)
		}
	}
	c.Nontrivial(wk.Hash64("C06lenient", i))
}

// workID resolves the action id of work() on the probe service.
func workID(w *world, ps *probeService) uint32 { return 100 }
