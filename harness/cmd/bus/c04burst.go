package main

import (
	"fmt"
	"math/rand"
	"runtime"
	"sync"
	"sync/atomic"
	"time"

	"github.com/lugu/qiloop/bus"
	qnet "github.com/lugu/qiloop/bus/net"

	"verif/gen/probe"
	"verif/stuck"
	"verif/svc"
	"verif/wk"
)

// c04burst: objects a process hosts on ITS side of a connection (bus.NewServiceReference, the service
// behind Proxy.ProxyService and the generated CreateXxx helpers), added at the same moment by several
// goroutines through one or two references to the same service, then called by the peer - one call per
// object, several in flight. 10 rounds per case on one connection (qnet.Pipe); the objects of a round
// are removed before the next one. Oracle as everywhere in C04: every call returns once; success =>
// f(own token, own argument), the target ran the method exactly once for the token and no other object
// ran it; failure => at most once.
func c04burst(c *wk.Ctx, i int, rng *rand.Rand) {
	peer, host := qnet.Pipe()
	defer peer.Close()
	defer host.Close()
	const serviceID = 7
	refs := []bus.Service{bus.NewServiceReference(nil, host, serviceID)}
	if rng.Intn(2) == 0 {
		refs = append(refs, bus.NewServiceReference(nil, host, serviceID))
	}
	caller := bus.NewClient(bus.NewContext(peer))
	var progress int64
	type obj struct {
		impl *svc.Impl
		id   uint32
		ref  int
		err  error
	}
	type rec struct {
		obj   int
		token uint64
		arg   string
		out   string
		err   error
	}
	rounds := 10
	okTotal, failed, added := 0, 0, 0
	for round := 0; round < rounds; round++ {
		g := 4 + rng.Intn(13)
		k := 1 + rng.Intn(3)
		objs := make([]*obj, g*k)
		for x := range objs {
			objs[x] = &obj{impl: svc.NewImpl(fmt.Sprintf("B%d.%d", round, x)), ref: rng.Intn(len(refs))}
		}
		var ready, done sync.WaitGroup
		var start int32
		ready.Add(g)
		done.Add(g)
		for w := 0; w < g; w++ {
			w := w
			go func() {
				defer done.Done()
				ready.Done()
				for spins := 0; atomic.LoadInt32(&start) == 0; spins++ { // spin: all additions start at the same moment
					if spins > 5000 {
						runtime.Gosched()
					}
				}
				for x := 0; x < k; x++ {
					o := objs[w*k+x]
					o.id, o.err = refs[o.ref].Add(probe.ProbeObject(o.impl))
					atomic.AddInt64(&progress, 1)
				}
			}()
		}
		ready.Wait()
		atomic.StoreInt32(&start, 1)
		done.Wait()
		detail := map[string]interface{}{"round": round, "goroutines": g, "additions_each": k, "service_references": len(refs)}
		for x, o := range objs {
			if o.err != nil {
				c.Inconclusive("burst", i, fmt.Sprintf("Add of object %d failed: %v", x, o.err))
				return
			}
		}
		added += len(objs)
		// one call per object, 4 callers at a time
		recs := make([]rec, len(objs))
		var wg sync.WaitGroup
		callers := 4
		for cw := 0; cw < callers; cw++ {
			wg.Add(1)
			r := rand.New(rand.NewSource(rng.Int63()))
			go func(cw int) {
				defer wg.Done()
				for x := cw; x < len(objs); x += callers {
					rc := &recs[x]
					rc.obj = x
					rc.token = uint64(i)<<32 | uint64(round)<<16 | uint64(x)
					rc.arg = fmt.Sprintf("a%d", r.Intn(1000))
					var b []byte
					b, rc.err = caller.Call(nil, serviceID, objs[x].id, 100, workArgs(rc.token, rc.arg))
					if rc.err == nil {
						s, ok := strResult(b)
						if !ok {
							rc.err = fmt.Errorf("answer is not a string: %x", b)
						} else {
							rc.out = s
						}
					}
					atomic.AddInt64(&progress, 1)
				}
			}(cw)
		}
		cdone := make(chan struct{})
		go func() { wg.Wait(); close(cdone) }()
		if v, dump := stuck.Wait(cdone, &progress, 2*time.Minute); v != stuck.Returned {
			if v == stuck.Stuck {
				detail["dump"] = clipDump(dump)
				c.Viol("burst", i, "call=never-returned/burst", "a call to an object hosted on the client side of a connection never returned", detail)
				c.Abandon("calls blocked")
			} else {
				c.Inconclusive("burst", i, "watchdog")
			}
			return
		}
		// a second execution (by another object which was given the same place) happens in that object's
		// own mailbox goroutine: give it a moment before counting
		want := int64(len(objs))
		for spin := 0; spin < 200; spin++ {
			var sum int64
			for _, o := range objs {
				sum += o.impl.CallCount()
			}
			if sum >= want {
				break
			}
			time.Sleep(100 * time.Microsecond)
		}
		for y := 0; y < 10; y++ {
			runtime.Gosched()
		}
		time.Sleep(time.Millisecond)
		for _, r := range recs {
			d := map[string]interface{}{"plan": detail, "object": r.obj, "object_id": objs[r.obj].id, "token": r.token}
			for x, o := range objs {
				n := o.impl.ExecCount(r.token)
				switch {
				case x != r.obj && n != 0:
					c.Viol("burst", i, "exec=other-object/burst", fmt.Sprintf("a call addressed to object %d (id %d) ran the method of object %d (id %d)", r.obj, objs[r.obj].id, x, o.id), d)
					return
				case x == r.obj && r.err == nil && n != 1:
					c.Viol("burst", i, fmt.Sprintf("exec=%d-for-success/burst", n), fmt.Sprintf("a successful call ran the method %d times", n), d)
					return
				case x == r.obj && n > 1:
					c.Viol("burst", i, "exec=more-than-once/burst", fmt.Sprintf("a failed call ran the method %d times", n), d)
					return
				}
			}
			if r.err != nil {
				failed++
				continue
			}
			if want := svc.F(r.token, r.arg); r.out != want {
				c.Viol("burst", i, "result=not-own/burst", fmt.Sprintf("a call to a client-hosted object returned %q, its own arguments give %q", clipS(r.out), clipS(want)), d)
				return
			}
			okTotal++
		}
		for _, o := range objs {
			refs[o.ref].Remove(o.id)
		}
	}
	c.Count("objects_added_at_the_same_moment_on_the_client_side", int64(added))
	c.Count("calls_to_objects_added_in_a_burst", int64(okTotal))
	c.Count("burst_stream_calls_answered_with_an_error", int64(failed))
	c.Eval(okTotal)
	if okTotal >= 8 {
		c.Nontrivial(wk.Hash64("C04burst", i))
	}
	if c.WantSample() && i%50 == 0 {
		c.Sample(map[string]interface{}{"stream": "burst", "rounds": rounds, "objects": added, "calls": okTotal, "service_references": len(refs)})
	}
}
