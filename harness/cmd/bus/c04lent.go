package main

import (
	"context"

	"fmt"
	qnet "github.com/lugu/qiloop/bus/net"
	"math/rand"
	"sync"
	"sync/atomic"
	"time"

	"verif/gen/probe"
	"verif/stuck"
	"verif/svc"
	"verif/wk"
)

// c04lent: calls that travel through objects a client hosts itself. One session lends a Helper object
// to each of 2-4 Desk objects of one service (all over its single connection); other sessions call
// relay(token, arg) on the desks at the same moment, so that the calls the server forwards to the
// lender's objects are in flight together. Each call must return what ITS helper computed for ITS
// arguments, and that helper must have run exactly once for the token (the others never).
func c04lent(c *wk.Ctx, i int, rng *rand.Rand) {
	w, err := newWorld("unix", nil)
	if err != nil {
		c.Inconclusive("lent", i, "world: "+err.Error())
		return
	}
	defer w.close()
	nDesk := 2 + rng.Intn(3)
	service, err := w.server.NewService("Desk", probe.DeskObject(&svc.DeskImpl{}))
	if err != nil {
		c.Inconclusive("lent", i, "NewService: "+err.Error())
		return
	}
	deskIDs := []uint32{1}
	for k := 1; k < nDesk; k++ {
		id, err := service.Add(probe.DeskObject(&svc.DeskImpl{}))
		if err != nil {
			c.Inconclusive("lent", i, "Add: "+err.Error())
			return
		}
		deskIDs = append(deskIDs, id)
	}
	lender, err := w.session()
	if err != nil {
		c.Inconclusive("lent", i, "session: "+err.Error())
		return
	}
	defer lender.Terminate()
	var progress int64
	pk := newParking(rng.Int63(), 30+rng.Intn(60))
	defer pk.close()
	helpers := make([]*svc.HelperImpl, nDesk)
	// one plan in three lends ONE object to every desk: the server then holds several forwarders for the
	// same client-hosted object on the same connection, and their calls are in flight together
	shared := rng.Intn(3) == 0
	var sharedProxy probe.HelperProxy
	var lenderDesks []probe.DeskProxy
	for try := 0; ; try++ {
		p, err := lender.Proxy("Desk", 1)
		if err == nil {
			lenderDesks = append(lenderDesks, probe.MakeDesk(lender, p))
			break
		}
		if try > 2000 {
			c.Inconclusive("lent", i, "proxy: "+err.Error())
			return
		}
		time.Sleep(time.Millisecond)
	}
	for k := 1; k < nDesk; k++ {
		p, err := lender.Proxy("Desk", deskIDs[k])
		if err != nil {
			c.Inconclusive("lent", i, "proxy: "+err.Error())
			return
		}
		lenderDesks = append(lenderDesks, probe.MakeDesk(lender, p))
	}
	proxyService := lenderDesks[0].Proxy().ProxyService(lender)
	for k := 0; k < nDesk; k++ {
		var hp probe.HelperProxy
		if shared && k > 0 {
			helpers[k], hp = helpers[0], sharedProxy
		} else {
			helpers[k] = svc.NewHelper(fmt.Sprintf("h%d", k))
			helpers[k].Gate = pk.gate
			hp, err = probe.CreateHelper(lender, proxyService, helpers[k])
			if err != nil {
				c.Inconclusive("lent", i, "CreateHelper: "+err.Error())
				return
			}
			sharedProxy = hp
		}
		if err := lenderDesks[k].Keep(hp); err != nil {
			c.Viol("lent", i, "lend=error", fmt.Sprintf("lending a client-hosted object to desk %d failed: %v", k, err), nil)
			return
		}
	}
	nSess := 1 + rng.Intn(2)
	callers := make([][]probe.DeskProxy, nSess)
	for s := range callers {
		sess, err := w.session()
		if err != nil {
			c.Inconclusive("lent", i, "session: "+err.Error())
			return
		}
		defer sess.Terminate()
		for k := 0; k < nDesk; k++ {
			p, err := sess.Proxy("Desk", deskIDs[k])
			if err != nil {
				c.Inconclusive("lent", i, "proxy: "+err.Error())
				return
			}
			callers[s] = append(callers[s], probe.MakeDesk(sess, p))
		}
	}
	rounds := 10 + rng.Intn(30)
	type rec struct {
		desk  int
		token uint64
		arg   string
		out   string
		err   error
	}
	var mu sync.Mutex
	var recs []rec
	var wg sync.WaitGroup
	for r := 0; r < rounds; r++ {
		start := make(chan struct{})
		for k := 0; k < nDesk; k++ {
			wg.Add(1)
			p := callers[rng.Intn(nSess)][k]
			token := uint64(r)<<16 | uint64(k)
			arg := genArg(rng, false)
			go func(k int) {
				defer wg.Done()
				<-start
				out, err := p.Relay(token, arg)
				atomic.AddInt64(&progress, 1)
				mu.Lock()
				recs = append(recs, rec{k, token, arg, out, err})
				mu.Unlock()
			}(k)
		}
		close(start)
		if rng.Intn(3) != 0 { // most rounds wait for their calls, some overlap the next round
			done := make(chan struct{})
			go func() { wg.Wait(); close(done) }()
			if v, dump := stuck.Wait(done, &progress, 3*time.Minute); v != stuck.Returned {
				if v == stuck.Stuck {
					c.Viol("lent", i, "call=never-returned/lent/"+wk.PanicSite(dump), "a call relayed to a client-hosted object never returned", map[string]interface{}{"desks": nDesk, "round": r, "dump": clipDump(dump)})
					c.Abandon("calls blocked")
				} else {
					c.Inconclusive("lent", i, "watchdog")
				}
				return
			}
		}
	}
	done := make(chan struct{})
	go func() { wg.Wait(); close(done) }()
	if v, dump := stuck.Wait(done, &progress, 3*time.Minute); v != stuck.Returned {
		if v == stuck.Stuck {
			c.Viol("lent", i, "call=never-returned/lent/"+wk.PanicSite(dump), "a call relayed to a client-hosted object never returned", map[string]interface{}{"desks": nDesk, "dump": clipDump(dump)})
			c.Abandon("calls blocked")
		} else {
			c.Inconclusive("lent", i, "watchdog")
		}
		return
	}
	detail := map[string]interface{}{"desks": nDesk, "caller_sessions": nSess, "rounds": rounds, "one_object_lent_to_every_desk": shared}
	cfg := "lent"
	if shared {
		cfg = "lent-shared"
	}
	ok, errs := 0, 0
	for _, r := range recs {
		d := map[string]interface{}{"plan": detail, "desk": r.desk, "token": r.token}
		if r.err != nil {
			// an error is an allowed outcome (e.g. load shedding "consumer blocked"): at most one execution
			errs++
			for k, h := range helpers {
				if n := h.ExecCount(r.token); n > 1 || (h != helpers[r.desk] && n != 0) {
					c.Viol("lent", i, "exec=more-than-once/"+cfg, fmt.Sprintf("a failed call relayed through desk %d ran the helper of desk %d %d times", r.desk, k, n), d)
					return
				}
			}
			continue
		}
		if want := svc.HF(helpers[r.desk].Name, r.token, r.arg); r.out != want {
			c.Viol("lent", i, "result=not-own/"+cfg, fmt.Sprintf("relay through desk %d returned %q, its own helper computes %q", r.desk, clipS(r.out), clipS(want)), d)
			return
		}
		for k, h := range helpers {
			n := h.ExecCount(r.token)
			if h == helpers[r.desk] && n != 1 {
				c.Viol("lent", i, fmt.Sprintf("exec=%d-for-success/%s", n, cfg), fmt.Sprintf("the helper of desk %d ran %d times for one successful call", k, n), d)
				return
			}
			if h != helpers[r.desk] && n != 0 {
				c.Viol("lent", i, "exec=other-object/"+cfg, fmt.Sprintf("a call relayed through desk %d ran the helper of desk %d", r.desk, k), d)
				return
			}
		}
		ok++
	}
	// two other PROCESSES call the lent objects through the server: message identifiers are unique within a
	// process only, so two raw connections which number their calls alike (as two freshly started clients do)
	// have calls with equal identifiers in flight for the same client-hosted object (bodies park). Each
	// connection must be answered with what the helper computed for ITS arguments
	twins := 0
	{
		conns := make([]*rawConn, 2)
		okc := true
		for x := range conns {
			rcn, err := dialRaw(w.addr)
			if err != nil {
				okc = false
				break
			}
			defer rcn.close()
			if ok, err := rcn.authenticate("", ""); err != nil || !ok {
				okc = false
				break
			}
			conns[x] = rcn
		}
		type tw struct {
			desk  int
			token uint64
			arg   string
			id    uint32
		}
		for r := 0; okc && r < 4+rng.Intn(6); r++ {
			k := rng.Intn(nDesk)
			h, err := callers[0][k].Give()
			if err != nil {
				break // judged below, by the cancel phase
			}
			sid, oid := h.Proxy().ServiceID(), h.Proxy().ObjectID()
			id := uint32(3 + 2*r)
			var sent [2]tw
			for x, rcn := range conns {
				sent[x] = tw{k, uint64(1)<<40 | uint64(r)<<16 | uint64(x), genArg(rng, false), id}
				if err := rcn.send(qnet.Call, sid, oid, 100, id, workArgs(sent[x].token, sent[x].arg)); err != nil {
					okc = false
				}
			}
			if !okc {
				break
			}
			for x, rcn := range conns {
				var f rawFrame
				for {
					f, err = rcn.recv(60 * time.Second)
					if err != nil || f.H.ID == id {
						break
					}
				}
				if err != nil {
					c.Inconclusive("lent", i, "twins: no answer on a raw connection: "+err.Error())
					okc = false
					break
				}
				atomic.AddInt64(&progress, 1)
				if f.H.Type != qnet.Reply {
					continue // an error is an allowed outcome
				}
				out, isStr := strResult(f.P)
				if want := svc.HF(helpers[k].Name, sent[x].token, sent[x].arg); !isStr || out != want {
					c.Viol("lent", i, "result=not-own/"+cfg+"/same-id-on-two-connections", fmt.Sprintf("two connections called the object lent to desk %d with message id %d at the same moment: connection %d was answered %q, its own arguments give %q", k, id, x, clipS(out), clipS(want)), detail)
					return
				}
				twins++
			}
		}
	}
	c.Count("calls_with_equal_message_ids_from_two_connections_to_a_client_hosted_object", int64(twins))
	// cancelled calls to the client-hosted objects themselves: a third party gets the references from the
	// desks (give()), calls poke() - no parameter - through a context and cancels while the body is
	// parked; a cancel must never run the method (again): executions <= calls issued
	issued := make([]int, nDesk)
	{
		hs := make([]probe.HelperProxy, nDesk)
		for k := 0; k < nDesk; k++ {
			h, err := callers[0][k].Give()
			if err != nil {
				c.Viol("lent", i, "give=error", fmt.Sprintf("desk %d cannot hand out the object it was lent: %v", k, err), detail)
				return
			}
			hs[k] = h
		}
		var pwg sync.WaitGroup
		for r := 0; r < 6+rng.Intn(10); r++ {
			for k := 0; k < nDesk; k++ {
				ctx, cancel := context.WithCancel(context.Background())
				issued[k]++
				pwg.Add(1)
				d := time.Duration(50+rng.Intn(400)) * time.Microsecond
				doCancel := rng.Intn(4) != 0
				go func(k int) {
					defer pwg.Done()
					hs[k].WithContext(ctx).Poke()
					atomic.AddInt64(&progress, 1)
					cancel()
				}(k)
				if doCancel {
					time.Sleep(d)
					cancel()
				}
			}
		}
		pdone := make(chan struct{})
		go func() { pwg.Wait(); close(pdone) }()
		if v, dump := stuck.Wait(pdone, &progress, 3*time.Minute); v != stuck.Returned {
			if v == stuck.Stuck {
				c.Viol("lent", i, "call=never-returned/lent-cancel/"+wk.PanicSite(dump), "a cancelled call to a client-hosted object never returned", map[string]interface{}{"dump": clipDump(dump)})
				c.Abandon("calls blocked")
			} else {
				c.Inconclusive("lent", i, "watchdog")
			}
			return
		}
		pk.close2() // release whatever is still parked, park nothing from here on
		bdone := make(chan struct{})
		var berr error
		go func() {
			defer close(bdone)
			for k := 0; k < nDesk; k++ { // barrier: whatever was sent before has been handled when this returns
				if _, err := hs[k].Poke(); err != nil {
					berr = fmt.Errorf("helper %d: %v", k, err)
					return
				}
			}
		}()
		if v, dump := stuck.Wait(bdone, &progress, 3*time.Minute); v == stuck.Stuck {
			c.Viol("lent", i, "call=never-returned/lent-barrier/"+wk.PanicSite(dump), "a call to a client-hosted object never returned after cancelled ones", map[string]interface{}{"dump": clipDump(dump)})
			c.Abandon("calls blocked")
			return
		} else if v == stuck.Watchdog {
			c.Inconclusive("lent", i, "watchdog")
			return
		}
		if berr != nil {
			c.Count("lent_barrier_errors", 1)
		} else {
			for k, h := range helpers {
				want := issued[k] + 1
				if shared { // one object behind every desk
					if k > 0 {
						continue
					}
					want = 0
					for _, n := range issued {
						want += n + 1
					}
				}
				if n := h.PokeCount(); n > want {
					detail["calls_issued"], detail["executions"] = want, n
					c.Viol("lent", i, "cancel=executed/"+cfg, fmt.Sprintf("poke() of the object lent to desk %d ran %d times for %d calls (some of them cancelled in flight)", k, n, want), detail)
					return
				}
				c.Count("cancelled_calls_to_client_hosted_objects", int64(issued[k]))
			}
		}
	}
	if shared {
		c.Count("plans_lending_one_object_to_every_desk", 1)
	}
	c.Count("calls_relayed_to_client_hosted_objects", int64(ok))
	c.Count("relayed_calls_answered_with_an_error", int64(errs))
	c.Eval(ok)
	if ok >= 2 {
		c.Nontrivial(wk.Hash64("C04lent", i))
	}
	if c.WantSample() && i%10 == 0 {
		c.Sample(map[string]interface{}{"stream": "lent", "desks": nDesk, "caller_sessions": nSess, "rounds": rounds, "calls": ok})
	}
}
