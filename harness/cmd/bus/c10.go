package main

import (
	"fmt"
	"math/rand"
	gonet "net"
	"runtime"
	"sync"
	"sync/atomic"
	"time"

	qnet "github.com/lugu/qiloop/bus/net"

	"verif/ctl"
	"verif/stuck"
	"verif/wk"
)

func init() { engines["C10"] = c10 }

// payloadFor is the payload of message (sender, seq): length and content are a keyed function.
func payloadLen(key uint64, sender, seq uint32, maxLen int) int {
	x := key ^ uint64(sender)<<32 ^ uint64(seq)
	x ^= x >> 33
	x *= 0xff51afd7ed558ccd
	x ^= x >> 33
	switch x % 10 {
	case 0:
		return 0
	case 1, 2, 3:
		return int(x>>8) % 64
	case 4, 5, 6, 7:
		return int(x>>8) % 4096
	default:
		return int(x>>8) % (maxLen + 1)
	}
}

func payloadFor(key uint64, sender, seq uint32, maxLen int) []byte {
	n := payloadLen(key, sender, seq, maxLen)
	p := make([]byte, n)
	x := key ^ uint64(sender)<<40 ^ uint64(seq)<<8 | 1
	for i := range p {
		x ^= x << 13
		x ^= x >> 7
		x ^= x << 17
		p[i] = byte(x)
	}
	return p
}

type recvItem struct {
	sender, seq uint32
	typ         uint8
}

type c10handler struct {
	name   string
	filter func(h *qnet.Header) bool
	queue  chan *qnet.Message
	got    []recvItem
	bad    string
	closed int32
	count  int64
}

var c10transports = []string{"ctl", "netpipe", "unix", "tcp", "tcps", "pipe"}

// connect builds one connection over the transport: the receiving endpoint is created
// with fin (handlers registered before any message is processed) as soon as the stream
// exists, so that transports with a handshake (tls) can complete it.
func connect(transport string, rng *rand.Rand, progress *int64, fin func(qnet.EndPoint)) (sender, receiver qnet.EndPoint, cleanup func(), err error) {
	switch transport {
	case "ctl":
		a, b := ctl.Pair("sender", "receiver", progress)
		a.Yield = rng.Intn(3)
		rrng := rand.New(rand.NewSource(rng.Int63())) // used by the receiver's reader goroutine only
		b.ReadChunk = func(rem int) int { return 1 + rrng.Intn(8192) }
		return qnet.NewEndPoint(a), qnet.EndPointFinalizer(b, fin), func() {}, nil
	case "netpipe":
		a, b := gonet.Pipe()
		return qnet.ConnEndPoint(a), qnet.EndPointFinalizer(qnet.ConnStream(b), fin), func() {}, nil
	default:
		addr := newAddr(transport)
		l, err := qnet.Listen(addr)
		if err != nil {
			return nil, nil, nil, fmt.Errorf("listen %s: %v", addr, err)
		}
		type acc struct {
			e   qnet.EndPoint
			err error
		}
		ch := make(chan acc, 1)
		go func() {
			s, err := l.Accept()
			if err != nil {
				ch <- acc{nil, err}
				return
			}
			ch <- acc{qnet.EndPointFinalizer(s, fin), nil}
		}()
		snd, err := qnet.DialEndPoint(addr)
		if err != nil {
			l.Close()
			return nil, nil, nil, fmt.Errorf("dial %s: %v", addr, err)
		}
		a := <-ch
		if a.err != nil {
			l.Close()
			return nil, nil, nil, fmt.Errorf("accept %s: %v", addr, a.err)
		}
		return snd, a.e, func() { l.Close() }, nil
	}
}

func c10(c *wk.Ctx) {
	c.Note("rule", "each plan: one connection over a transport (harness stream with yields and read fragmentation, net.Pipe, unix, tcp, tls, fd-passing pipe), 2-16 sender goroutines released by a barrier, each sending its own numbered messages (payload 0 B - 256 KiB, content a keyed function of (sender, seq)) through EndPoint.Send; the receiving endpoint has an 'all' handler plus 2-5 handlers with overlapping filters (sender set, type, seq parity), queues sized for the whole traffic; in a third of the plans a further handler with a full one-slot queue selects everything as well; in half of the plans 1-4 one-shot handlers (keep = false) occupy lower slots and ReceiveAny handlers come and go during the traffic (each takes exactly one message); in a third of the plans sends on ANOTHER, broken connection of the process fail before and during the traffic (not judged; the observed connection must not notice); in half of the plans a handler registered with AddHandler (callback slow now and then) must be given an in-order subsequence of the arrivals. Oracle: the 'all' handler gets every (sender, seq) exactly once with intact payload and each sender's messages in order; every other handler gets exactly its filter applied to that sequence, in the same order; loss is decided by the quiescence detector. Stream churn: the receiver's handler set grows to 13-32 handlers and shrinks again step by step to the two real ones ('all', 'even ids'), a numbered batch after every change: each real handler gets exactly its selection, in order (sweep over handlers registered x handlers removed first). Distinct non-trivial = distinct (transport, plan) with at least two senders whose messages interleaved at the receiver.")
	plansPer := c.Pick(8, 300)
	c.Cases("plan", len(c10transports)*plansPer, func(i int, rng *rand.Rand) {
		transport := c10transports[i%len(c10transports)]
		c10one(c, i, rng, transport)
	})
	c.Cases("churn", c.Pick(600, 6000), func(i int, rng *rand.Rand) { c10churn(c, i, rng) })
}

func c10one(c *wk.Ctx, i int, rng *rand.Rand, transport string) {
	var progress int64
	nSenders := 2 + rng.Intn(c.Pick(7, 15))
	perSender := 30 + rng.Intn(c.Pick(150, 600))
	maxLen := []int{1024, 65536, 262144}[rng.Intn(3)]
	if transport == "tcps" && maxLen > 65536 {
		maxLen = 65536
	}
	key := rng.Uint64()
	total := nSenders * perSender

	handlers := []*c10handler{{name: "all", filter: func(h *qnet.Header) bool { return true }}}
	nOther := 2 + rng.Intn(4)
	for k := 0; k < nOther; k++ {
		switch rng.Intn(3) {
		case 0:
			mask := rng.Uint32() | 1
			handlers = append(handlers, &c10handler{name: fmt.Sprintf("senders&%x", mask&0xffff), filter: func(h *qnet.Header) bool { return mask&(1<<(h.Service%16)) != 0 }})
		case 1:
			t := uint8(1 + rng.Intn(8))
			handlers = append(handlers, &c10handler{name: fmt.Sprintf("type=%d", t), filter: func(h *qnet.Header) bool { return h.Type == t }})
		default:
			par := uint32(rng.Intn(2))
			handlers = append(handlers, &c10handler{name: fmt.Sprintf("seq%%2=%d", par), filter: func(h *qnet.Header) bool { return h.ID%2 == par }})
		}
	}
	// in a third of the plans a sibling handler with a one-slot queue that nobody drains selects
	// everything too: the handlers that do have room must be unaffected
	stuckSibling := rng.Intn(3) == 0
	stuckQueue := make(chan *qnet.Message, 1)
	var wgCons sync.WaitGroup
	var allCount int64
	for _, h := range handlers {
		h.queue = make(chan *qnet.Message, total+8)
		wgCons.Add(1)
		go func(h *c10handler) {
			defer wgCons.Done()
			for m := range h.queue {
				it := recvItem{m.Header.Service, m.Header.ID, m.Header.Type}
				h.got = append(h.got, it)
				if h.name == "all" {
					want := payloadFor(key, it.sender, it.seq, maxLen)
					if string(want) != string(m.Payload) || m.Header.Action != it.seq%7 || m.Header.Object != 0x5eed {
						if h.bad == "" {
							h.bad = fmt.Sprintf("message (sender %d, seq %d) arrived corrupted: payload %d bytes, expected %d", it.sender, it.seq, len(m.Payload), len(want))
						}
					}
					atomic.AddInt64(&allCount, 1)
					atomic.AddInt64(&progress, 1)
				}
			}
			atomic.StoreInt32(&h.closed, 1)
		}(h)
	}
	// in half of the plans one-shot handlers (filter: everything, keep = false; what ReceiveAny and the
	// reply handler of a call are) sit in slots BELOW the persistent handlers, and further ones are
	// created with ReceiveAny while the traffic flows: each takes one message and goes away, the
	// persistent handlers still get everything their filters select
	oneShots := 0
	if rng.Intn(2) == 0 {
		oneShots = 1 + rng.Intn(4)
	}
	oneShotQueues := make([]chan *qnet.Message, oneShots)
	useAdd := rng.Intn(2) == 0
	var addMu sync.Mutex
	var addGot []recvItem
	var lateAny int32
	stopAny := make(chan struct{})
	anyDone := make(chan struct{})
	snd, recv, cleanup, err := connect(transport, rng, &progress, func(e qnet.EndPoint) {
		if useAdd {
			// a handler registered with AddHandler: the endpoint feeds the callback from its own 10-slot
			// queue; the callback is slow now and then, so that a backlog builds up (messages that find the
			// queue full may be refused, but what is delivered must come in arrival order)
			e.AddHandler(func(hdr *qnet.Header) (bool, bool) { return true, true }, func(m *qnet.Message) error {
				addMu.Lock()
				addGot = append(addGot, recvItem{m.Header.Service, m.Header.ID, m.Header.Type})
				n := len(addGot)
				addMu.Unlock()
				if n%23 == 5 {
					time.Sleep(time.Duration(200+n%7*100) * time.Microsecond)
				}
				return nil
			}, nil)
		}
		for k := range oneShotQueues {
			oneShotQueues[k] = make(chan *qnet.Message, 2)
			e.MakeHandler(func(hdr *qnet.Header) (bool, bool) { return true, false }, oneShotQueues[k], nil)
		}
		if stuckSibling {
			e.MakeHandler(func(hdr *qnet.Header) (bool, bool) { return true, true }, stuckQueue, nil)
		}
		for _, h := range handlers {
			h := h
			e.MakeHandler(func(hdr *qnet.Header) (bool, bool) { return h.filter(hdr), true }, h.queue, nil)
		}
	})
	if err != nil {
		c.Inconclusive("plan", i, err.Error())
		for _, h := range handlers {
			close(h.queue)
		}
		return
	}
	defer cleanup()
	var anyBad atomic.Value
	go func() {
		defer close(anyDone)
		if oneShots == 0 {
			return
		}
		for {
			select {
			case <-stopAny:
				return
			default:
			}
			ch, err := recv.ReceiveAny()
			if err != nil {
				return
			}
			select {
			case m, ok := <-ch:
				if !ok {
					return // the connection was closed
				}
				_ = m
				atomic.AddInt32(&lateAny, 1)
				if m2, ok := <-ch; ok {
					anyBad.Store(fmt.Sprintf("a ReceiveAny channel delivered a second message (sender %d, seq %d)", m2.Header.Service, m2.Header.ID))
					return
				}
			case <-stopAny:
				return
			}
		}
	}()

	start := make(chan struct{})
	var wg sync.WaitGroup
	var sendErr atomic.Value
	// in a third of the plans ANOTHER connection of the process is broken (its peer is gone): sends on
	// it fail before the traffic starts and keep failing while it flows. What happens on that
	// connection is not judged; the connection under observation must not notice.
	if rng.Intn(3) == 0 {
		ca, cb := gonet.Pipe()
		casualty := qnet.ConnEndPoint(ca)
		cb.Close()
		cr := rand.New(rand.NewSource(rng.Int63()))
		failed := 0
		sendBroken := func() {
			hdr := qnet.NewHeader(uint8(1+cr.Intn(8)), 0xdead, 0xdead, 1, uint32(cr.Intn(1000)))
			if casualty.Send(qnet.NewMessage(hdr, make([]byte, cr.Intn(2048)))) != nil {
				failed++
			}
		}
		for k := 2 + cr.Intn(5); k > 0; k-- {
			sendBroken()
		}
		wg.Add(1)
		go func() {
			defer wg.Done()
			defer casualty.Close()
			<-start
			for k := 0; k < 40; k++ {
				sendBroken()
				runtime.Gosched()
			}
			c.Count("sends_that_failed_on_another_broken_connection", int64(failed))
		}()
		c.Count("plans_with_a_broken_connection_next_to_the_observed_one", 1)
	}
	for s := 0; s < nSenders; s++ {
		wg.Add(1)
		r := rand.New(rand.NewSource(rng.Int63()))
		go func(s uint32) {
			defer wg.Done()
			<-start
			for q := uint32(0); q < uint32(perSender); q++ {
				hdr := qnet.NewHeader(uint8(1+r.Intn(8)), s, 0x5eed, q%7, q)
				if err := snd.Send(qnet.NewMessage(hdr, payloadFor(key, s, q, maxLen))); err != nil {
					sendErr.Store(fmt.Sprintf("Send failed for (sender %d, seq %d): %v", s, q, err))
					return
				}
			}
		}(uint32(s))
	}
	close(start)
	all := handlers[0]
	done := func() bool {
		return atomic.LoadInt64(&allCount) >= int64(total) || atomic.LoadInt32(&all.closed) == 1
	}
	v, dump := stuck.WaitFunc(done, &progress, 5*time.Minute)
	sendersDone := make(chan struct{})
	go func() { wg.Wait(); close(sendersDone) }()
	if v == stuck.Returned {
		v, dump = stuck.Wait(sendersDone, &progress, 5*time.Minute)
	}
	close(stopAny)
	snd.Close()
	recv.Close()
	<-anyDone
	for k, q := range oneShotQueues {
		n := 0
	drain:
		for {
			select {
			case _, ok := <-q:
				if !ok {
					break drain
				}
				n++
			default:
				break drain
			}
		}
		if n != 1 && total > oneShots {
			c.Viol("plan", i, "one-shot=count/"+transport, fmt.Sprintf("one-shot handler %d (keep = false) received %d messages, exactly one was expected", k, n), map[string]interface{}{"transport": transport, "one_shot_handlers": oneShots})
			return
		}
	}
	if e, ok := anyBad.Load().(string); ok {
		c.Viol("plan", i, "one-shot=twice/"+transport, e, map[string]interface{}{"transport": transport})
		return
	}
	c.Count("one_shot_handlers_served", int64(oneShots)+int64(atomic.LoadInt32(&lateAny)))
	detail := map[string]interface{}{"transport": transport, "one_shot_handlers_below": oneShots, "one_shot_handlers_during_traffic": atomic.LoadInt32(&lateAny), "senders": nSenders, "per_sender": perSender, "max_payload": maxLen, "handlers": len(handlers), "full_sibling_handler": stuckSibling}
	if stuckSibling {
		c.Count("plans_with_a_full_sibling_handler", 1)
	}
	if v == stuck.Watchdog {
		c.Inconclusive("plan", i, "watchdog")
		return
	}
	wgCons.Wait() // queues are closed by recv.Close()
	if v == stuck.Stuck {
		detail["received"] = atomic.LoadInt64(&allCount)
		detail["dump"] = clipDump(dump)
		c.Viol("plan", i, "delivery=lost/"+transport, fmt.Sprintf("only %d of %d messages arrived and nothing can move any more", atomic.LoadInt64(&allCount), total), detail)
		return
	}
	if e, ok := sendErr.Load().(string); ok {
		c.Viol("plan", i, "send=error/"+transport, e, detail)
		return
	}
	if all.bad != "" {
		c.Viol("plan", i, "delivery=corrupted/"+transport, all.bad, detail)
		return
	}
	if len(all.got) != total {
		c.Viol("plan", i, "delivery=count/"+transport, fmt.Sprintf("%d messages arrived, %d were sent (connection closed by the receiver: stream corrupted?)", len(all.got), total), detail)
		return
	}
	// exactly once, per-sender order
	next := make([]uint32, nSenders)
	interleavings := 0
	for k, it := range all.got {
		if int(it.sender) >= nSenders || it.seq != next[it.sender] {
			exp := uint32(0)
			if int(it.sender) < nSenders {
				exp = next[it.sender]
			}
			c.Viol("plan", i, "delivery=order/"+transport, fmt.Sprintf("arrival #%d is (sender %d, seq %d) but that sender's next expected seq is %d (duplicate, loss or reordering)", k, it.sender, it.seq, exp), detail)
			return
		}
		next[it.sender]++
		if k > 0 && all.got[k-1].sender != it.sender {
			interleavings++
		}
	}
	// the AddHandler callback: an in-order subsequence of the arrivals (refusals when its queue is full are allowed)
	if useAdd {
		addMu.Lock()
		got := append([]recvItem{}, addGot...)
		addMu.Unlock()
		pos := 0
		for k, it := range got {
			for pos < len(all.got) && all.got[pos] != it {
				pos++
			}
			if pos == len(all.got) {
				c.Viol("plan", i, "addhandler=order/"+transport, fmt.Sprintf("the AddHandler callback was given (sender %d, seq %d) as its delivery #%d, out of arrival order (or twice)", it.sender, it.seq, k), detail)
				return
			}
			pos++
		}
		c.Count("addhandler_deliveries", int64(len(got)))
		c.Count("addhandler_refused_queue_full", int64(len(all.got)-len(got)))
	}
	// every other handler == its filter applied to the arrival sequence
	for _, h := range handlers[1:] {
		var exp []recvItem
		for _, it := range all.got {
			hdr := qnet.NewHeader(it.typ, it.sender, 0x5eed, it.seq%7, it.seq)
			if h.filter(&hdr) {
				exp = append(exp, it)
			}
		}
		if len(exp) != len(h.got) {
			c.Viol("plan", i, "filter=count/"+transport, fmt.Sprintf("handler %q received %d messages, its filter selects %d of the arrivals", h.name, len(h.got), len(exp)), detail)
			return
		}
		for k := range exp {
			if exp[k] != h.got[k] {
				c.Viol("plan", i, "filter=order/"+transport, fmt.Sprintf("handler %q: delivery #%d is (sender %d, seq %d), arrival order gives (sender %d, seq %d)", h.name, k, h.got[k].sender, h.got[k].seq, exp[k].sender, exp[k].seq), detail)
				return
			}
		}
		c.Count("filtered_deliveries", int64(len(exp)))
	}
	c.Count("messages", int64(total))
	c.Count("sender_switches_at_receiver", int64(interleavings))
	if interleavings > 0 {
		c.Nontrivial(wk.Hash64("C10", transport, i))
	}
	c.Count("plans_"+transport, 1)
	if c.WantSample() && i%7 == 0 {
		c.Sample(map[string]interface{}{"plan": i, "transport": transport, "senders": nSenders, "per_sender": perSender, "max_payload": maxLen, "sender_switches_at_receiver": interleavings, "handlers": len(handlers)})
	}
}
