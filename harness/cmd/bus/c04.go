package main

import (
	"bytes"
	"context"
	"fmt"
	"math/rand"
	"sort"
	"strings"
	"sync"
	"sync/atomic"
	"time"

	"github.com/lugu/qiloop/bus"
	qnet "github.com/lugu/qiloop/bus/net"

	"verif/gen/probe"
	rc "verif/refcodec"
	"verif/stuck"
	"verif/svc"
	"verif/wk"
)

func init() { engines["C04"] = c04 }

// parking lets method bodies wait until a releaser goroutine frees them in PRNG order,
// so that replies cross (out-of-order completion across objects and connections).
type parking struct {
	mu      sync.Mutex
	parked  []chan struct{}
	rng     *rand.Rand
	prob    int // percent of calls that park
	stop    chan struct{}
	done    chan struct{}
	cond    *sync.Cond
	stopped bool
}

func newParking(seed int64, prob int) *parking {
	p := &parking{rng: rand.New(rand.NewSource(seed)), prob: prob, stop: make(chan struct{}), done: make(chan struct{})}
	p.cond = sync.NewCond(&p.mu)
	go func() {
		defer close(p.done)
		for {
			p.mu.Lock()
			// nothing parked: wait on the condition (a goroutine that only sleeps would keep the
			// quiescence detector from ever deciding that the calls under test are stuck)
			for len(p.parked) == 0 && !p.stopped {
				p.cond.Wait()
			}
			if p.stopped {
				for _, ch := range p.parked {
					close(ch)
				}
				p.parked = nil
				p.mu.Unlock()
				return
			}
			k := p.rng.Intn(len(p.parked))
			close(p.parked[k])
			p.parked = append(p.parked[:k], p.parked[k+1:]...)
			d := time.Duration(20+p.rng.Intn(200)) * time.Microsecond
			p.mu.Unlock()
			time.Sleep(d)
		}
	}()
	return p
}

func (p *parking) gate(token uint64) {
	p.mu.Lock()
	if p.stopped || p.rng.Intn(100) >= p.prob {
		p.mu.Unlock()
		return
	}
	ch := make(chan struct{})
	p.parked = append(p.parked, ch)
	p.cond.Signal()
	p.mu.Unlock()
	<-ch
}

func (p *parking) close() {
	p.mu.Lock()
	p.stopped = true
	p.cond.Broadcast()
	p.mu.Unlock()
	<-p.done
}

type callRec struct {
	token    uint64
	arg      string
	svcIdx   int
	objIdx   int
	conn     int
	call     int64
	ret      int64
	result   string
	err      error
	canceled bool
	config   string
}

func genArg(rng *rand.Rand, big bool) string {
	n := rng.Intn(64)
	switch rng.Intn(12) {
	case 0:
		n = 0
	case 1:
		n = 1024 + rng.Intn(8192)
	case 2:
		if big {
			n = 65536 + rng.Intn(200000)
		}
	}
	b := make([]byte, n)
	for i := range b {
		b[i] = byte('a' + rng.Intn(26))
	}
	return string(b)
}

func c04(c *wk.Ctx) {
	c.Note("rule", "each plan: an in-process directory server (unix; tcp too in thorough) hosting the freshly generated Probe service as 2 services x 3 objects; 4-32 caller goroutines over 1-4 sessions (own proxies each) issue calls work(token, arg) with unique tokens and argument sizes 0 B - 256 KiB to random objects while method bodies park and are released in PRNG order (replies cross); some calls are cancelled through their context while parked; one call in four is made through Proxy.CallID, which returns the answer's bytes undecoded; two goroutines call through two proxies obtained from one bus.Cache on one connection; three goroutines call through their own proxies obtained from the hosting server's in-process session; a raw harness connection sends frames of every message type (Post, Cancel, Capability, Reply, Error, Event, Cancelled) addressed to the real action with fresh tokens, each followed by a barrier Call on the same connection and object, then a burst of 20-80 posts and calls pipelined in one write (one response frame per call, none per post, per-token execution counts). Oracle: each call returns once, success => exactly f(own token, own arg) and exec[token]==1; otherwise exec<=1; Post: exec<=1 and no frame with the post's id comes back; any other type: exec==0. Stream huge: a call whose arguments fit but whose result is a string of about the maximal length (reply payload from a few bytes under to a few bytes over the 10 MiB limit): one outcome, own result or an error, never a hang. Stream lent: one session lends a client-hosted Helper object to each of 2-4 Desk objects of one service over its single connection; other sessions call relay() on the desks at the same moment (helper bodies park and are released in PRNG order): each call returns what its own helper computed for its own arguments, that helper ran once for the token, the other helpers never; then two raw connections which number their messages alike call assist() of the lent objects through the server at the same moment (equal message identifiers in flight for one client-hosted object: each connection gets the answer to ITS arguments); then a third party gets the lent objects from the desks and calls their parameterless poke() through contexts it cancels in flight: executions <= calls issued. In one plan out of three ONE helper is lent to every desk (several forwarders for one client-hosted object on one connection). Stream large: 6-12 goroutines share one connection and call with arguments (and answers) of 66-300 KiB through Proxy.CallID: a successful answer is byte for byte the encoding of the call's own result. Stream direct: 1-3 objects created with the generated CreateProbe helper are called through their in-process direct proxy and through 1-2 remote sessions at the same moment (two mailboxes feed one object), with the object's statistics / traces switched on in two plans out of three: own result, exactly one execution, every call returns. Distinct non-trivial = distinct plans in which at least two calls overlapped and at least one reply-order inversion was observed.; stream burst = 10 rounds per case on one connection (qnet.Pipe): 4-16 goroutines spinning on a barrier add 1-3 objects each at the same moment to one or two client-side references of one service (bus.NewServiceReference, the service behind ProxyService / CreateXxx), the peer then calls every object once, 4 calls in flight: same oracle (own answer, target ran once, no other object ran)")
	c.Cases("plan", c.Pick(120, 2000), func(i int, rng *rand.Rand) {
		transport := "unix"
		if c.Thorough() && i%3 == 2 {
			transport = "tcp"
		}
		c04one(c, i, rng, transport)
	})
	c.Cases("huge", c.Pick(14, 140), func(i int, rng *rand.Rand) { c04huge(c, i, rng) })
	c.Cases("lent", c.Pick(60, 1500), func(i int, rng *rand.Rand) { c04lent(c, i, rng) })
	c.Cases("large", c.Pick(12, 400), func(i int, rng *rand.Rand) { c04large(c, i, rng) })
	c.Cases("direct", c.Pick(48, 1500), func(i int, rng *rand.Rand) { c04direct(c, i, rng) })
	c.Cases("burst", c.Pick(480, 12000), func(i int, rng *rand.Rand) { c04burst(c, i, rng) })
}

func c04one(c *wk.Ctx, i int, rng *rand.Rand, transport string) {
	w, err := newWorld(transport, nil)
	if err != nil {
		c.Inconclusive("plan", i, "world: "+err.Error())
		return
	}
	defer w.close()
	pk := newParking(rng.Int63(), 10+rng.Intn(40))
	defer pk.close()
	for k := 0; k < 2; k++ {
		if _, err := w.addProbe(fmt.Sprintf("Probe%d", k), 3, func(im *svc.Impl) { im.Gate = pk.gate }); err != nil {
			c.Inconclusive("plan", i, "addProbe: "+err.Error())
			return
		}
	}
	impl := func(s, o int) *svc.Impl { return w.svcs[s].objs[o].impl }

	nSess := 1 + rng.Intn(4)
	sessions := make([]bus.Session, nSess)
	for k := range sessions {
		s, err := w.session()
		if err != nil {
			c.Inconclusive("plan", i, "session: "+err.Error())
			return
		}
		sessions[k] = s
		defer s.Terminate()
	}
	nCallers := 4 + rng.Intn(c.Pick(13, 29))
	perCaller := 10 + rng.Intn(c.Pick(40, 120))
	big := rng.Intn(3) == 0

	var mu sync.Mutex
	var recs []*callRec
	var inflight, maxInflight, rawCalls int64
	var wg, ready sync.WaitGroup
	var setupMu sync.Mutex // proxy creation is sequential: at most one metaObject call in flight
	start := make(chan struct{})
	var setupErr atomic.Value

	runCaller := func(id int, sess bus.Session, conn int, config string, mk func(s, o int) (probe.ProbeProxy, error), r *rand.Rand) {
		defer wg.Done()
		// own proxies
		proxies := map[[2]int]probe.ProbeProxy{}
		get := func(s, o int) probe.ProbeProxy {
			if p, ok := proxies[[2]int{s, o}]; ok {
				return p
			}
			p, err := mk(s, o)
			if err != nil {
				setupErr.Store(fmt.Sprintf("proxy: %v", err))
				return nil
			}
			proxies[[2]int{s, o}] = p
			return p
		}
		// proxies are created before the load starts (metaObject calls under load may be
		// dropped with "consumer blocked", which would only make the plan inconclusive)
		setupMu.Lock()
		if config == "cache-proxies" || config == "local-session" {
			get(0, 0)
		} else {
			for s := 0; s < 2; s++ {
				for o := 0; o < 3; o++ {
					get(s, o)
				}
			}
		}
		setupMu.Unlock()
		ready.Done()
		<-start
		for k := 0; k < perCaller; k++ {
			s, o := r.Intn(2), r.Intn(3)
			if config == "cache-proxies" || config == "local-session" {
				s, o = 0, 0 // same object and action through several proxies (of one cache / of the server's own session)
			}
			p := get(s, o)
			if p == nil {
				return
			}
			rec := &callRec{token: uint64(id)<<32 | uint64(k), arg: genArg(r, big), svcIdx: s, objIdx: o, conn: conn, config: config}
			var cancel context.CancelFunc
			if config == "session" && r.Intn(12) == 0 {
				var ctx context.Context
				ctx, cancel = context.WithCancel(context.Background())
				p = p.WithContext(ctx)
				rec.canceled = true
				d := time.Duration(r.Intn(300)) * time.Microsecond
				go func() { time.Sleep(d); cancel() }()
			}
			n := atomic.AddInt64(&inflight, 1)
			for {
				m := atomic.LoadInt64(&maxInflight)
				if n <= m || atomic.CompareAndSwapInt64(&maxInflight, m, n) {
					break
				}
			}
			rec.call = now()
			if cancel == nil && r.Intn(4) == 0 {
				// the same call at the level below the generated proxy: Proxy.CallID hands back the bytes
				// of the answer as they are (an answer that is not this call's own is not filtered out
				// by a decoder that happens to choke on it)
				var b []byte
				b, rec.err = p.Proxy().CallID(100, workArgs(rec.token, rec.arg))
				if rec.err == nil {
					if got, ok := strResult(b); ok {
						rec.result = got
					} else {
						rec.result = fmt.Sprintf("(%d bytes which are not the encoding of a string: %x...)", len(b), b[:minI(len(b), 24)])
					}
				}
				atomic.AddInt64(&rawCalls, 1)
			} else {
				rec.result, rec.err = p.Work(rec.token, rec.arg)
			}
			rec.ret = now()
			atomic.AddInt64(&inflight, -1)
			mu.Lock()
			recs = append(recs, rec)
			mu.Unlock()
		}
	}
	for k := 0; k < nCallers; k++ {
		si := k % nSess
		sess := sessions[si]
		wg.Add(1)
		ready.Add(1)
		go runCaller(k, sess, si, "session", func(s, o int) (probe.ProbeProxy, error) { return proxyFor(sess, w.svcs[s], w.svcs[s].objs[o]) }, rand.New(rand.NewSource(rng.Int63())))
	}
	// two proxies from one bus.Cache on a single connection
	var cache *bus.Cache
	if ep, err := qnet.DialEndPoint(w.addr); err == nil {
		if err := bus.AuthenticateUser(ep, "", ""); err == nil {
			cache = bus.NewCache(ep)
			if err := cache.Lookup(w.svcs[0].name, w.svcs[0].id); err != nil {
				cache = nil
			}
		}
		if cache == nil {
			ep.Close()
		}
	}
	if cache != nil {
		defer cache.Terminate()
		for k := 0; k < 2; k++ {
			wg.Add(1)
			ready.Add(1)
			go runCaller(1000+k, cache, 100, "cache-proxies", func(s, o int) (probe.ProbeProxy, error) {
				p, err := cache.Proxy(w.svcs[0].name, w.svcs[0].objs[0].id)
				if err != nil {
					return nil, err
				}
				return probe.MakeProbe(cache, p), nil
			}, rand.New(rand.NewSource(rng.Int63())))
		}
	}
	// proxies obtained from the hosting server's own (in-process) session, one per goroutine
	{
		local := w.server.Session()
		for k := 0; k < 3; k++ {
			wg.Add(1)
			ready.Add(1)
			go runCaller(2000+k, local, 200, "local-session", func(s, o int) (probe.ProbeProxy, error) {
				p, err := local.Proxy(w.svcs[0].name, w.svcs[0].objs[0].id)
				if err != nil {
					return nil, err
				}
				return probe.MakeProbe(local, p), nil
			}, rand.New(rand.NewSource(rng.Int63())))
		}
	}

	// raw connection: frames of every type
	type rawProbe struct {
		typ    uint8
		token  uint64
		s, o   int
		id     uint32
		target string
	}
	type burstItem struct {
		typ   uint8
		token uint64
		s, o  int
		id    uint32
	}
	var burst []burstItem
	burstGot := map[uint32]int{}
	burstFirst := map[uint32]rawFrame{}
	var rawProbes []rawProbe
	var rawBack []string
	rawDone := make(chan struct{})
	var rawErr string
	rawReady := false
	ready.Add(1)
	go func() {
		defer close(rawDone)
		rcn, err := dialRaw(w.addr)
		if err != nil {
			rawErr = err.Error()
			ready.Done()
			return
		}
		defer rcn.close()
		if ok, err := rcn.authenticate("", ""); err != nil || !ok {
			rawErr = fmt.Sprintf("raw authenticate: %v %v", ok, err)
			ready.Done()
			return
		}
		r := rand.New(rand.NewSource(rng.Int63()))
		// action ids from the meta object
		workID, noteID := uint32(0), uint32(0)
		{
			setupMu.Lock()
			defer func() {
				if rawErr != "" && !rawReady {
					setupMu.Unlock()
					ready.Done()
				}
			}()
			sess := sessions[0]
			p, err := sess.Proxy(w.svcs[0].name, 1)
			if err != nil {
				rawErr = err.Error()
				return
			}
			workID, _, err = p.MetaObject().MethodID("work", "(Ls)")
			if err != nil {
				rawErr = err.Error()
				return
			}
			noteID, _, err = p.MetaObject().MethodID("note", "(L)")
			if err != nil {
				rawErr = err.Error()
				return
			}
			rawReady = true
			setupMu.Unlock()
			ready.Done()
		}
		<-start
		// the hand-written service 0: a post to authenticate must not be answered either
		{
			id := rcn.id()
			if err := rcn.send(qnet.Post, 0, 0, 8, id, capMap("ClientServerSocket", true)); err != nil {
				rawErr = "raw send: " + err.Error()
				return
			}
			var others []rawFrame
			if _, err := rcn.call(w.svcs[0].id, 1, workID, workArgs(uint64(6500)<<32, "barrier0"), &others); err != nil {
				rawErr = "raw barrier: " + err.Error()
				return
			}
			for _, of := range others {
				if of.H.ID == id {
					rawBack = append(rawBack, fmt.Sprintf("RESPONSE0 to a post addressed to service 0 authenticate: frame type %d", of.H.Type))
				}
			}
			// nor do the other kinds of message run (and answer) its authenticate method
			for _, typ := range []uint8{qnet.Cancel, qnet.Capability, qnet.Reply, qnet.Error, qnet.Event, qnet.Cancelled} {
				id := rcn.id()
				if err := rcn.send(typ, 0, 0, 8, id, capMap("ClientServerSocket", true)); err != nil {
					rawErr = "raw send: " + err.Error()
					return
				}
				var others []rawFrame
				if _, err := rcn.call(w.svcs[0].id, 1, workID, workArgs(uint64(6600)<<32|uint64(typ), "barrier0"), &others); err != nil {
					rawErr = "raw barrier: " + err.Error()
					return
				}
				for _, of := range others {
					if of.H.ID == id {
						rawBack = append(rawBack, fmt.Sprintf("RESPONSE0 to a message of type %d addressed to service 0 authenticate: frame type %d", typ, of.H.Type))
					}
				}
			}
		}
		types := []uint8{qnet.Post, qnet.Cancel, qnet.Capability, qnet.Reply, qnet.Error, qnet.Event, qnet.Cancelled}
		n := 10 + r.Intn(30)
		for k := 0; k < n; k++ {
			typ := types[r.Intn(len(types))]
			s, o := r.Intn(2), r.Intn(3)
			token := uint64(5000)<<32 | uint64(k)
			id := rcn.id()
			action, payload, target := workID, workArgs(token, "raw"), "work"
			if r.Intn(3) == 0 {
				action, payload, target = noteID, uint64le(token), "note"
			}
			if err := rcn.send(typ, w.svcs[s].id, w.svcs[s].objs[o].id, action, id, payload); err != nil {
				rawErr = "raw send: " + err.Error()
				return
			}
			rawProbes = append(rawProbes, rawProbe{typ, token, s, o, id, target})
			// barrier: a call on the same connection to the same object
			var others []rawFrame
			bt := uint64(6000)<<32 | uint64(k)
			f, err := rcn.call(w.svcs[s].id, w.svcs[s].objs[o].id, workID, workArgs(bt, "barrier"), &others)
			if err != nil {
				rawErr = "raw barrier: " + err.Error()
				return
			}
			if f.H.Type == qnet.Reply {
				if got, ok := strResult(f.P); !ok || got != svc.F(bt, "barrier") {
					rawBack = append(rawBack, fmt.Sprintf("barrier call returned %q", got))
				}
			}
			for _, of := range others {
				rawBack = append(rawBack, fmt.Sprintf("type=%d id=%d", of.H.Type, of.H.ID))
				for _, pr := range rawProbes {
					if pr.id == of.H.ID {
						rawBack = append(rawBack, fmt.Sprintf("RESPONSE to raw frame type=%d target=%s: frame type %d", pr.typ, pr.target, of.H.Type))
					}
				}
			}
		}
		// burst: posts and calls pipelined in ONE write on this connection (the next message is already
		// queued when the previous one is routed), every token unique
		{
			m := 20 + r.Intn(60)
			var buf bytes.Buffer
			pending := 0
			for k := 0; k < m; k++ {
				typ := uint8(qnet.Call)
				if r.Intn(2) == 0 {
					typ = qnet.Post
				} else {
					pending++
				}
				it := burstItem{typ: typ, token: uint64(9000)<<32 | uint64(k), s: r.Intn(2), o: r.Intn(3), id: rcn.id()}
				buf.Write(rc.Frame(rc.Header{Magic: rc.Magic, ID: it.id, Type: typ, Service: w.svcs[it.s].id, Object: w.svcs[it.s].objs[it.o].id, Action: workID}, workArgs(it.token, "burst")))
				burst = append(burst, it)
			}
			if err := rcn.sendBytes(buf.Bytes()); err != nil {
				rawErr = "raw burst: " + err.Error()
				return
			}
			isCall := map[uint32]bool{}
			for _, it := range burst {
				isCall[it.id] = it.typ == qnet.Call
			}
			note := func(f rawFrame) {
				if _, ok := isCall[f.H.ID]; ok {
					if burstGot[f.H.ID] == 0 {
						burstFirst[f.H.ID] = f
						if isCall[f.H.ID] {
							pending--
						}
					}
					burstGot[f.H.ID]++
				}
			}
			for pending > 0 {
				f, err := rcn.recv(120 * time.Second)
				if err != nil {
					rawErr = "raw burst: " + err.Error()
					return
				}
				note(f)
			}
			// one barrier per object: whatever the burst still had in that object's mailbox is answered first
			for bs := 0; bs < 2; bs++ {
				for bo := 0; bo < 3; bo++ {
					var others []rawFrame
					if _, err := rcn.call(w.svcs[bs].id, w.svcs[bs].objs[bo].id, workID, workArgs(uint64(9500)<<32|uint64(bs*3+bo), "barrier"), &others); err != nil {
						rawErr = "raw burst barrier: " + err.Error()
						return
					}
					for _, of := range others {
						note(of)
					}
				}
			}
		}
	}()

	ready.Wait()
	close(start)
	var progress int64
	callersDone := make(chan struct{})
	go func() { wg.Wait(); <-rawDone; close(callersDone) }()
	v, dump := stuck.Wait(callersDone, &progress, 4*time.Minute)
	detail := map[string]interface{}{"transport": transport, "callers": nCallers, "sessions": nSess, "per_caller": perCaller}
	if v == stuck.Stuck {
		detail["dump"] = clipDump(dump)
		c.Viol("plan", i, "call=never-returned/"+wk.PanicSite(dump), "a call never returned although the server is up and nothing can move", detail)
		return
	}
	if v == stuck.Watchdog {
		c.Inconclusive("plan", i, "watchdog")
		return
	}
	if e, ok := setupErr.Load().(string); ok {
		c.Inconclusive("plan", i, e)
		return
	}
	if rawErr != "" {
		c.Inconclusive("plan", i, rawErr)
		return
	}
	pk.close2()
	// wave phase: per session, goroutines released together issue one call each to the same object
	// and action through the same client, round after round (maximum contention on what makes a
	// call distinguishable from its siblings); same oracle
	{
		waves := 12 + rng.Intn(20)
		width := 8 + rng.Intn(9)
		for si, sess := range sessions {
			p, err := proxyFor(sess, w.svcs[0], w.svcs[0].objs[0])
			if err != nil {
				continue
			}
			for r := 0; r < waves; r++ {
				gate := make(chan struct{})
				var wwg sync.WaitGroup
				wrecs := make([]*callRec, width)
				for g := 0; g < width; g++ {
					wwg.Add(1)
					rec := &callRec{token: uint64(3000+si)<<32 | uint64(r*64+g), arg: fmt.Sprintf("w%d.%d", r, g), svcIdx: 0, objIdx: 0, conn: si, config: "wave"}
					wrecs[g] = rec
					go func() {
						defer wwg.Done()
						<-gate
						rec.call = now()
						rec.result, rec.err = p.Work(rec.token, rec.arg)
						rec.ret = now()
					}()
				}
				close(gate)
				wdone := make(chan struct{})
				go func() { wwg.Wait(); close(wdone) }()
				if v, dump := stuck.Wait(wdone, &progress, 3*time.Minute); v != stuck.Returned {
					if v == stuck.Stuck {
						detail["dump"] = clipDump(dump)
						c.Viol("plan", i, "call=never-returned/config=wave", "a call issued in a wave of simultaneous calls through one client never returned", detail)
					} else {
						c.Inconclusive("plan", i, "watchdog (wave)")
					}
					return
				}
				recs = append(recs, wrecs...)
			}
		}
	}
	// quiescence: a final call from every connection to every object flushes the FIFOs
	for si, sess := range sessions {
		for s := 0; s < 2; s++ {
			for o := 0; o < 3; o++ {
				p, err := proxyFor(sess, w.svcs[s], w.svcs[s].objs[o])
				if err == nil {
					ft := uint64(7000+si)<<32 | uint64(s*3+o)
					if r, err := p.Work(ft, "flush"); err != nil || r != svc.F(ft, "flush") {
						c.Viol("plan", i, "flush=failed", fmt.Sprintf("final call failed: %q %v", r, err), detail)
						return
					}
				}
			}
		}
	}
	// judge
	okCalls, errCalls, canceled := 0, 0, 0
	errKinds := map[string]int{}
	for _, r := range recs {
		ex := impl(r.svcIdx, r.objIdx).ExecCount(r.token)
		d := map[string]interface{}{"token": r.token, "arg_len": len(r.arg), "object": fmt.Sprintf("%s/%d", w.svcs[r.svcIdx].name, w.svcs[r.svcIdx].objs[r.objIdx].id), "config": r.config, "exec": ex, "plan": detail}
		if r.err == nil {
			okCalls++
			if r.result != svc.F(r.token, r.arg) {
				d["got"] = clipS(r.result)
				d["want"] = clipS(svc.F(r.token, r.arg))
				c.Viol("plan", i, "result=not-own/config="+r.config, "a call returned a result that is not f(its own token, its own argument)", d)
				return
			}
			if ex != 1 {
				c.Viol("plan", i, fmt.Sprintf("exec=%d-for-success/config=%s", ex, r.config), fmt.Sprintf("the method body ran %d times for a successful call", ex), d)
				return
			}
		} else {
			errCalls++
			if r.canceled {
				canceled++
			}
			k := r.err.Error()
			if j := strings.LastIndex(k, ": "); j >= 0 {
				k = k[j+2:]
			}
			errKinds[k]++
			if ex > 1 {
				c.Viol("plan", i, "exec=twice-for-failure/config="+r.config, fmt.Sprintf("the method body ran %d times for a call that failed (%v)", ex, r.err), d)
				return
			}
		}
	}
	for _, pr := range rawProbes {
		ex := impl(pr.s, pr.o).ExecCount(pr.token)
		tn := typeName(pr.typ)
		d := map[string]interface{}{"type": tn, "target": pr.target, "exec": ex, "plan": detail}
		if pr.typ == qnet.Post {
			if ex > 1 {
				c.Viol("plan", i, "post=executed-twice", "a post ran the method more than once", d)
				return
			}
		} else if ex != 0 {
			c.Viol("plan", i, "type="+tn+"/effect=executed", fmt.Sprintf("a %s frame addressed to %s ran the method body", tn, pr.target), d)
			return
		}
	}
	for _, it := range burst {
		ex := impl(it.s, it.o).ExecCount(it.token)
		d := map[string]interface{}{"type": typeName(it.typ), "exec": ex, "frames_with_its_id": burstGot[it.id], "plan": detail}
		switch {
		case it.typ == qnet.Post && burstGot[it.id] != 0:
			c.Viol("plan", i, "post=response/burst", "a pipelined post was answered", d)
			return
		case it.typ == qnet.Post && ex > 1:
			c.Viol("plan", i, "post=executed-twice/burst", "a pipelined post ran the method more than once", d)
			return
		case it.typ == qnet.Call && burstGot[it.id] != 1:
			c.Viol("plan", i, "call=outcomes/burst", fmt.Sprintf("a pipelined call got %d response frames", burstGot[it.id]), d)
			return
		case it.typ == qnet.Call && burstFirst[it.id].H.Type == qnet.Reply:
			if got, ok := strResult(burstFirst[it.id].P); !ok || got != svc.F(it.token, "burst") {
				c.Viol("plan", i, "result=not-own/burst", fmt.Sprintf("a pipelined call returned %q", clipS(got)), d)
				return
			}
			if ex != 1 {
				c.Viol("plan", i, fmt.Sprintf("exec=%d-for-success/burst", ex), "a pipelined call that succeeded did not run the method exactly once", d)
				return
			}
		case it.typ == qnet.Call && ex > 1:
			c.Viol("plan", i, "exec=more-than-once/burst", "a pipelined call ran the method more than once", d)
			return
		}
	}
	c.Count("raw_burst_frames", int64(len(burst)))
	for _, b := range rawBack {
		if strings.HasPrefix(b, "RESPONSE0 to a post") {
			c.Viol("plan", i, "target=service0/type=post/effect=response", b, detail)
			return
		}
		if strings.HasPrefix(b, "RESPONSE0") {
			c.Viol("plan", i, "target=service0/type=other/effect=response", b, detail)
			return
		}
		if strings.HasPrefix(b, "RESPONSE") {
			key := "raw=response"
			if strings.Contains(b, "type=4 ") {
				key = "post=response"
			}
			c.Viol("plan", i, key, b, detail)
			return
		}
		if strings.HasPrefix(b, "barrier") {
			c.Viol("plan", i, "raw=barrier-wrong", b, detail)
			return
		}
	}
	// evidence: inversions per connection
	inv := 0
	byConn := map[int][]*callRec{}
	for _, r := range recs {
		byConn[r.conn] = append(byConn[r.conn], r)
	}
	for _, l := range byConn {
		sort.Slice(l, func(a, b int) bool { return l[a].call < l[b].call })
		for k := 1; k < len(l); k++ {
			if l[k].ret < l[k-1].ret && l[k].call > l[k-1].call {
				inv++
			}
		}
	}
	c.Count("calls", int64(len(recs)))
	c.Count("calls_made_through_Proxy.CallID_(raw_answer_bytes)", atomic.LoadInt64(&rawCalls))
	c.Count("calls_ok", int64(okCalls))
	c.Count("calls_error", int64(errCalls))
	c.Count("calls_cancelled_by_context", int64(canceled))
	c.Count("raw_frames_non_call", int64(len(rawProbes)))
	c.Count("reply_order_inversions", int64(inv))
	c.Max("max_in_flight", atomic.LoadInt64(&maxInflight))
	for k, n := range errKinds {
		c.Count("error_kind: "+clipS(k), int64(n))
	}
	if atomic.LoadInt64(&maxInflight) >= 2 && inv >= 1 {
		c.Nontrivial(wk.Hash64("C04", i))
	}
	if c.WantSample() {
		c.Sample(map[string]interface{}{"plan": i, "transport": transport, "callers": nCallers, "sessions": nSess, "calls": len(recs), "ok": okCalls, "errors": errCalls, "max_in_flight": atomic.LoadInt64(&maxInflight), "reply_order_inversions": inv, "raw_frames": len(rawProbes)})
	}
}

func clipS(s string) string {
	if len(s) > 120 {
		return fmt.Sprintf("%s...(%d bytes)", s[:120], len(s))
	}
	return s
}

func typeName(t uint8) string {
	return map[uint8]string{1: "call", 2: "reply", 3: "error", 4: "post", 5: "event", 6: "capability", 7: "cancel", 8: "cancelled"}[t]
}

func uint64le(v uint64) []byte {
	b := make([]byte, 8)
	for i := 0; i < 8; i++ {
		b[i] = byte(v >> (8 * uint(i)))
	}
	return b
}

// close2 releases every parked method and stops parking new ones (idempotent with close).
func (p *parking) close2() {
	p.mu.Lock()
	p.prob = 0
	for _, ch := range p.parked {
		close(ch)
	}
	p.parked = nil
	p.mu.Unlock()
}
