package main

import (
	"fmt"
	"math/rand"
	"runtime"
	"sort"
	"strings"
	"sync"
	"sync/atomic"
	"time"

	"github.com/anishathalye/porcupine"
	"github.com/lugu/qiloop/bus"
	"github.com/lugu/qiloop/type/value"

	"verif/gen/probe"
	"verif/stuck"
	"verif/svc"
	"verif/wk"
)

func init() { engines["C14"] = c14 }

type c14in struct {
	Kind string // get | set | setbad | settyped | update | updatebad
	V    int32
	Desc string
}

type c14out struct {
	V   int32
	Err bool
	Msg string
}

var c14model = porcupine.Model{
	Init: func() interface{} { return int32(0) },
	Step: func(state, input, output interface{}) (bool, interface{}) {
		st := state.(int32)
		in := input.(c14in)
		out := output.(c14out)
		switch in.Kind {
		case "get":
			// a read returns the most recent accepted write, always of the declared type
			return !out.Err && out.V == st, st
		case "set", "update":
			if out.Err {
				return true, st // refused (not expected; judged separately): no effect
			}
			return true, in.V
		default: // setbad, settyped, updatebad: must be refused and change nothing
			return out.Err, st
		}
	},
	DescribeOperation: func(input, output interface{}) string {
		in := input.(c14in)
		out := output.(c14out)
		if out.Err {
			return fmt.Sprintf("%s(%d %s) -> error %s", in.Kind, in.V, in.Desc, out.Msg)
		}
		return fmt.Sprintf("%s(%d %s) -> %d", in.Kind, in.V, in.Desc, out.V)
	},
}

func wrongTyped(r *rand.Rand) (value.Value, string) {
	// values whose bytes could be mistaken for an int32 but whose type is not the declared one
	four := []byte{byte(r.Intn(100)), 0, 0, 0}
	switch r.Intn(16) {
	case 7:
		return value.Opaque("(i)", four), "tuple(i)"
	case 8:
		return value.Opaque("((i))", four), "tuple((i))"
	case 9:
		return value.Opaque("(I)", four), "tuple(I)"
	case 10:
		return value.Int16(int16(r.Intn(100))), "int16"
	case 11:
		return value.Uint8(uint8(r.Intn(100))), "uint8"
	case 12:
		return value.Opaque("d", append(four, 0, 0, 0, 0)), "double"
	case 13:
		return value.Opaque("[i]", append([]byte{1, 0, 0, 0}, four...)), "list[i]"
	case 14:
		return value.Opaque("(i)<Level,v>", four), "struct(i)"
	case 15:
		return value.Raw(four), "raw"
	}
	switch r.Intn(7) {
	case 0:
		return value.String("abcd"), "string(abcd)"
	case 1:
		return value.Long(int64(r.Int31())), "long"
	case 2:
		return value.Float(3.5), "float"
	case 3:
		return value.Uint(r.Uint32()), "uint"
	case 4:
		return value.Bool(true), "bool"
	case 5:
		return value.List([]value.Value{value.Int(1), value.Int(2)}), "list"
	default:
		return value.String("a much longer string value"), "string(long)"
	}
}

func c14(c *wk.Ctx) {
	c.Note("rule", "each history: a freshly generated property level (int32, validator refuses negative values) on a Probe object; 3-6 clients over 1-3 sessions plus the service itself issue <= 60 (200 thorough) operations: GetLevel, SetLevel(unique valid value), SetLevel(negative), generic setProperty(level - by name or by numeric id -, wrongly typed value: string, long, float, uint, bool, list; or a valid value by id), service-side UpdateLevel(unique value / negative); in one history out of two, on every session two subscribers sharing the client's registration first come and go in order of arrival; one or two subscribers (SubscribeLevel) stay subscribed; 0-3 further clients, each on a connection of its own, subscribe while the operations are in flight and must receive every accepted write issued after their subscription was acknowledged, once; the service keeps updating the object's other property (gain) all along. Call/return stamps come from one logical clock at the client boundary. Oracle: porcupine checks the history against a register model (accepted set/update -> state, invalid or wrongly typed write -> must be an error and state unchanged, get -> current state without error); a valid write that is refused is a violation; each continuously subscribed reader must receive exactly the set of accepted values, each once (missing decided by the quiescence detector). Stream faulty-link: 2-5 subscribers (some cancel and subscribe again first; in a third of the histories the object's generic statistics are switched on) on own connections to a stand-alone server whose listener is wrapped by the harness; the link towards one of them starts refusing writes (reads stay open, the server sees no disconnection), or stalls in the middle of one fan-out while a subscriber registered after it cancels; every subscriber also listens to the signal tick, which the service emits now and then; a sequential mix of client writes, service-side updates (some of them writing the value that is already stored), refused writes and reads follows (in a third of the histories no link fails), possibly with a subscriber joining: every subscriber on a healthy link receives exactly the accepted values, in order; reads return the last accepted value (the outcome reported to the writer is not judged). Stream wide: the properties label (str) and spot (a structure) hold unique values of 10 B - 40 KiB written concurrently by 2-3 clients and 1-3 goroutines of the service over unix / tcp, with subscribers on own connections and a reader: valid writes accepted, refused ones report an error, reads return an intact written value, the final read is some writer's last accepted value, every subscriber gets each accepted value once, intact. Distinct non-trivial = distinct histories with at least two overlapping operations and one accepted write.")
	var w *world
	defer func() {
		if w != nil {
			w.close()
		}
	}()
	n := 0
	c.Cases("history", c.Pick(2400, 80000), func(i int, rng *rand.Rand) {
		if w == nil || n%50 == 0 {
			if w != nil {
				w.close()
			}
			var err error
			w, err = newWorld("unix", nil)
			if err != nil {
				c.Inconclusive("history", i, "world: "+err.Error())
				w = nil
				return
			}
		}
		n++
		c14one(c, i, rng, w, fmt.Sprintf("R%d", n))
	})
	c.Cases("faulty-link", c.Pick(120, 12000), func(i int, rng *rand.Rand) { c14faulty(c, i, rng) })
	c.Cases("wide", c.Pick(72, 6000), func(i int, rng *rand.Rand) { c14wide(c, i, rng) })
}

func c14one(c *wk.Ctx, i int, rng *rand.Rand, w *world, name string) {
	ps, err := w.addProbe(name, 1, nil)
	if err != nil {
		c.Inconclusive("history", i, "addProbe: "+err.Error())
		return
	}
	defer ps.service.Terminate()
	impl := ps.objs[0].impl
	nSess := 1 + rng.Intn(3)
	nClients := 3 + rng.Intn(4)
	var sessions []bus.Session
	for k := 0; k < nSess; k++ {
		s, err := w.session()
		if err != nil {
			c.Inconclusive("history", i, "session: "+err.Error())
			return
		}
		defer s.Terminate()
		sessions = append(sessions, s)
	}
	proxies := make([]probe.ProbeProxy, nClients)
	for k := range proxies {
		p, err := proxyFor(sessions[k%nSess], ps, ps.objs[0])
		if err != nil {
			c.Inconclusive("history", i, "proxy: "+err.Error())
			return
		}
		proxies[k] = p
	}
	// the numeric id of the property (generic property / setProperty accept it in place of the name)
	var levelID uint32
	for id, mp := range proxies[0].Proxy().MetaObject().Properties {
		if mp.Name == "level" {
			levelID = id
		}
	}
	// subscribers
	type reader struct {
		mu     sync.Mutex
		got    []int32
		cancel func()
		closed int32
	}
	// prologue (one history in two): on every session two subscribers share the client's registration, come
	// and go in order of arrival (the first to arrive leaves first); whatever they leave behind must not
	// reach the subscribers which follow on the same connection
	prologues := 0
	if rng.Intn(2) == 0 {
		for k := range sessions {
			pa, err1 := proxyFor(sessions[k], ps, ps.objs[0])
			pb, err2 := proxyFor(sessions[k], ps, ps.objs[0])
			if err1 != nil || err2 != nil {
				c.Inconclusive("history", i, "proxy (prologue)")
				return
			}
			ca, cha, err1 := pa.SubscribeLevel()
			cb, chb, err2 := pb.SubscribeLevel()
			if err1 != nil || err2 != nil {
				c.Inconclusive("history", i, "subscribe (prologue)")
				return
			}
			go func() {
				for range cha {
				}
			}()
			go func() {
				for range chb {
				}
			}()
			ca()
			cb()
			prologues++
		}
	}
	c.Count("sessions_on_which_two_subscribers_came_and_went_before_the_history", int64(prologues))
	var progress int64
	nReaders := 1 + rng.Intn(2)
	readers := make([]*reader, nReaders)
	for k := range readers {
		p, err := proxyFor(sessions[rng.Intn(nSess)], ps, ps.objs[0])
		if err != nil {
			c.Inconclusive("history", i, "proxy: "+err.Error())
			return
		}
		cancel, ch, err := p.SubscribeLevel()
		if err != nil {
			c.Inconclusive("history", i, "subscribe: "+err.Error())
			return
		}
		rd := &reader{cancel: cancel}
		readers[k] = rd
		go func() {
			for v := range ch {
				rd.mu.Lock()
				rd.got = append(rd.got, v)
				rd.mu.Unlock()
				atomic.AddInt64(&progress, 1)
			}
			atomic.StoreInt32(&rd.closed, 1)
		}()
	}

	var mu sync.Mutex
	var ops []porcupine.Operation
	var accepted []int32
	acceptedCall := map[int32]int64{} // accepted value -> clock when its write was issued
	var refusedValid []string
	record := func(client int, in c14in, call int64, out c14out) {
		ret := now()
		mu.Lock()
		ops = append(ops, porcupine.Operation{ClientId: client, Input: in, Call: call, Output: out, Return: ret})
		if (in.Kind == "set" || in.Kind == "update") && !out.Err {
			accepted = append(accepted, in.V)
			acceptedCall[in.V] = call
		}
		if (in.Kind == "set" || in.Kind == "update") && out.Err {
			refusedValid = append(refusedValid, fmt.Sprintf("%s(%d): %s", in.Kind, in.V, out.Msg))
		}
		mu.Unlock()
		atomic.AddInt64(&progress, 1)
	}
	var valSeq int32
	unique := func() int32 { return atomic.AddInt32(&valSeq, 1) }
	total := 20 + rng.Intn(c.Pick(40, 180))
	perClient := total / (nClients + 1)
	var wg sync.WaitGroup
	start := make(chan struct{})
	errMsg := func(err error) string {
		m := err.Error()
		if len(m) > 80 {
			m = m[:80]
		}
		return m
	}
	for k := 0; k < nClients; k++ {
		wg.Add(1)
		r := rand.New(rand.NewSource(rng.Int63()))
		go func(k int) {
			defer wg.Done()
			p := proxies[k]
			<-start
			for j := 0; j < perClient; j++ {
				switch x := r.Intn(10); {
				case x < 4:
					in := c14in{Kind: "get"}
					call := now()
					v, err := p.GetLevel()
					out := c14out{V: v}
					if err != nil {
						out = c14out{Err: true, Msg: errMsg(err)}
					}
					record(k, in, call, out)
				case x < 7:
					in := c14in{Kind: "set", V: unique()}
					call := now()
					err := p.SetLevel(in.V)
					out := c14out{}
					if err != nil {
						out = c14out{Err: true, Msg: errMsg(err)}
					}
					record(k, in, call, out)
				case x < 8:
					in := c14in{Kind: "setbad", V: -unique()}
					call := now()
					err := p.SetLevel(in.V)
					out := c14out{}
					if err != nil {
						out = c14out{Err: true, Msg: errMsg(err)}
					}
					record(k, in, call, out)
				case x < 9 && levelID != 0 && r.Intn(3) == 0:
					// a valid write through the generic setProperty, the property named by its numeric id
					in := c14in{Kind: "set", V: unique()}
					call := now()
					err := p.SetProperty(value.Uint(levelID), value.Int(in.V))
					out := c14out{}
					if err != nil {
						out = c14out{Err: true, Msg: errMsg(err)}
					}
					record(k, in, call, out)
				default:
					val, desc := wrongTyped(r)
					in := c14in{Kind: "settyped", Desc: desc}
					call := now()
					var name value.Value = value.String("level")
					if levelID != 0 && r.Intn(2) == 0 {
						name = value.Uint(levelID) // the property named by its numeric id
						in.Desc += " by id"
					}
					err := p.SetProperty(name, val)
					out := c14out{}
					if err != nil {
						out = c14out{Err: true, Msg: errMsg(err)}
					}
					record(k, in, call, out)
				}
			}
		}(k)
	}
	// the service itself
	wg.Add(1)
	r := rand.New(rand.NewSource(rng.Int63()))
	go func() {
		defer wg.Done()
		<-start
		for j := 0; j < perClient; j++ {
			in := c14in{Kind: "update", V: unique()}
			if r.Intn(4) == 0 {
				in = c14in{Kind: "updatebad", V: -unique()}
			}
			call := now()
			err := impl.Helper.UpdateLevel(in.V)
			out := c14out{}
			if err != nil {
				out = c14out{Err: true, Msg: errMsg(err)}
			}
			record(1000, in, call, out)
			for y := r.Intn(20); y > 0; y-- {
				time.Sleep(5 * time.Microsecond)
			}
		}
	}()
	// the object's OTHER property is updated by the service all along: writes to one property of an
	// object must not disturb another one (they live in the same object)
	otherStop := make(chan struct{})
	otherDone := make(chan struct{})
	var gainUpdates int64
	go func() {
		defer close(otherDone)
		<-start
		for k := int32(1); k < 20000; k++ { // bounded: an endless loop would keep the quiescence detector from deciding
			select {
			case <-otherStop:
				return
			default:
			}
			impl.Helper.UpdateGain(k)
			atomic.AddInt64(&gainUpdates, 1)
			if k%64 == 0 {
				time.Sleep(20 * time.Microsecond)
			}
		}
	}()
	defer func() { c.Count("updates_of_the_other_property_during_histories", atomic.LoadInt64(&gainUpdates)) }()
	// late subscribers: 0-3 further clients, each on a connection of its own (hence a registration of its own at
	// the object), subscribe WHILE the writes are in flight, shortly one after the other. From the moment its
	// subscription is acknowledged each must receive every accepted write issued afterwards, once
	type lateReader struct {
		reader
		ack int64 // clock when SubscribeLevel returned (0: it failed)
		err error
	}
	var lates []*lateReader
	for k := rng.Intn(4); k > 0; k-- {
		s, err := w.session()
		if err != nil {
			c.Inconclusive("history", i, "session: "+err.Error())
			return
		}
		defer s.Terminate()
		p, err := proxyFor(s, ps, ps.objs[0])
		if err != nil {
			c.Inconclusive("history", i, "proxy: "+err.Error())
			return
		}
		lr := &lateReader{}
		lates = append(lates, lr)
		yields := rng.Intn(400)
		wg.Add(1)
		go func() {
			defer wg.Done()
			<-start
			for y := 0; y < yields; y++ {
				runtime.Gosched()
			}
			cancel, ch, err := p.SubscribeLevel()
			if err != nil {
				lr.err = err
				return
			}
			lr.cancel = cancel
			lr.ack = now()
			atomic.AddInt64(&progress, 1)
			go func() {
				for v := range ch {
					lr.mu.Lock()
					lr.got = append(lr.got, v)
					lr.mu.Unlock()
					atomic.AddInt64(&progress, 1)
				}
				atomic.StoreInt32(&lr.closed, 1)
			}()
		}()
	}
	close(start)
	done := make(chan struct{})
	go func() { wg.Wait(); close(otherStop); <-otherDone; close(done) }()
	v, dump := stuck.Wait(done, &progress, 3*time.Minute)
	detail := map[string]interface{}{"service": name, "clients": nClients, "sessions": nSess, "readers": nReaders}
	if v == stuck.Stuck {
		detail["dump"] = clipDump(dump)
		c.Viol("history", i, "operation=never-returned/"+wk.PanicSite(dump), "a property operation never returned", detail)
		return
	}
	if v == stuck.Watchdog {
		c.Inconclusive("history", i, "watchdog")
		return
	}
	mu.Lock()
	hist := append([]porcupine.Operation{}, ops...)
	acc := append([]int32{}, accepted...)
	rv := append([]string{}, refusedValid...)
	mu.Unlock()
	detail["operations"] = len(hist)
	if len(rv) > 0 {
		c.Viol("history", i, "write=valid-refused", "a valid write was refused: "+rv[0], detail)
	}
	// linearizability against the register model
	res, info := porcupine.CheckOperationsVerbose(c14model, hist, 60*time.Second)
	switch res {
	case porcupine.Illegal:
		key, what := c14classify(hist)
		detail["history"] = c14describe(hist, 60)
		_ = info
		c.Viol("history", i, key, what, detail)
	case porcupine.Unknown:
		c.Inconclusive("history", i, "porcupine timeout")
	}
	// events: every continuously subscribed reader gets each accepted value exactly once
	want := map[int32]bool{}
	for _, a := range acc {
		want[a] = true
	}
	complete := func() bool {
		for _, rd := range readers {
			rd.mu.Lock()
			have := map[int32]bool{}
			for _, g := range rd.got {
				have[g] = true
			}
			rd.mu.Unlock()
			for a := range want {
				if !have[a] {
					return false
				}
			}
		}
		return true
	}
	sv, _ := stuck.WaitFunc(complete, &progress, 3*time.Minute)
	for k, rd := range readers {
		rd.mu.Lock()
		cnt := map[int32]int{}
		for _, g := range rd.got {
			cnt[g]++
		}
		rd.mu.Unlock()
		for g, n := range cnt {
			if !want[g] {
				c.Viol("history", i, "event=for-rejected-or-unknown-write", fmt.Sprintf("reader %d received a change event carrying %d, which no accepted write wrote", k, g), detail)
				break
			}
			if n > 1 {
				c.Viol("history", i, "event=duplicate", fmt.Sprintf("reader %d received the change event for value %d %d times", k, g, n), detail)
				break
			}
		}
		if sv == stuck.Stuck {
			for a := range want {
				if cnt[a] == 0 {
					c.Viol("history", i, "event=missing", fmt.Sprintf("reader %d never received the change event of accepted write %d", k, a), detail)
					break
				}
			}
		}
		rd.cancel()
	}
	mu.Lock()
	callOf := map[int32]int64{}
	for v, st := range acceptedCall {
		callOf[v] = st
	}
	mu.Unlock()
	lateOwed := 0
	for k, lr := range lates {
		if lr.err != nil {
			if !strings.Contains(lr.err.Error(), "consumer blocked") {
				c.Viol("history", i, "subscribe=error/late", fmt.Sprintf("late subscriber %d: SubscribeLevel failed while writes were in flight: %v", k, lr.err), detail)
			}
			continue
		}
		owed := map[int32]bool{}
		for a := range want {
			if callOf[a] > lr.ack {
				owed[a] = true
			}
		}
		lateOwed += len(owed)
		lcomplete := func() bool {
			lr.mu.Lock()
			defer lr.mu.Unlock()
			have := map[int32]bool{}
			for _, g := range lr.got {
				have[g] = true
			}
			for a := range owed {
				if !have[a] {
					return false
				}
			}
			return true
		}
		lv, _ := stuck.WaitFunc(lcomplete, &progress, 3*time.Minute)
		lr.mu.Lock()
		cnt := map[int32]int{}
		for _, g := range lr.got {
			cnt[g]++
		}
		lr.mu.Unlock()
		for g, n := range cnt {
			if !want[g] {
				c.Viol("history", i, "event=for-rejected-or-unknown-write/late-subscriber", fmt.Sprintf("late subscriber %d received a change event carrying %d, which no accepted write wrote", k, g), detail)
				break
			}
			if n > 1 {
				c.Viol("history", i, "event=duplicate/late-subscriber", fmt.Sprintf("late subscriber %d received the change event for value %d %d times", k, g, n), detail)
				break
			}
		}
		if lv == stuck.Stuck {
			for a := range owed {
				if cnt[a] == 0 {
					c.Viol("history", i, "event=missing/late-subscriber", fmt.Sprintf("a client subscribed while writes were in flight (acknowledged at clock %d, %d other late subscribers) never received the change event of accepted write %d, issued at clock %d", lr.ack, len(lates)-1, a, callOf[a]), detail)
					break
				}
			}
		} else if lv == stuck.Watchdog {
			c.Inconclusive("history", i, "watchdog (late subscriber)")
		}
		lr.cancel()
	}
	c.Count("late_subscribers_(subscribed_while_writes_were_in_flight)", int64(len(lates)))
	c.Count("accepted_writes_issued_after_a_late_subscription_was_acknowledged", int64(lateOwed))
	if sv == stuck.Watchdog {
		c.Inconclusive("history", i, "watchdog (events)")
	}
	// overlap evidence
	overlaps := 0
	sorted := append([]porcupine.Operation{}, hist...)
	sort.Slice(sorted, func(a, b int) bool { return sorted[a].Call < sorted[b].Call })
	for k := 1; k < len(sorted); k++ {
		if sorted[k].Call < sorted[k-1].Return {
			overlaps++
		}
	}
	c.Count("operations", int64(len(hist)))
	c.Count("accepted_writes", int64(len(acc)))
	c.Count("overlapping_operation_pairs", int64(overlaps))
	if res == porcupine.Ok {
		c.Count("histories_linearizable", 1)
	}
	if overlaps >= 1 && len(acc) >= 1 {
		c.Nontrivial(wk.Hash64("C14", i))
	}
	if c.WantSample() && i%30 == 0 {
		c.Sample(map[string]interface{}{"history": i, "clients": nClients, "sessions": nSess, "operations": len(hist), "accepted_writes": len(acc), "overlapping_pairs": overlaps, "first_operations": c14describe(hist, 8)})
	}
}

// c14classify gives a stable key to a non-linearizable history: the first sequential evidence if there is one.
func c14classify(hist []porcupine.Operation) (string, string) {
	for _, op := range hist {
		in := op.Input.(c14in)
		out := op.Output.(c14out)
		switch {
		case in.Kind == "settyped" && !out.Err:
			return "write=wrongly-typed-accepted", fmt.Sprintf("a wrongly typed setProperty (%s) was accepted", in.Desc)
		case in.Kind == "setbad" && !out.Err:
			return "write=invalid-accepted", "a write refused by the validator was accepted"
		case in.Kind == "updatebad" && !out.Err:
			return "update=invalid-accepted", "a service-side update refused by the validator was accepted"
		}
	}
	for _, op := range hist {
		in := op.Input.(c14in)
		out := op.Output.(c14out)
		if in.Kind == "get" && out.Err {
			return "read=error", "a read of the property failed: " + out.Msg
		}
	}
	return "history=not-linearizable", "the history of reads and writes is not linearizable as an atomic register"
}

func c14describe(hist []porcupine.Operation, max int) []string {
	var out []string
	for k, op := range hist {
		if k >= max {
			out = append(out, fmt.Sprintf("... %d more", len(hist)-max))
			break
		}
		out = append(out, fmt.Sprintf("client %d [%d,%d] %s", op.ClientId, op.Call, op.Return, c14model.DescribeOperation(op.Input, op.Output)))
	}
	return out
}

var _ = svc.F
