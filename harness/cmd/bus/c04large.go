package main

import (
	"bytes"
	"fmt"
	"math/rand"
	"sync"
	"sync/atomic"
	"time"

	rc "verif/refcodec"
	"verif/stuck"
	"verif/svc"
	"verif/wk"
)

// c04large: many LARGE answers in flight on ONE connection. 6-12 goroutines share one session and call
// work(token, arg) with arguments of 66-300 KiB (the answers are as large) on 2 x 3 objects, whose
// mailboxes answer concurrently on that connection; the calls are made through Proxy.CallID, which
// hands back the answer's bytes undecoded, so that an answer assembled from pieces of several messages
// is seen as what it is (a generated proxy would mostly fail to decode it and report an error, which is
// an allowed outcome). Success => exactly the encoding of f(own token, own argument), one execution.
func c04large(c *wk.Ctx, i int, rng *rand.Rand) {
	w, err := newWorld([]string{"unix", "tcp"}[i%2], nil)
	if err != nil {
		c.Inconclusive("large", i, "world: "+err.Error())
		return
	}
	defer w.close()
	for k := 0; k < 2; k++ {
		if _, err := w.addProbe(fmt.Sprintf("L%d", k), 3, nil); err != nil {
			c.Inconclusive("large", i, "addProbe: "+err.Error())
			return
		}
	}
	sess, err := w.session()
	if err != nil {
		c.Inconclusive("large", i, "session: "+err.Error())
		return
	}
	defer sess.Terminate()
	type target struct {
		s, o int
		call func(action uint32, payload []byte) ([]byte, error)
	}
	var targets []target
	for s := 0; s < 2; s++ {
		for o := 0; o < 3; o++ {
			p, err := proxyFor(sess, w.svcs[s], w.svcs[s].objs[o])
			for try := 0; err != nil && try < 2000; try++ {
				time.Sleep(time.Millisecond)
				p, err = proxyFor(sess, w.svcs[s], w.svcs[s].objs[o])
			}
			if err != nil {
				c.Inconclusive("large", i, "proxy: "+err.Error())
				return
			}
			targets = append(targets, target{s, o, p.Proxy().CallID})
		}
	}
	nCallers := 6 + rng.Intn(7)
	per := 6 + rng.Intn(10)
	type rec struct {
		t     target
		token uint64
		arg   string
		out   []byte
		err   error
	}
	var mu sync.Mutex
	var recs []rec
	var progress int64
	var wg sync.WaitGroup
	start := make(chan struct{})
	for k := 0; k < nCallers; k++ {
		r := rand.New(rand.NewSource(rng.Int63()))
		wg.Add(1)
		go func(k int) {
			defer wg.Done()
			<-start
			for j := 0; j < per; j++ {
				n := 66000 + r.Intn(240000)
				if r.Intn(4) == 0 {
					n = r.Intn(2000) // small ones in between
				}
				fill := byte('a' + r.Intn(26))
				rc0 := rec{t: targets[r.Intn(len(targets))], token: uint64(k)<<32 | uint64(j), arg: string(bytes.Repeat([]byte{fill}, n))}
				rc0.out, rc0.err = rc0.t.call(100, workArgs(rc0.token, rc0.arg))
				atomic.AddInt64(&progress, 1)
				mu.Lock()
				recs = append(recs, rc0)
				mu.Unlock()
			}
		}(k)
	}
	done := make(chan struct{})
	go func() { wg.Wait(); close(done) }()
	close(start)
	detail := map[string]interface{}{"transport": []string{"unix", "tcp"}[i%2], "callers_on_one_connection": nCallers, "calls_each": per}
	if v, dump := stuck.Wait(done, &progress, 4*time.Minute); v != stuck.Returned {
		if v == stuck.Stuck {
			detail["dump"] = clipDump(dump)
			c.Viol("large", i, "call=never-returned/large", "a call with a large argument and answer never returned", detail)
			c.Abandon("calls blocked")
		} else {
			c.Inconclusive("large", i, "watchdog")
		}
		return
	}
	ok, failed := 0, 0
	for _, r := range recs {
		im := w.svcs[r.t.s].objs[r.t.o].impl
		ex := im.ExecCount(r.token)
		d := map[string]interface{}{"plan": detail, "token": r.token, "argument_bytes": len(r.arg), "executed": ex}
		if r.err != nil {
			failed++
			if ex > 1 {
				c.Viol("large", i, "exec=more-than-once/large", "a failed call ran the method more than once", d)
				return
			}
			continue
		}
		if want := rc.Encode(rc.T(rc.String), svc.F(r.token, r.arg)); !bytes.Equal(r.out, want) {
			d["answer_bytes"], d["expected_bytes"], d["answer_starts_with"] = len(r.out), len(want), fmt.Sprintf("%x", r.out[:minI(len(r.out), 32)])
			c.Viol("large", i, "result=not-own/large", fmt.Sprintf("a call returned successfully with %d bytes which are not the encoding of its own result (first difference at byte %d)", len(r.out), firstDiffB(r.out, want)), d)
			return
		}
		if ex != 1 {
			c.Viol("large", i, fmt.Sprintf("exec=%d-for-success/large", ex), "a successful call did not run the method exactly once", d)
			return
		}
		ok++
	}
	c.Count("large_answers_checked_byte_for_byte", int64(ok))
	c.Count("large_stream_calls_answered_with_an_error", int64(failed))
	c.Eval(ok)
	if ok >= 2 {
		c.Nontrivial(wk.Hash64("C04large", i))
	}
	if c.WantSample() && i%4 == 0 {
		c.Sample(map[string]interface{}{"stream": "large", "plan": detail, "answers_checked": ok, "errors": failed})
	}
}

func firstDiffB(a, b []byte) int {
	for k := 0; k < len(a) && k < len(b); k++ {
		if a[k] != b[k] {
			return k
		}
	}
	return minI(len(a), len(b))
}
