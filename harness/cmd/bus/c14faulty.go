package main

import (
	"errors"
	"fmt"
	"math/rand"
	"sync"
	"sync/atomic"
	"time"

	"github.com/lugu/qiloop/bus"
	qnet "github.com/lugu/qiloop/bus/net"
	"github.com/lugu/qiloop/type/object"

	"verif/gen/probe"
	"verif/stuck"
	"verif/svc"
	"verif/wk"
)

// faultyStream is a server-side connection whose outgoing direction can be made to fail while the
// incoming one stays open (a half-broken link: the server has not noticed any disconnection).
type faultyStream struct {
	qnet.Stream
	fail int32
}

func (s *faultyStream) Write(d []byte) (int, error) {
	if atomic.LoadInt32(&s.fail) != 0 {
		return 0, errors.New("harness: link fault, write refused")
	}
	return s.Stream.Write(d)
}

// faultyListener hands the server wrapped streams, in accept order.
type faultyListener struct {
	qnet.Listener
	mu      sync.Mutex
	streams []*faultyStream
}

func (l *faultyListener) Accept() (qnet.Stream, error) {
	s, err := l.Listener.Accept()
	if err != nil {
		return nil, err
	}
	f := &faultyStream{Stream: s}
	l.mu.Lock()
	l.streams = append(l.streams, f)
	l.mu.Unlock()
	return f, nil
}

func (l *faultyListener) count() int {
	l.mu.Lock()
	defer l.mu.Unlock()
	return len(l.streams)
}

// directProbe connects a fresh client (own connection) straight to a stand-alone server.
func directProbe(addr string, serviceID uint32) (probe.ProbeProxy, bus.Client, error) {
	_, channel, err := bus.SelectEndPoint([]string{addr}, "", "")
	if err != nil {
		return nil, nil, err
	}
	client := bus.NewClient(channel)
	p0 := bus.NewProxy(client, object.ObjectMetaObject, serviceID, 1)
	meta, err := bus.MakeObject(p0).MetaObject(1)
	if err != nil {
		return nil, nil, err
	}
	return probe.MakeProbe(nil, bus.NewProxy(client, meta, serviceID, 1)), client, nil
}

// c14faulty: several subscribers of the property on their own connections; the link towards ONE of
// them starts refusing writes. Every accepted write (by a client or by the service) must still reach
// each of the other subscribers exactly once, in order; reads return the last accepted value.
func c14faulty(c *wk.Ctx, i int, rng *rand.Rand) {
	addr := newAddr("unix")
	l, err := qnet.Listen(addr)
	if err != nil {
		c.Inconclusive("faulty-link", i, "listen: "+err.Error())
		return
	}
	fl := &faultyListener{Listener: l}
	srv, err := bus.StandAloneServer(fl, bus.Yes{}, bus.PrivateNamespace())
	if err != nil {
		c.Inconclusive("faulty-link", i, "server: "+err.Error())
		return
	}
	defer srv.Terminate()
	impl := svc.NewImpl("L")
	service, err := srv.NewService("L", probe.ProbeObject(impl))
	if err != nil {
		c.Inconclusive("faulty-link", i, "NewService: "+err.Error())
		return
	}
	id := service.ServiceID()
	var progress int64
	type sub struct {
		conn   int // index of its server-side stream
		mu     sync.Mutex
		got    []int32
		closed bool
	}
	connect := func() (probe.ProbeProxy, int, error) {
		before := fl.count()
		p, _, err := directProbe(addr, id)
		if err != nil {
			return nil, 0, err
		}
		for y := 0; y < 100000 && fl.count() == before; y++ {
			time.Sleep(20 * time.Microsecond)
		}
		if fl.count() != before+1 {
			return nil, 0, fmt.Errorf("accepted connections: %d -> %d", before, fl.count())
		}
		return p, before, nil
	}
	statsOn := rng.Intn(3) == 0
	resubscribed := 0
	subscribe := func() (*sub, error) {
		p, conn, err := connect()
		if err != nil {
			return nil, err
		}
		if statsOn && rng.Intn(2) == 0 {
			// the generic statistics switch of the object (every incoming message then travels in a
			// per-message wrapper of its connection)
			p.EnableStats(true)
		}
		cancel, ch, err := p.SubscribeLevel()
		if err != nil {
			return nil, err
		}
		if rng.Intn(3) == 0 {
			// subscribe, cancel, subscribe again on the same connection: still ONE subscription
			cancel()
			for range ch {
			}
			_, ch, err = p.SubscribeLevel()
			if err != nil {
				return nil, err
			}
			resubscribed++
		}
		s := &sub{conn: conn}
		go func() {
			for v := range ch {
				s.mu.Lock()
				s.got = append(s.got, v)
				s.mu.Unlock()
				atomic.AddInt64(&progress, 1)
			}
			s.mu.Lock()
			s.closed = true
			s.mu.Unlock()
		}()
		return s, nil
	}
	n := 2 + rng.Intn(4)
	subs := make([]*sub, 0, n+1)
	for k := 0; k < n; k++ {
		s, err := subscribe()
		if err != nil {
			c.Inconclusive("faulty-link", i, "subscribe: "+err.Error())
			return
		}
		subs = append(subs, s)
	}
	writer, _, err := connect()
	if err != nil {
		c.Inconclusive("faulty-link", i, "writer: "+err.Error())
		return
	}
	victim := rng.Intn(n) // position in registration order
	healthyBefore := rng.Intn(4)
	var accepted []int32
	last := impl.InitLevel
	next := int32(1000 + rng.Intn(1000))
	detail := map[string]interface{}{"subscribers": n, "failing_link_is_subscriber": victim}
	var trace []string
	step := func() bool {
		switch x := rng.Intn(10); {
		case x < 4: // client write, valid (now and then the value that is already stored)
			v := next + 1
			if rng.Intn(4) == 0 && len(accepted) > 0 {
				v = last
			} else {
				next++
			}
			err := writer.SetLevel(v)
			accepted, last = append(accepted, v), v
			trace = append(trace, fmt.Sprintf("SetLevel(%d) -> %v", v, err))
		case x < 6: // service-side update (now and then of the value that is already stored: still a write)
			v := next + 1
			if rng.Intn(3) == 0 && len(accepted) > 0 {
				v = last
			} else {
				next++
			}
			err := impl.Helper.UpdateLevel(v)
			accepted, last = append(accepted, v), v
			trace = append(trace, fmt.Sprintf("service UpdateLevel(%d) -> %v", v, err))
		case x < 8: // rejected by the validator
			v := -1 - int32(rng.Intn(100))
			err := writer.SetLevel(v)
			trace = append(trace, fmt.Sprintf("SetLevel(%d) -> %v", v, err))
			if err == nil {
				detail["trace"] = trace
				c.Viol("faulty-link", i, "write=invalid-accepted", fmt.Sprintf("SetLevel(%d) was not refused", v), detail)
				return false
			}
		default:
			got, err := writer.GetLevel()
			trace = append(trace, fmt.Sprintf("GetLevel() -> %d %v", got, err))
			if err != nil || got != last {
				detail["trace"] = trace
				c.Viol("faulty-link", i, "read=stale", fmt.Sprintf("GetLevel returned %d %v, the last accepted write is %d", got, err, last), detail)
				return false
			}
		}
		atomic.AddInt64(&progress, 1)
		return true
	}
	for k := 0; k < healthyBefore; k++ {
		if !step() {
			return
		}
	}
	if rng.Intn(3) == 0 {
		victim = -1 // no link fails in this history
		detail["failing_link_is_subscriber"] = "none"
	} else {
		atomic.StoreInt32(&fl.streams[subs[victim].conn].fail, 1)
		trace = append(trace, fmt.Sprintf("-- link towards subscriber %d refuses writes from here on", victim))
	}
	if rng.Intn(2) == 0 {
		// a subscriber that joins while the link is failing
		s, err := subscribe()
		if err != nil {
			c.Inconclusive("faulty-link", i, "late subscribe: "+err.Error())
			return
		}
		s.got = append([]int32{}, accepted...) // it is only owed what follows
		subs = append(subs, s)
		trace = append(trace, "-- one more subscriber joins")
	}
	ops := 4 + rng.Intn(14)
	for k := 0; k < ops; k++ {
		if !step() {
			return
		}
	}
	detail["trace"] = trace
	complete := func() bool {
		for k, s := range subs {
			if k == victim {
				continue
			}
			s.mu.Lock()
			g := len(s.got)
			s.mu.Unlock()
			if g < len(accepted) {
				return false
			}
		}
		return true
	}
	v, _ := stuck.WaitFunc(complete, &progress, 3*time.Minute)
	if v == stuck.Watchdog {
		c.Inconclusive("faulty-link", i, "watchdog")
		return
	}
	for k, s := range subs {
		if k == victim {
			continue
		}
		s.mu.Lock()
		got := append([]int32{}, s.got...)
		s.mu.Unlock()
		if len(got) < len(accepted) {
			c.Viol("faulty-link", i, "event=missing/other-link-failing", fmt.Sprintf("subscriber %d (healthy link) received %d change events, %d writes were accepted: got %v want %v", k, len(got), len(accepted), got, accepted), detail)
			return
		}
		for j := range got {
			if j >= len(accepted) || got[j] != accepted[j] {
				c.Viol("faulty-link", i, "event=wrong-or-duplicate/other-link-failing", fmt.Sprintf("subscriber %d (healthy link) received %v, the accepted writes are %v", k, got, accepted), detail)
				return
			}
		}
	}
	c.Count("faulty_link_histories", 1)
	c.Count("subscribers_that_cancelled_and_subscribed_again", int64(resubscribed))
	if statsOn {
		c.Count("histories_with_object_statistics_enabled", 1)
	}
	c.Count("faulty_link_accepted_writes", int64(len(accepted)))
	if len(accepted) > healthyBefore {
		c.Nontrivial(wk.Hash64("C14faulty", i))
	}
	if c.WantSample() && i%20 == 0 {
		c.Sample(map[string]interface{}{"stream": "faulty-link", "subscribers": len(subs), "failing_link_is_subscriber": victim, "accepted_writes": len(accepted), "operations": len(trace)})
	}
}
