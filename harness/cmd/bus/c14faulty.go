package main

import (
	"errors"
	"fmt"
	"math/rand"
	"sync"
	"sync/atomic"
	"time"

	"github.com/lugu/qiloop/bus"
	qnet "github.com/lugu/qiloop/bus/net"
	"github.com/lugu/qiloop/type/object"

	"verif/gen/probe"
	"verif/stuck"
	"verif/svc"
	"verif/wk"
)

// faultyStream is a server-side connection whose outgoing direction can be made to fail while the
// incoming one stays open (a half-broken link: the server has not noticed any disconnection).
type faultyStream struct {
	qnet.Stream
	fail    int32         // 1: writes are refused; 2: writes wait for release (a peer that stopped reading)
	blocked int32         // writers currently waiting
	release chan struct{} // closed to let stalled writers go on
}

func (s *faultyStream) Write(d []byte) (int, error) {
	switch atomic.LoadInt32(&s.fail) {
	case 1:
		return 0, errors.New("harness: link fault, write refused")
	case 2:
		atomic.AddInt32(&s.blocked, 1)
		<-s.release
		atomic.AddInt32(&s.blocked, -1)
	}
	return s.Stream.Write(d)
}

// faultyListener hands the server wrapped streams, in accept order.
type faultyListener struct {
	qnet.Listener
	mu      sync.Mutex
	streams []*faultyStream
}

func (l *faultyListener) Accept() (qnet.Stream, error) {
	s, err := l.Listener.Accept()
	if err != nil {
		return nil, err
	}
	f := &faultyStream{Stream: s, release: make(chan struct{})}
	l.mu.Lock()
	l.streams = append(l.streams, f)
	l.mu.Unlock()
	return f, nil
}

func (l *faultyListener) count() int {
	l.mu.Lock()
	defer l.mu.Unlock()
	return len(l.streams)
}

// directProbe connects a fresh client (own connection) straight to a stand-alone server.
func directProbe(addr string, serviceID uint32) (probe.ProbeProxy, bus.Client, error) {
	_, channel, err := bus.SelectEndPoint([]string{addr}, "", "")
	if err != nil {
		return nil, nil, err
	}
	client := bus.NewClient(channel)
	p0 := bus.NewProxy(client, object.ObjectMetaObject, serviceID, 1)
	meta, err := bus.MakeObject(p0).MetaObject(1)
	if err != nil {
		return nil, nil, err
	}
	return probe.MakeProbe(nil, bus.NewProxy(client, meta, serviceID, 1)), client, nil
}

// c14faulty: several subscribers of the property on their own connections; the link towards ONE of
// them starts refusing writes. Every accepted write (by a client or by the service) must still reach
// each of the other subscribers exactly once, in order; reads return the last accepted value.
func c14faulty(c *wk.Ctx, i int, rng *rand.Rand) {
	addr := newAddr("unix")
	l, err := qnet.Listen(addr)
	if err != nil {
		c.Inconclusive("faulty-link", i, "listen: "+err.Error())
		return
	}
	fl := &faultyListener{Listener: l}
	srv, err := bus.StandAloneServer(fl, bus.Yes{}, bus.PrivateNamespace())
	if err != nil {
		c.Inconclusive("faulty-link", i, "server: "+err.Error())
		return
	}
	defer srv.Terminate()
	impl := svc.NewImpl("L")
	service, err := srv.NewService("L", probe.ProbeObject(impl))
	if err != nil {
		c.Inconclusive("faulty-link", i, "NewService: "+err.Error())
		return
	}
	id := service.ServiceID()
	var progress int64
	type sub struct {
		conn   int // index of its server-side stream
		mu     sync.Mutex
		got    []int32
		ticks  []uint64
		closed bool
		cancel func()
	}
	connect := func() (probe.ProbeProxy, int, error) {
		before := fl.count()
		p, _, err := directProbe(addr, id)
		if err != nil {
			return nil, 0, err
		}
		for y := 0; y < 100000 && fl.count() == before; y++ {
			time.Sleep(20 * time.Microsecond)
		}
		if fl.count() != before+1 {
			return nil, 0, fmt.Errorf("accepted connections: %d -> %d", before, fl.count())
		}
		return p, before, nil
	}
	statsOn := rng.Intn(3) == 0
	resubscribed := 0
	subscribe := func() (*sub, error) {
		p, conn, err := connect()
		if err != nil {
			return nil, err
		}
		if statsOn && rng.Intn(2) == 0 {
			// the generic statistics switch of the object (every incoming message then travels in a
			// per-message wrapper of its connection)
			p.EnableStats(true)
		}
		// the registration order of the two subscriptions of a subscriber varies
		var tch chan uint64
		if rng.Intn(2) == 0 {
			if _, tch, err = p.SubscribeTick(); err != nil {
				return nil, err
			}
		}
		cancel, ch, err := p.SubscribeLevel()
		if err != nil {
			return nil, err
		}
		if rng.Intn(3) == 0 {
			// subscribe, cancel, subscribe again on the same connection: still ONE subscription
			cancel()
			for range ch {
			}
			cancel, ch, err = p.SubscribeLevel()
			if err != nil {
				return nil, err
			}
			resubscribed++
		}
		s := &sub{conn: conn, cancel: cancel}
		// the same subscriber also listens to the signal tick
		if tch == nil {
			if _, tch, err = p.SubscribeTick(); err != nil {
				return nil, err
			}
		}
		go func() {
			for v := range tch {
				s.mu.Lock()
				s.ticks = append(s.ticks, v)
				s.mu.Unlock()
				atomic.AddInt64(&progress, 1)
			}
		}()
		go func() {
			for v := range ch {
				s.mu.Lock()
				s.got = append(s.got, v)
				s.mu.Unlock()
				atomic.AddInt64(&progress, 1)
			}
			s.mu.Lock()
			s.closed = true
			s.mu.Unlock()
		}()
		return s, nil
	}
	n := 2 + rng.Intn(4)
	subs := make([]*sub, 0, n+1)
	tickBase := map[int]int{} // emissions made before subscriber k joined
	for k := 0; k < n; k++ {
		s, err := subscribe()
		if err != nil {
			c.Inconclusive("faulty-link", i, "subscribe: "+err.Error())
			return
		}
		subs = append(subs, s)
	}
	writer, _, err := connect()
	if err != nil {
		c.Inconclusive("faulty-link", i, "writer: "+err.Error())
		return
	}
	victim := rng.Intn(n) // position in registration order
	healthyBefore := rng.Intn(4)
	var accepted []int32
	var emitted []uint64
	tickSeq := uint64(rng.Intn(1000))
	last := impl.InitLevel
	next := int32(1000 + rng.Intn(1000))
	detail := map[string]interface{}{"subscribers": n, "failing_link_is_subscriber": victim}
	var trace []string
	step := func() bool {
		switch x := rng.Intn(10); {
		case x < 4: // client write, valid (now and then the value that is already stored)
			v := next + 1
			if rng.Intn(4) == 0 && len(accepted) > 0 {
				v = last
			} else {
				next++
			}
			err := writer.SetLevel(v)
			accepted, last = append(accepted, v), v
			trace = append(trace, fmt.Sprintf("SetLevel(%d) -> %v", v, err))
		case x < 6: // service-side update (now and then of the value that is already stored: still a write)
			v := next + 1
			if rng.Intn(3) == 0 && len(accepted) > 0 {
				v = last
			} else {
				next++
			}
			err := impl.Helper.UpdateLevel(v)
			accepted, last = append(accepted, v), v
			trace = append(trace, fmt.Sprintf("service UpdateLevel(%d) -> %v", v, err))
		case x < 8 && x >= 6: // rejected by the validator
			v := -1 - int32(rng.Intn(100))
			err := writer.SetLevel(v)
			trace = append(trace, fmt.Sprintf("SetLevel(%d) -> %v", v, err))
			if err == nil {
				detail["trace"] = trace
				c.Viol("faulty-link", i, "write=invalid-accepted", fmt.Sprintf("SetLevel(%d) was not refused", v), detail)
				return false
			}
		case x == 8: // the service emits the signal tick
			tickSeq++
			err := impl.Helper.SignalTick(tickSeq)
			emitted = append(emitted, tickSeq)
			trace = append(trace, fmt.Sprintf("service SignalTick(%d) -> %v", tickSeq, err))
		default:
			got, err := writer.GetLevel()
			trace = append(trace, fmt.Sprintf("GetLevel() -> %d %v", got, err))
			if err != nil || got != last {
				detail["trace"] = trace
				c.Viol("faulty-link", i, "read=stale", fmt.Sprintf("GetLevel returned %d %v, the last accepted write is %d", got, err, last), detail)
				return false
			}
		}
		atomic.AddInt64(&progress, 1)
		return true
	}
	for k := 0; k < healthyBefore; k++ {
		if !step() {
			return
		}
	}
	left := -1 // a subscriber that cancelled during a stalled fan-out: not judged afterwards
	if mode := rng.Intn(4); mode == 0 {
		victim = -1 // no link fails in this history
		detail["failing_link_is_subscriber"] = "none"
	} else if mode == 1 && n >= 3 && victim < n-2 {
		// the link towards the victim stalls in the middle of a fan-out (its peer stopped reading); while the
		// service is blocked there, a subscriber registered AFTER it cancels; then the link recovers: everybody
		// else still gets that write exactly once
		fs := fl.streams[subs[victim].conn]
		atomic.StoreInt32(&fs.fail, 2)
		next++
		v := next
		upd := make(chan error, 1)
		go func() { upd <- impl.Helper.UpdateLevel(v) }()
		for y := 0; y < 100000 && atomic.LoadInt32(&fs.blocked) == 0; y++ {
			time.Sleep(20 * time.Microsecond)
		}
		stalled := atomic.LoadInt32(&fs.blocked) > 0
		left = victim + 1
		subs[left].cancel()
		atomic.StoreInt32(&fs.fail, 0)
		close(fs.release)
		<-upd
		accepted, last = append(accepted, v), v
		trace = append(trace, fmt.Sprintf("-- service UpdateLevel(%d) while the link towards subscriber %d was stalled (%v); subscriber %d cancelled meanwhile", v, victim, stalled, left))
		detail["failing_link_is_subscriber"] = fmt.Sprintf("%d (stalled during one fan-out)", victim)
		if stalled {
			c.Count("fan_outs_stalled_while_a_later_subscriber_cancelled", 1)
		}
		victim = -1
	} else {
		atomic.StoreInt32(&fl.streams[subs[victim].conn].fail, 1)
		trace = append(trace, fmt.Sprintf("-- link towards subscriber %d refuses writes from here on", victim))
	}
	if rng.Intn(2) == 0 {
		// a subscriber that joins while the link is failing
		s, err := subscribe()
		if err != nil {
			c.Inconclusive("faulty-link", i, "late subscribe: "+err.Error())
			return
		}
		s.got = append([]int32{}, accepted...) // it is only owed what follows
		tickBase[len(subs)] = len(emitted)
		subs = append(subs, s)
		trace = append(trace, "-- one more subscriber joins")
	}
	ops := 4 + rng.Intn(14)
	for k := 0; k < ops; k++ {
		if !step() {
			return
		}
	}
	detail["trace"] = trace
	complete := func() bool {
		for k, s := range subs {
			if k == victim || k == left {
				continue
			}
			s.mu.Lock()
			g, t := len(s.got), len(s.ticks)
			s.mu.Unlock()
			if g < len(accepted) || t < len(emitted)-tickBase[k] {
				return false
			}
		}
		return true
	}
	v, _ := stuck.WaitFunc(complete, &progress, 3*time.Minute)
	if v == stuck.Watchdog {
		c.Inconclusive("faulty-link", i, "watchdog")
		return
	}
	for k, s := range subs {
		if k == victim || k == left {
			continue
		}
		s.mu.Lock()
		got := append([]int32{}, s.got...)
		ticks := append([]uint64{}, s.ticks...)
		s.mu.Unlock()
		wantTicks := emitted[tickBase[k]:]
		if len(ticks) < len(wantTicks) {
			c.Viol("faulty-link", i, "signal=missing/other-link-failing", fmt.Sprintf("subscriber %d (healthy link) received %d of the %d emissions of the signal: got %v want %v", k, len(ticks), len(wantTicks), ticks, wantTicks), detail)
			return
		}
		for j := range ticks {
			if j >= len(wantTicks) || ticks[j] != wantTicks[j] {
				c.Viol("faulty-link", i, "signal=wrong-or-duplicate/other-link-failing", fmt.Sprintf("subscriber %d (healthy link) received the emissions %v, emitted were %v", k, ticks, wantTicks), detail)
				return
			}
		}
		if len(got) < len(accepted) {
			c.Viol("faulty-link", i, "event=missing/other-link-failing", fmt.Sprintf("subscriber %d (healthy link) received %d change events, %d writes were accepted: got %v want %v", k, len(got), len(accepted), got, accepted), detail)
			return
		}
		for j := range got {
			if j >= len(accepted) || got[j] != accepted[j] {
				c.Viol("faulty-link", i, "event=wrong-or-duplicate/other-link-failing", fmt.Sprintf("subscriber %d (healthy link) received %v, the accepted writes are %v", k, got, accepted), detail)
				return
			}
		}
	}
	c.Count("faulty_link_histories", 1)
	c.Count("subscribers_that_cancelled_and_subscribed_again", int64(resubscribed))
	if statsOn {
		c.Count("histories_with_object_statistics_enabled", 1)
	}
	c.Count("faulty_link_accepted_writes", int64(len(accepted)))
	if len(accepted) > healthyBefore {
		c.Nontrivial(wk.Hash64("C14faulty", i))
	}
	if c.WantSample() && i%20 == 0 {
		c.Sample(map[string]interface{}{"stream": "faulty-link", "subscribers": len(subs), "failing_link_is_subscriber": victim, "accepted_writes": len(accepted), "operations": len(trace)})
	}
}
