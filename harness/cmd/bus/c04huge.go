package main

import (
	"fmt"
	"math/rand"
	"strings"
	"sync/atomic"
	"time"

	"verif/stuck"
	"verif/svc"
	"verif/wk"
)

// c04huge: calls whose arguments fit in a message but whose RESULT is around the size limits (a string of
// exactly the maximal length, a reply payload a few bytes over the message limit). Whatever the layers
// decide, the call returns exactly one outcome: its own result or an error; it never hangs.
func c04huge(c *wk.Ctx, i int, rng *rand.Rand) {
	w, err := newWorld([]string{"unix", "tcp"}[i%2], nil)
	if err != nil {
		c.Inconclusive("huge", i, "world: "+err.Error())
		return
	}
	defer w.close()
	ps, err := w.addProbe("H", 1, nil)
	if err != nil {
		c.Inconclusive("huge", i, "addProbe: "+err.Error())
		return
	}
	const limit = 10 * 1024 * 1024
	// result = "<token>:<len(arg)>:" + arg; pick len(arg) so that the result is limit+delta bytes long
	delta := []int{-6, -4, -3, -1, 0, 1, -4096}[i%7]
	token := uint64(7 + i)
	argLen := limit + delta
	for k := 0; k < 4; k++ {
		argLen = limit + delta - len(fmt.Sprintf("%d:%d:", token, argLen))
	}
	arg := strings.Repeat("h", argLen)
	want := svc.F(token, arg)
	detail := map[string]interface{}{"argument_bytes": argLen, "result_bytes": len(want), "reply_payload_bytes": len(want) + 4, "limit": limit}
	var progress int64
	type out struct {
		res string
		err error
	}
	results := make(chan out, 2)
	done := make(chan struct{})
	go func() {
		defer close(done)
		sess, err := w.session()
		if err != nil {
			results <- out{"", fmt.Errorf("session: %v", err)}
			return
		}
		defer sess.Terminate()
		p, err := proxyFor(sess, ps, ps.objs[0])
		for try := 0; err != nil && try < 2000; try++ {
			time.Sleep(time.Millisecond)
			p, err = proxyFor(sess, ps, ps.objs[0])
		}
		if err != nil {
			results <- out{"", fmt.Errorf("proxy: %v", err)}
			return
		}
		res, err := p.Work(token, arg)
		atomic.AddInt64(&progress, 1)
		results <- out{res, err}
	}()
	v, dump := stuck.Wait(done, &progress, 4*time.Minute)
	if v == stuck.Stuck {
		detail["dump"] = clipDump(dump)
		c.Viol("huge", i, "call=never-returned/huge-result", fmt.Sprintf("a call whose result is %d bytes long (limit %d) never returned: no outcome", len(want), limit), detail)
		c.Abandon("call blocked")
		return
	}
	if v == stuck.Watchdog {
		c.Inconclusive("huge", i, "watchdog")
		return
	}
	o := <-results
	ex := ps.objs[0].impl.ExecCount(token)
	detail["executed"], detail["error"] = ex, fmt.Sprint(o.err)
	switch {
	case o.err == nil && o.res != want:
		c.Viol("huge", i, "result=not-own/huge-result", fmt.Sprintf("the call returned %d bytes that are not its own result", len(o.res)), detail)
	case o.err == nil && ex != 1:
		c.Viol("huge", i, fmt.Sprintf("exec=%d-for-success/huge-result", ex), "a successful call did not run the method exactly once", detail)
	case ex > 1:
		c.Viol("huge", i, "exec=more-than-once/huge-result", "the method ran more than once", detail)
	default:
		c.Count("huge_result_calls", 1)
		if o.err == nil {
			c.Count("huge_result_calls_succeeded", 1)
		}
		c.Nontrivial(wk.Hash64("C04huge", i%14))
	}
}
