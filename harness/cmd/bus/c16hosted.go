package main

import (
	"fmt"
	"math/rand"
	"sync"
	"sync/atomic"
	"time"

	"github.com/lugu/qiloop/bus"
	qnet "github.com/lugu/qiloop/bus/net"

	"verif/gen/probe"
	"verif/stuck"
	"verif/svc"
	"verif/wk"
)

// c16hosted: objects hosted on the CLIENT side of a connection: bus.NewServiceReference, the
// bus.Service behind Proxy.ProxyService and every generated CreateXxx helper (bus/service_reference.go).
// One end of an in-memory connection hosts freshly generated Helper objects, the other end is a real
// bus.Client calling them. Additions are sequential and concurrent, some from inside another object's
// activation (nested Add), some with an activation that reports an error. Removals: Service.Remove,
// remote terminate(), the object ending itself from inside a method. Oracle as for server-side objects:
// identifiers returned by successful Add calls are unique among the live objects; a call reaches
// exactly the object it addresses; after an acknowledged removal the hook has run exactly once, a
// later call is answered with an error (decided by the quiescence detector, not a timeout) and does
// not reach the object; the other objects keep answering and their hooks have not run.
type hostedObj struct {
	im      *svc.HelperImpl
	id      uint32
	px      probe.HelperProxy
	removed bool
	how     string
	via     bus.Service
}

func c16hosted(c *wk.Ctx, i int, rng *rand.Rand) {
	a, b := qnet.Pipe()
	defer a.Close()
	defer b.Close()
	serviceID := uint32(2 + rng.Intn(60))
	service := bus.NewServiceReference(nil, a, serviceID)
	// one plan in three: TWO references to the same service on the same connection (what two calls of
	// Proxy.ProxyService give); objects are added through either of them
	services := []bus.Service{service}
	if rng.Intn(3) == 0 {
		services = append(services, bus.NewServiceReference(nil, a, serviceID))
	}
	client := bus.NewClient(bus.NewContext(b))
	var progress int64
	var mu sync.Mutex
	var objs []*hostedObj
	seq := 0
	detail := map[string]interface{}{"service": serviceID, "references_to_the_service": len(services)}

	// wait runs f in a goroutine and waits for it with the quiescence detector
	wait := func(what string, f func()) bool {
		done := make(chan struct{})
		go func() { defer close(done); f(); atomic.AddInt64(&progress, 1) }()
		v, dump := stuck.Wait(done, &progress, 3*time.Minute)
		if v == stuck.Stuck {
			detail["dump"] = clipDump(dump)
			c.Viol("hosted", i, what+"/hosted/"+wk.PanicSite(dump), "an operation on client-hosted objects never returned: "+what, detail)
			c.Abandon("operation blocked")
			return false
		}
		if v == stuck.Watchdog {
			c.Inconclusive("hosted", i, "watchdog")
			return false
		}
		return true
	}

	add := func(r *rand.Rand) {
		mu.Lock()
		seq++
		name := fmt.Sprintf("o%d", seq)
		mu.Unlock()
		kind := r.Intn(20)
		nested, failing := kind >= 12 && kind < 18, kind >= 15
		im := svc.NewHelper(name)
		var child *hostedObj
		if nested || failing {
			im.ActivateHook = func(act bus.Activation) error {
				if nested {
					cim := svc.NewHelper(name + ".child")
					if id, err := act.Service.Add(probe.HelperObject(cim)); err == nil {
						child = &hostedObj{im: cim, id: id, via: act.Service}
					}
				}
				if failing {
					return fmt.Errorf("activation refused")
				}
				return nil
			}
		}
		via := services[r.Intn(len(services))]
		id, err := via.Add(probe.HelperObject(im))
		mu.Lock()
		if err == nil {
			objs = append(objs, &hostedObj{im: im, id: id, via: via})
		}
		if child != nil {
			objs = append(objs, child)
		}
		if failing {
			c.Count("hosted_additions_with_failing_activation", 1)
		}
		if nested {
			c.Count("hosted_additions_nested_in_an_activation", 1)
		}
		mu.Unlock()
	}

	live := func() []*hostedObj {
		var l []*hostedObj
		for _, o := range objs {
			if !o.removed {
				l = append(l, o)
			}
		}
		return l
	}
	unique := func(when string) bool {
		seen := map[uint32]*hostedObj{}
		for _, o := range live() {
			if p, dup := seen[o.id]; dup {
				detail["when"] = when
				c.Viol("hosted", i, "add=identifier-shared/hosted", fmt.Sprintf("live client-hosted objects %s and %s share the identifier %d", p.im.Name, o.im.Name, o.id), detail)
				return false
			}
			seen[o.id] = o
		}
		return true
	}
	var tokenSeq uint64
	// callAll calls every live object at the same moment; each must answer its own call, and only it ran it
	callAll := func(when string) bool {
		l := live()
		type res struct {
			out string
			err error
		}
		rs := make([]res, len(l))
		toks := make([]uint64, len(l))
		args := make([]string, len(l))
		okProxies := true
		if !wait("proxy=never-returned", func() {
			for _, o := range l {
				if o.px == nil {
					meta, err := bus.GetMetaObject(client, serviceID, o.id)
					if err != nil {
						detail["when"] = when
						c.Viol("hosted", i, "live=not-callable/hosted", fmt.Sprintf("the meta object of live client-hosted object %s (id %d) cannot be read: %v", o.im.Name, o.id, err), detail)
						okProxies = false
						return
					}
					o.px = probe.MakeHelper(nil, bus.NewProxy(client, meta, serviceID, o.id))
				}
			}
		}) || !okProxies {
			return false
		}
		start := make(chan struct{})
		var wg sync.WaitGroup
		for k, o := range l {
			tokenSeq++
			toks[k], args[k] = tokenSeq, genArg(rng, false)
			wg.Add(1)
			go func(k int, o *hostedObj) {
				defer wg.Done()
				<-start
				rs[k].out, rs[k].err = o.px.Assist(toks[k], args[k])
				atomic.AddInt64(&progress, 1)
			}(k, o)
		}
		if !wait("live=call-never-answered", func() { close(start); wg.Wait() }) {
			return false
		}
		detail["when"] = when
		for k, o := range l {
			if rs[k].err != nil {
				c.Viol("hosted", i, "live=call-failed/hosted", fmt.Sprintf("a call to live client-hosted object %s (id %d) failed: %v", o.im.Name, o.id, rs[k].err), detail)
				return false
			}
			if want := svc.HF(o.im.Name, toks[k], args[k]); rs[k].out != want {
				c.Viol("hosted", i, "live=wrong-answer/hosted", fmt.Sprintf("a call to client-hosted object %s (id %d) returned %q, want %q", o.im.Name, o.id, clipS(rs[k].out), clipS(want)), detail)
				return false
			}
			for _, p := range objs {
				n := p.im.ExecCount(toks[k])
				if p == o && n != 1 {
					c.Viol("hosted", i, fmt.Sprintf("live=ran-%d-times/hosted", n), fmt.Sprintf("a successful call to client-hosted object %s ran its method %d times", o.im.Name, n), detail)
					return false
				}
				if p != o && n != 0 {
					c.Viol("hosted", i, "call=ran-other-object/hosted", fmt.Sprintf("a call addressed to client-hosted object %s (id %d) invoked object %s (id %d, removed=%v)", o.im.Name, o.id, p.im.Name, p.id, p.removed), detail)
					return false
				}
			}
		}
		c.Count("calls_to_client_hosted_objects", int64(len(l)))
		return true
	}

	// 1. sequential additions
	for k := 2 + rng.Intn(5); k > 0; k-- {
		if !wait("add=never-returned", func() { add(rng) }) {
			return
		}
	}
	// 2. concurrent additions
	{
		g := 2 + rng.Intn(3)
		start := make(chan struct{})
		var wg sync.WaitGroup
		for k := 0; k < g; k++ {
			r := rand.New(rand.NewSource(rng.Int63()))
			wg.Add(1)
			go func() {
				defer wg.Done()
				<-start
				for n := 1 + r.Intn(3); n > 0; n-- {
					add(r)
				}
			}()
		}
		if !wait("add=never-returned", func() { close(start); wg.Wait() }) {
			return
		}
	}
	if len(live()) < 2 {
		c.Inconclusive("hosted", i, "fewer than two objects were added")
		return
	}
	if !unique("after the additions") || !callAll("after the additions") {
		return
	}
	// 3. removals, a few of them at the same moment
	l := live()
	rng.Shuffle(len(l), func(x, y int) { l[x], l[y] = l[y], l[x] })
	nrm := 1 + rng.Intn(len(l)-1)
	victims := l[:nrm]
	errs := make([]error, nrm)
	for k, o := range victims {
		o.how = []string{"Service.Remove", "remote terminate", "the object ending itself"}[rng.Intn(3)]
		if o.how == "the object ending itself" {
			tokenSeq++
			o.im.SetQuitOn(tokenSeq + 1<<40)
		}
		_ = k
	}
	removeOne := func(k int, o *hostedObj) {
		switch o.how {
		case "Service.Remove":
			errs[k] = o.via.Remove(o.id)
		case "remote terminate":
			errs[k] = o.px.Terminate(o.id)
		default:
			_, errs[k] = o.px.Assist(o.im.GetQuitOn(), "quit")
		}
		atomic.AddInt64(&progress, 1)
	}
	if rng.Intn(2) == 0 {
		start := make(chan struct{})
		var wg sync.WaitGroup
		for k, o := range victims {
			wg.Add(1)
			go func(k int, o *hostedObj) { defer wg.Done(); <-start; removeOne(k, o) }(k, o)
		}
		detail["removals"] = "concurrent"
		if !wait("remove=never-returned", func() { close(start); wg.Wait() }) {
			return
		}
	} else {
		detail["removals"] = "sequential"
		for k, o := range victims {
			k, o := k, o
			if !wait("remove=never-returned", func() { removeOne(k, o) }) {
				return
			}
		}
	}
	for k, o := range victims {
		if errs[k] != nil {
			c.Viol("hosted", i, "remove=error/hosted", fmt.Sprintf("%s of live client-hosted object %s (id %d) failed: %v", o.how, o.im.Name, o.id, errs[k]), detail)
			return
		}
		o.removed = true
	}
	// the hook of every removed object has run (the acknowledgement of a remote terminate may precede it: wait for quiescence)
	for _, o := range victims {
		o := o
		if v, _ := stuck.WaitFunc(func() bool { return o.im.Terminated() >= 1 }, &progress, 3*time.Minute); v == stuck.Watchdog {
			c.Inconclusive("hosted", i, "watchdog")
			return
		}
		if n := o.im.Terminated(); n != 1 {
			c.Viol("hosted", i, fmt.Sprintf("removed=terminated-%d-times/hosted", n), fmt.Sprintf("after the acknowledged removal (%s) of client-hosted object %s its termination hook has run %d times", o.how, o.im.Name, n), detail)
			return
		}
	}
	// 4. a later call to a removed object is answered with an error and does not reach it
	for _, o := range victims {
		o := o
		tokenSeq++
		tok := tokenSeq
		var out string
		var err error
		detail["removal"] = o.how
		if !wait("removed=call-never-answered", func() { out, err = o.px.Assist(tok, "late") }) {
			return
		}
		for _, p := range objs {
			if n := p.im.ExecCount(tok); n != 0 {
				c.Viol("hosted", i, "removed=invoked/hosted", fmt.Sprintf("a call addressed to removed client-hosted object %s (id %d, %s) invoked object %s", o.im.Name, o.id, o.how, p.im.Name), detail)
				return
			}
		}
		if err == nil {
			c.Viol("hosted", i, "removed=call-succeeded/hosted", fmt.Sprintf("a call to removed client-hosted object %s (id %d, %s) returned %q", o.im.Name, o.id, o.how, clipS(out)), detail)
			return
		}
	}
	delete(detail, "removal")
	// 5. the others are not affected; new objects can be added and get identifiers unique among the live ones
	if !callAll("after the removals") {
		return
	}
	for k := 1 + rng.Intn(3); k > 0; k-- {
		if !wait("add=never-returned", func() { add(rng) }) {
			return
		}
	}
	if !unique("after removals and new additions") || !callAll("after removals and new additions") {
		return
	}
	for _, o := range objs {
		want := 0
		if o.removed {
			want = 1
		}
		if n := o.im.Terminated(); n != want {
			c.Viol("hosted", i, fmt.Sprintf("hook=ran-%d-times-want-%d/hosted", n, want), fmt.Sprintf("at the end the termination hook of client-hosted object %s (removed=%v) has run %d times", o.im.Name, o.removed, n), detail)
			return
		}
	}
	c.Count("client_hosted_objects_removed", int64(nrm))
	c.Eval(len(objs))
	c.Nontrivial(wk.Hash64("C16hosted", i))
	if c.WantSample() && i%10 == 0 {
		c.Sample(map[string]interface{}{"stream": "hosted", "objects": len(objs), "removed": nrm, "removals": detail["removals"]})
	}
}
