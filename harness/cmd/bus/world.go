package main

import (
	"bytes"
	"encoding/binary"
	"fmt"
	"io"
	gonet "net"
	"strings"
	"sync"
	"sync/atomic"
	"time"

	"github.com/lugu/qiloop/bus"
	"github.com/lugu/qiloop/bus/directory"
	qnet "github.com/lugu/qiloop/bus/net"
	"github.com/lugu/qiloop/bus/session"
	"github.com/lugu/qiloop/type/object"

	"verif/gen/probe"
	rc "verif/refcodec"
	"verif/svc"
)

// world is one in-process bus: a directory server plus Probe services.
type world struct {
	addr   string
	server bus.Server
	svcs   []*probeService
}

type probeService struct {
	name    string
	id      uint32
	service bus.Service
	objs    []*probeObject
}

type probeObject struct {
	id   uint32
	impl *svc.Impl
}

func newWorld(transport string, auth bus.Authenticator) (*world, error) {
	addr := newAddr(transport)
	srv, err := directory.NewServer(addr, auth)
	if err != nil {
		return nil, err
	}
	return &world{addr: addr, server: srv}, nil
}

// addProbe hosts a Probe service with nObjects objects (object 1 is the service object).
func (w *world) addProbe(name string, nObjects int, prep func(*svc.Impl)) (*probeService, error) {
	impl := svc.NewImpl(name + "#1")
	if prep != nil {
		prep(impl)
	}
	s, err := w.server.NewService(name, probe.ProbeObject(impl))
	if err != nil {
		return nil, err
	}
	ps := &probeService{name: name, id: s.ServiceID(), service: s}
	ps.objs = append(ps.objs, &probeObject{1, impl})
	for k := 1; k < nObjects; k++ {
		im := svc.NewImpl(fmt.Sprintf("%s#obj%d", name, k))
		if prep != nil {
			prep(im)
		}
		id, err := s.Add(probe.ProbeObject(im))
		if err != nil {
			return nil, err
		}
		ps.objs = append(ps.objs, &probeObject{id, im})
	}
	w.svcs = append(w.svcs, ps)
	return ps, nil
}

func (w *world) session() (bus.Session, error) { return session.NewSession(w.addr) }

func (w *world) close() {
	w.server.Terminate()
}

// proxyFor returns a generated Probe proxy for (service, object) through sess.
func proxyFor(sess bus.Session, ps *probeService, obj *probeObject) (probe.ProbeProxy, error) {
	p, err := sess.Proxy(ps.name, obj.id)
	if err != nil {
		return nil, err
	}
	if atomic.AddInt64(&proxyForCount, 1)%3 == 0 {
		// one proxy in three is obtained the way a proxy for an object received in a message is: from an
		// object reference (service id, object id, meta object) through Session.Object
		p2, err := sess.Object(bus.ObjectReference(p))
		if err != nil {
			return nil, fmt.Errorf("Session.Object(reference to %s/%d): %v", ps.name, obj.id, err)
		}
		atomic.AddInt64(&proxyViaRef, 1)
		p = p2
	}
	return probe.MakeProbe(sess, p), nil
}

var proxyForCount, proxyViaRef int64

// rawConn is a harness-owned connection speaking the documented wire format.
type rawConn struct {
	c      gonet.Conn
	mu     sync.Mutex // writes
	nextID uint32
	rbuf   []byte
	// wt > 0: a write gives up after wt (a hostile client that does not read its replies and whose own
	// write stalls against a server that is itself blocked writing to it must not wait for ever)
	wt time.Duration
}

type rawFrame struct {
	H rc.Header
	P []byte
}

func dialRaw(addr string) (*rawConn, error) {
	var c gonet.Conn
	var err error
	switch {
	case strings.HasPrefix(addr, "unix://"):
		c, err = gonet.Dial("unix", strings.TrimPrefix(addr, "unix://"))
	case strings.HasPrefix(addr, "tcp://"):
		c, err = gonet.Dial("tcp", strings.TrimPrefix(addr, "tcp://"))
	default:
		return nil, fmt.Errorf("raw dial: unsupported %s", addr)
	}
	if err != nil {
		return nil, err
	}
	return &rawConn{c: c, nextID: 1000}, nil
}

func (r *rawConn) id() uint32 {
	r.mu.Lock()
	defer r.mu.Unlock()
	r.nextID += 2
	return r.nextID
}

func (r *rawConn) sendBytes(b []byte) error {
	r.mu.Lock()
	defer r.mu.Unlock()
	if r.wt > 0 {
		r.c.SetWriteDeadline(time.Now().Add(r.wt))
	}
	_, err := r.c.Write(b)
	return err
}

func (r *rawConn) send(typ uint8, service, obj, action, id uint32, payload []byte) error {
	return r.sendBytes(rc.Frame(rc.Header{Magic: rc.Magic, ID: id, Type: typ, Service: service, Object: obj, Action: action}, payload))
}

// recv reads one frame (deadline d; zero = none). io.EOF when the server closed.
func (r *rawConn) recv(d time.Duration) (rawFrame, error) {
	if d > 0 {
		r.c.SetReadDeadline(time.Now().Add(d))
	} else {
		r.c.SetReadDeadline(time.Time{})
	}
	hdr := make([]byte, 28)
	if _, err := io.ReadFull(r.c, hdr); err != nil {
		return rawFrame{}, err
	}
	h := rc.ParseHeader(hdr)
	if h.Magic != rc.Magic || h.Size > 64<<20 {
		return rawFrame{}, fmt.Errorf("raw: bad frame from server: %+v", h)
	}
	p := make([]byte, h.Size)
	if _, err := io.ReadFull(r.c, p); err != nil {
		return rawFrame{}, err
	}
	return rawFrame{h, p}, nil
}

func (r *rawConn) close() { r.c.Close() }

// capMap encodes a capability map {s m} from string / uint32 / int32 / bool entries (in order).
func capMap(entries ...interface{}) []byte {
	var b bytes.Buffer
	binary.Write(&b, binary.LittleEndian, uint32(len(entries)/2))
	for i := 0; i+1 < len(entries); i += 2 {
		k := entries[i].(string)
		binary.Write(&b, binary.LittleEndian, uint32(len(k)))
		b.WriteString(k)
		switch v := entries[i+1].(type) {
		case string:
			b.Write(rc.Encode(rc.T(rc.Dyn), rc.DynV{T: rc.T(rc.String), V: v}))
		case uint32:
			b.Write(rc.Encode(rc.T(rc.Dyn), rc.DynV{T: rc.T(rc.Uint32), V: v}))
		case int32:
			b.Write(rc.Encode(rc.T(rc.Dyn), rc.DynV{T: rc.T(rc.Int32), V: v}))
		case bool:
			b.Write(rc.Encode(rc.T(rc.Dyn), rc.DynV{T: rc.T(rc.Bool), V: v}))
		case []byte:
			b.Write(v)
		}
	}
	return b.Bytes()
}

// authenticate performs the documented authenticate call; ok iff the server answers with state done (3).
func (r *rawConn) authenticate(user, token string) (bool, error) {
	id := r.id()
	entries := []interface{}{"ClientServerSocket", true}
	if user != "" {
		entries = append(entries, "auth_user", user)
	}
	if token != "" {
		entries = append(entries, "auth_token", token)
	}
	if err := r.send(qnet.Call, 0, 0, object.AuthenticateActionID, id, capMap(entries...)); err != nil {
		return false, err
	}
	for {
		f, err := r.recv(20 * time.Second)
		if err != nil {
			return false, err
		}
		if f.H.ID != id {
			continue
		}
		if f.H.Type != qnet.Reply {
			return false, nil
		}
		v, _, err := rc.Decode(rc.MapOf(rc.T(rc.String), rc.T(rc.Dyn)), f.P)
		if err != nil {
			return false, fmt.Errorf("authenticate reply: %v", err)
		}
		for _, kv := range v.([]rc.KV) {
			if kv.K.(string) == "__qi_auth_state" {
				d := kv.V.(rc.DynV)
				switch x := d.V.(type) {
				case uint32:
					return x == 3, nil
				case int32:
					return x == 3, nil
				}
			}
		}
		return false, nil
	}
}

// call sends a Call and waits for the frame carrying its id (other frames are collected).
func (r *rawConn) call(service, obj, action uint32, payload []byte, others *[]rawFrame) (rawFrame, error) {
	id := r.id()
	if err := r.send(qnet.Call, service, obj, action, id, payload); err != nil {
		return rawFrame{}, err
	}
	for {
		f, err := r.recv(60 * time.Second)
		if err != nil {
			return rawFrame{}, err
		}
		if f.H.ID == id && (f.H.Type == qnet.Reply || f.H.Type == qnet.Error) {
			return f, nil
		}
		if others != nil {
			*others = append(*others, f)
		}
	}
}

func workArgs(token uint64, arg string) []byte {
	return rc.Encode(rc.TupleOf(rc.T(rc.Uint64), rc.T(rc.String)), rc.Tup{token, arg})
}

func strResult(p []byte) (string, bool) {
	v, n, err := rc.Decode(rc.T(rc.String), p)
	if err != nil || n != len(p) {
		return "", false
	}
	return v.(string), true
}
