package main

import (
	"bufio"
	"bytes"
	"encoding/binary"
	"encoding/json"
	"fmt"
	"io/ioutil"
	"math/rand"
	"os"
	"os/exec"
	"strconv"
	"strings"
	"sync"
	"syscall"
	"time"

	qnet "github.com/lugu/qiloop/bus/net"

	rc "verif/refcodec"
	"verif/svc"
	"verif/wk"
)

func init() { engines["C12"] = c12 }

// child is the server process under attack.
type child struct {
	cmd     *exec.Cmd
	stdin   *bufio.Writer
	stdinC  interface{ Close() error }
	stdout  *bufio.Reader
	errPath string
	info    serveInfo
	dir     map[string]uint32 // directory action ids
	removed map[[2]uint32]bool
	mu      sync.Mutex
	exited  chan struct{}
	exitErr error
}

var childSeq int

func startChild(c *wk.Ctx) (*child, error) {
	childSeq++
	dir := os.Getenv("TMPDIR")
	if dir == "" {
		dir = "/tmp"
	}
	addr := fmt.Sprintf("unix://%s/srv%d-%d.sock", dir, os.Getpid(), childSeq)
	ch := &child{removed: map[[2]uint32]bool{}, exited: make(chan struct{})}
	ch.errPath = fmt.Sprintf("%s/srv%d-%d.stderr", dir, os.Getpid(), childSeq)
	ef, err := os.Create(ch.errPath)
	if err != nil {
		return nil, err
	}
	ch.cmd = exec.Command(os.Args[0], "serve", addr)
	ch.cmd.Stderr = ef
	in, _ := ch.cmd.StdinPipe()
	out, _ := ch.cmd.StdoutPipe()
	ch.stdin = bufio.NewWriter(in)
	ch.stdinC = in
	ch.stdout = bufio.NewReader(out)
	ch.cmd.Env = append(os.Environ(), "GOTRACEBACK=all")
	if err := ch.cmd.Start(); err != nil {
		return nil, err
	}
	ef.Close()
	go func() { ch.exitErr = ch.cmd.Wait(); close(ch.exited) }()
	type rd struct {
		line string
		err  error
	}
	rdc := make(chan rd, 1)
	go func() {
		l, e := ch.stdout.ReadString('\n')
		rdc <- rd{l, e}
	}()
	var line string
	select {
	case r := <-rdc:
		line, err = r.line, r.err
	case <-time.After(90 * time.Second):
		// a server that cannot even start is reported with its goroutine dump (inconclusive for the case)
		ch.cmd.Process.Signal(syscall.SIGQUIT)
		select {
		case <-ch.exited:
		case <-time.After(10 * time.Second):
		}
		se := ch.stderr()
		if len(se) > 3000 {
			se = se[:3000]
		}
		ch.kill()
		return nil, fmt.Errorf("server child did not announce READY within 90s; its goroutines: %s", se)
	}
	if err != nil || !strings.HasPrefix(line, "READY ") {
		ch.kill()
		return nil, fmt.Errorf("server child did not start: %q %v", line, err)
	}
	if err := json.Unmarshal([]byte(strings.TrimPrefix(strings.TrimSpace(line), "READY ")), &ch.info); err != nil {
		ch.kill()
		return nil, err
	}
	// directory action ids
	rcn, err := dialRaw(ch.info.Addr)
	if err != nil {
		ch.kill()
		return nil, err
	}
	defer rcn.close()
	if ok, err := rcn.authenticate("", ""); !ok {
		ch.kill()
		return nil, fmt.Errorf("authenticate: %v", err)
	}
	ch.dir, err = rawMethods(rcn, 1, 1)
	if err != nil {
		ch.kill()
		return nil, err
	}
	return ch, nil
}

func rawMethods(r *rawConn, service, obj uint32) (map[string]uint32, error) {
	var p bytes.Buffer
	binary.Write(&p, binary.LittleEndian, obj)
	f, err := r.call(service, obj, 2, p.Bytes(), nil)
	if err != nil {
		return nil, err
	}
	if f.H.Type != qnet.Reply {
		return nil, fmt.Errorf("metaObject refused")
	}
	v, _, err := rc.Decode(rc.MetaObjectType, f.P)
	if err != nil {
		return nil, err
	}
	out := map[string]uint32{}
	for _, kv := range v.(rc.Tup)[0].([]rc.KV) {
		mm := kv.V.(rc.Tup)
		out[mm[2].(string)] = kv.K.(uint32)
	}
	return out, nil
}

func (ch *child) alive() bool {
	select {
	case <-ch.exited:
		return false
	default:
		return true
	}
}

func (ch *child) kill() {
	if ch.alive() {
		ch.cmd.Process.Kill()
		<-ch.exited
	}
	ch.stdinC.Close()
}

func (ch *child) stderr() string {
	b, _ := ioutil.ReadFile(ch.errPath)
	return string(b)
}

// state asks the child whether it is quiescent ("" on failure).
func (ch *child) state() (string, string) {
	ch.mu.Lock()
	defer ch.mu.Unlock()
	if !ch.alive() {
		return "DEAD", ""
	}
	ch.stdin.WriteString("STATE?\n")
	if ch.stdin.Flush() != nil {
		return "DEAD", ""
	}
	type res struct{ line string }
	rch := make(chan res, 1)
	go func() {
		l, _ := ch.stdout.ReadString('\n')
		rch <- res{l}
	}()
	select {
	case r := <-rch:
		l := strings.TrimSpace(r.line)
		if strings.HasPrefix(l, "QUIESCENT") {
			var dump string
			json.Unmarshal([]byte(strings.TrimPrefix(l, "QUIESCENT ")), &dump)
			return "QUIESCENT", dump
		}
		if l == "BUSY" {
			return "BUSY", ""
		}
		return "DEAD", ""
	case <-ch.exited:
		return "DEAD", ""
	case <-time.After(60 * time.Second):
		return "UNKNOWN", ""
	}
}

// cpu returns the child's consumed CPU time and resident memory (load independent).
func (ch *child) cpu() (time.Duration, int64) {
	b, err := ioutil.ReadFile(fmt.Sprintf("/proc/%d/stat", ch.cmd.Process.Pid))
	if err != nil {
		return 0, 0
	}
	s := string(b)
	if k := strings.LastIndex(s, ")"); k >= 0 {
		f := strings.Fields(s[k+1:])
		if len(f) > 21 {
			ut, _ := strconv.ParseInt(f[11], 10, 64)
			st, _ := strconv.ParseInt(f[12], 10, 64)
			rss, _ := strconv.ParseInt(f[21], 10, 64)
			return time.Duration(ut+st) * 10 * time.Millisecond, rss * 4096
		}
	}
	return 0, 0
}

// hostile moves ------------------------------------------------------------

type attacker struct {
	ch    *child
	rng   *rand.Rand
	conn  *rawConn
	trace []string
	hid   uint64
}

func (a *attacker) logf(f string, args ...interface{}) {
	if len(a.trace) < 200 {
		a.trace = append(a.trace, fmt.Sprintf(f, args...))
	}
}

func (a *attacker) connect() bool {
	if a.conn != nil {
		return true
	}
	rcn, err := dialRaw(a.ch.info.Addr)
	if err != nil {
		return false
	}
	if ok, _ := rcn.authenticate("", ""); !ok {
		rcn.close()
		return false
	}
	rcn.wt = 20 * time.Second // a hostile client whose write stalls gives up and drops the connection
	a.conn = rcn
	a.logf("connect+authenticate")
	return true
}

func (a *attacker) drop() {
	if a.conn != nil {
		a.conn.close()
		a.conn = nil
	}
}

func (a *attacker) target() (uint32, uint32) {
	s := a.ch.info.Services[a.rng.Intn(len(a.ch.info.Services))]
	return s.ID, s.Objects[a.rng.Intn(len(s.Objects))]
}

// send writes a frame; on error the connection is dropped (the server may have closed it).
func (a *attacker) send(typ uint8, service, obj, action uint32, payload []byte) uint32 {
	if !a.connect() {
		return 0
	}
	id := a.conn.id()
	if err := a.conn.send(typ, service, obj, action, id, payload); err != nil {
		a.drop()
	}
	return id
}

// drain reads whatever the server sent, for at most d (bounded: a hostile peer need not read everything).
func (a *attacker) drain(d time.Duration) {
	if a.conn == nil {
		return
	}
	deadline := time.Now().Add(d)
	for {
		left := time.Until(deadline)
		if left <= 0 {
			return
		}
		if _, err := a.conn.recv(left); err != nil {
			if ne, ok := err.(interface{ Timeout() bool }); ok && ne.Timeout() {
				return
			}
			a.drop()
			return
		}
	}
}

func u32(v ...uint32) []byte {
	var b bytes.Buffer
	for _, x := range v {
		binary.Write(&b, binary.LittleEndian, x)
	}
	return b.Bytes()
}

func eventArgs(obj, sig uint32, handler uint64) []byte {
	return rc.Encode(rc.TupleOf(rc.T(rc.Uint32), rc.T(rc.Uint32), rc.T(rc.Uint64)), rc.Tup{obj, sig, handler})
}

func (a *attacker) randomDyn() []byte {
	inner := rc.GenOpts{Depth: 2, Width: 3, ComparableKeys: true, MaxAnonNest: 3}
	t := rc.GenType(a.rng, rc.GenOpts{Depth: 3, Width: 3, Scalars: append(append([]rc.Kind{}, rc.AllScalars...), rc.Dyn), ComparableKeys: true, MaxAnonNest: 3})
	b := 30
	v := rc.GenValue(a.rng, t, rc.ValOpts{MaxLen: 3, MaxStr: 12, Budget: &b, DynDepth: 1, DynOpts: &inner})
	return rc.Encode(rc.T(rc.Dyn), rc.DynV{T: t, V: v})
}

var c12moves = []string{"dup-registerEvent", "conflicting-unregister", "foreign-ids", "wrong-object-ids", "garbage-property", "mutated-directory-call",
	"unknown-targets", "all-message-types", "big-payload", "flood-drain-late", "flood-abrupt-close", "cut-mid-message", "reauthenticate-racing-calls",
	"documented-removal", "mutated-arguments", "subscribe-then-vanish", "hostile-signatures", "garbage-bytes", "stats-and-trace", "terminate-under-flood", "post-flood-subscriptions", "answers-from-a-client", "pipelined-object-references", "truncated-arguments", "own-directory-entries"}

func (a *attacker) move(name string) {
	r := a.rng
	info := a.ch.info
	work := info.Actions["work"]
	tick := info.Actions["signal:tick"]
	switch name {
	case "dup-registerEvent":
		s, o := a.target()
		a.hid++
		h := a.hid
		n := 2 + r.Intn(3)
		for k := 0; k < n; k++ {
			a.send(qnet.Call, s, o, 0, eventArgs(o, tick, h))
		}
		a.logf("registerEvent x%d with the same handler id on %d/%d", n, s, o)
		a.drain(50 * time.Millisecond)
	case "conflicting-unregister":
		s, o := a.target()
		a.send(qnet.Call, s, o, 1, eventArgs(o, tick, r.Uint64()))
		a.hid++
		a.send(qnet.Call, s, o, 0, eventArgs(o, tick, a.hid))
		a.send(qnet.Call, s, o, 1, eventArgs(o, tick+1, a.hid))
		a.send(qnet.Call, s, o, 1, eventArgs(o, tick, a.hid))
		a.send(qnet.Call, s, o, 1, eventArgs(o, tick, a.hid))
		a.logf("unregister unknown / register / unregister twice on %d/%d", s, o)
		a.drain(30 * time.Millisecond)
	case "foreign-ids":
		s, o := a.target()
		_, o2 := a.target()
		a.send(qnet.Call, s, o, 0, eventArgs(o2+7, tick, r.Uint64()))
		a.send(qnet.Call, s, o, 0, eventArgs(0, 0xffffffff, r.Uint64()))
		a.send(qnet.Call, s, o, 8, append(eventArgs(o, tick, r.Uint64()), rc.Encode(rc.T(rc.String), "(((")...))
		a.logf("registerEvent with foreign object / signal ids on %d/%d", s, o)
		a.drain(30 * time.Millisecond)
	case "wrong-object-ids":
		s, o := a.target()
		wrong := o + 1 + uint32(r.Intn(1000))
		if wrong == 0 {
			wrong = 5
		}
		a.send(qnet.Call, s, o, 2, u32(wrong))
		a.send(qnet.Call, s, o, 3, u32(wrong)) // terminate with a wrong id: must not remove anything
		a.send(qnet.Call, s, o, 3, []byte{1, 2})
		a.logf("metaObject/terminate with wrong id %d on %d/%d", wrong, s, o)
		a.drain(30 * time.Millisecond)
	case "garbage-property":
		s, o := a.target()
		a.send(qnet.Call, s, o, 5, a.randomDyn())
		a.send(qnet.Call, s, o, 6, append(a.randomDyn(), a.randomDyn()...))
		a.send(qnet.Call, s, o, 6, append(rc.Encode(rc.T(rc.Dyn), rc.DynV{T: rc.T(rc.String), V: "level"}), a.randomDyn()...))
		a.send(qnet.Call, s, o, 6, append(rc.Encode(rc.T(rc.Dyn), rc.DynV{T: rc.T(rc.Uint32), V: r.Uint32()}), a.randomDyn()...))
		a.send(qnet.Call, s, o, 7, nil)
		// dynamic values whose signature is malformed in the ways a parser is most likely to half-accept
		// (struct definitions with more / fewer names than member types, unbalanced brackets, empty names)
		for _, sig := range []string{"(i)<P,a,b>", "()<P,a>", "(ii)<P,a>", "(i)<,a>", "[(i)<P,a,b>]", "{s(i)<P,a,b>}", "{(i)<P,a,b>i}", "(i)<P<Q>,a,b,c>", "((i)<P,a,b>s)", "[", "{i", "(i)<P"} {
			var pl bytes.Buffer
			binary.Write(&pl, binary.LittleEndian, uint32(len(sig)))
			pl.WriteString(sig)
			pl.Write([]byte{1, 0, 0, 0, 2, 0, 0, 0, 3, 0, 0, 0})
			a.send(qnet.Call, s, o, 5, pl.Bytes())
			a.send(qnet.Call, s, o, 6, append(rc.Encode(rc.T(rc.Dyn), rc.DynV{T: rc.T(rc.String), V: "level"}), pl.Bytes()...))
		}
		a.logf("property/setProperty with random dynamic values and malformed struct signatures on %d/%d", s, o)
		a.drain(30 * time.Millisecond)
	case "mutated-directory-call":
		names := []string{"service", "services", "registerService", "serviceReady", "updateServiceInfo", "machineId", "_socketOfService"}
		nm := names[r.Intn(len(names))]
		act := a.ch.dir[nm]
		b := 20
		v := rc.GenValue(r, serviceInfoT, rc.ValOpts{MaxLen: 3, MaxStr: 12, Budget: &b})
		enc, fields := rc.EncodeFields(serviceInfoT, v)
		if len(fields) > 0 && r.Intn(3) != 0 {
			f := fields[r.Intn(len(fields))]
			binary.LittleEndian.PutUint32(enc[f.Off:], []uint32{0xffffffff, 0x80000000, 0x7fffffff, 1 << 24, f.Val + 1}[r.Intn(5)])
		}
		a.send(qnet.Call, 1, 1, act, enc)
		a.logf("directory.%s with a mutated ServiceInfo", nm)
		a.drain(30 * time.Millisecond)
	case "unknown-targets":
		s, o := a.target()
		p := make([]byte, r.Intn(64))
		r.Read(p)
		a.send(qnet.Call, s, o, 9000+uint32(r.Intn(100)), p)
		a.send(qnet.Call, s, o+12345, work, p)
		a.send(qnet.Call, 4000+uint32(r.Intn(100)), 1, work, p)
		a.send(qnet.Post, s, o, 9000, p)
		a.logf("unknown action / object / service")
		a.drain(30 * time.Millisecond)
	case "all-message-types":
		s, o := a.target()
		for t := uint8(1); t <= 8; t++ {
			a.send(t, s, o, work, workArgs(uint64(r.Int63()), "t"))
			a.send(t, 1, 1, a.ch.dir["services"], nil)
			a.send(t, 0, 0, 8, capMap("ClientServerSocket", true))
		}
		a.logf("every message type at work(), directory.services() and authenticate")
		a.drain(30 * time.Millisecond)
	case "big-payload":
		s, o := a.target()
		n := []int{1 << 20, 4 << 20, 10*1024*1024 - 100}[r.Intn(3)]
		arg := strings.Repeat("x", n)
		a.send(qnet.Call, s, o, work, workArgs(1, arg))
		a.logf("work() with a %d-byte argument", n)
		a.drain(300 * time.Millisecond)
	case "flood-drain-late", "flood-abrupt-close":
		s, o := a.target()
		n := 2000 + r.Intn(8000)
		if !a.connect() {
			return
		}
		var buf bytes.Buffer
		for k := 0; k < n; k++ {
			buf.Write(rc.Frame(rc.Header{Magic: rc.Magic, ID: uint32(50000 + 2*k), Type: qnet.Call, Service: s, Object: o, Action: work}, workArgs(uint64(k), "f")))
		}
		// the writer must not block forever if the server stops reading: write in the background, bounded wait
		conn := a.conn
		done := make(chan struct{})
		go func() { conn.sendBytes(buf.Bytes()); close(done) }()
		if name == "flood-abrupt-close" {
			time.Sleep(time.Duration(r.Intn(20)) * time.Millisecond)
			a.drop()
			<-done
			a.logf("flood of %d calls then abrupt close", n)
			return
		}
		a.drain(200 * time.Millisecond)
		select {
		case <-done:
		case <-time.After(2 * time.Second):
			a.drop()
			<-done
		}
		a.drain(100 * time.Millisecond)
		a.logf("flood of %d calls, replies drained late", n)
	case "cut-mid-message":
		s, o := a.target()
		if !a.connect() {
			return
		}
		f := rc.Frame(rc.Header{Magic: rc.Magic, ID: a.conn.id(), Type: qnet.Call, Service: s, Object: o, Action: work}, workArgs(3, strings.Repeat("c", 100+r.Intn(3000))))
		cut := 1 + r.Intn(len(f)-1)
		a.conn.sendBytes(f[:cut])
		a.drop()
		a.logf("connection closed after %d of %d bytes of a call", cut, len(f))
	case "reauthenticate-racing-calls":
		s, o := a.target()
		n := 20 + r.Intn(200)
		for k := 0; k < n && a.conn != nil || k == 0; k++ {
			a.send(qnet.Call, 0, 0, 8, capMap("ClientServerSocket", true, "auth_user", "u", "auth_token", "t"))
			a.send(qnet.Call, s, o, work, workArgs(uint64(k), "r"))
			if k%16 == 15 {
				a.drain(5 * time.Millisecond)
			}
		}
		a.logf("%d authenticate frames interleaved with calls", n)
		a.drain(50 * time.Millisecond)
	case "own-directory-entries":
		// well-formed life cycles of the client's OWN directory entries, the steps in any order: register,
		// then ready / unregister / update / look up / register the name again / unregister twice ...
		if !a.connect() {
			return
		}
		name := fmt.Sprintf("own-%d-%d", a.hid, r.Intn(1000))
		mk := func(id uint32) []byte {
			return rc.Encode(serviceInfoT, rc.Tup{name, id, "machine", uint32(42), []interface{}{"tcp://198.51.100.1:1"}, "sess", "uid"})
		}
		f, err := a.conn.call(1, 1, a.ch.dir["registerService"], mk(0), nil)
		if err != nil {
			a.drop()
			return
		}
		if f.H.Type != qnet.Reply || len(f.P) < 4 {
			a.logf("registerService(%s) refused: type %d %q", name, f.H.Type, string(f.P))
			return
		}
		id := binary.LittleEndian.Uint32(f.P)
		a.logf("registerService(%s) -> %d", name, id)
		for k := 1 + r.Intn(5); k > 0; k-- {
			switch r.Intn(7) {
			case 0, 1:
				a.send(qnet.Call, 1, 1, a.ch.dir["serviceReady"], u32(id))
				a.logf("serviceReady(%d)", id)
			case 2, 3:
				a.send(qnet.Call, 1, 1, a.ch.dir["unregisterService"], u32(id))
				a.logf("unregisterService(%d)", id)
			case 4:
				a.send(qnet.Call, 1, 1, a.ch.dir["updateServiceInfo"], mk(id))
				a.logf("updateServiceInfo(%d)", id)
			case 5:
				a.send(qnet.Call, 1, 1, a.ch.dir["service"], rc.Encode(rc.T(rc.String), name))
				a.logf("service(%s)", name)
			default:
				a.send(qnet.Call, 1, 1, a.ch.dir["registerService"], mk(0))
				a.logf("registerService(%s) again", name)
			}
			a.drain(10 * time.Millisecond)
		}
		// it cleans up after itself (or tries to)
		a.send(qnet.Call, 1, 1, a.ch.dir["unregisterService"], u32(id))
		a.drain(20 * time.Millisecond)
	case "documented-removal":
		if r.Intn(2) == 0 {
			s, o := a.target()
			id := o
			if r.Intn(2) == 0 {
				id = 0
			}
			a.send(qnet.Call, s, o, 3, u32(id))
			a.ch.removed[[2]uint32{s, o}] = true
			a.logf("terminate(%d) on %d/%d (documented removal)", id, s, o)
		} else {
			s := a.ch.info.Services[r.Intn(len(a.ch.info.Services))]
			a.send(qnet.Call, 1, 1, a.ch.dir["unregisterService"], u32(s.ID))
			a.logf("unregisterService(%d) (documented removal of the directory entry)", s.ID)
		}
		a.drain(30 * time.Millisecond)
	case "mutated-arguments":
		s, o := a.target()
		names := []string{"work", "note", "echoItem", "sum", "blob", "pairs"}
		nm := names[r.Intn(len(names))]
		pt := probeParams[nm]
		b := 20
		inner := rc.GenOpts{Depth: 2, Width: 3, ComparableKeys: true, MaxAnonNest: 3}
		v := fixDynB(r, pt, rc.GenValue(r, pt, rc.ValOpts{MaxLen: 3, MaxStr: 12, Budget: &b, DynDepth: 1, DynOpts: &inner}))
		enc, fields := rc.EncodeFields(pt, v)
		if len(fields) > 0 {
			f := fields[r.Intn(len(fields))]
			binary.LittleEndian.PutUint32(enc[f.Off:], []uint32{0xffffffff, 0x80000000, 0x7fffffff, 1 << 24, 4097, f.Val + 1}[r.Intn(6)])
		}
		a.send(qnet.Call, s, o, info.Actions[nm], enc)
		a.logf("%s() with a hostile length field", nm)
		a.drain(30 * time.Millisecond)
	case "subscribe-then-vanish":
		s, o := a.target()
		lvl := info.Actions["property:level"]
		for k := 0; k < 3+r.Intn(10); k++ {
			a.hid++
			a.send(qnet.Call, s, o, 0, eventArgs(o, lvl, a.hid))
		}
		for k := 0; k < 5; k++ {
			a.send(qnet.Call, s, o, 6, append(rc.Encode(rc.T(rc.Dyn), rc.DynV{T: rc.T(rc.String), V: "level"}), rc.Encode(rc.T(rc.Dyn), rc.DynV{T: rc.T(rc.Int32), V: int32(k)})...))
		}
		a.drop()
		a.logf("registrations + property writes then abrupt close on %d/%d", s, o)
	case "hostile-signatures":
		s, o := a.target()
		sigs := []string{"[v]", "[()]", strings.Repeat("(", 40) + "i" + strings.Repeat(")", 40), strings.Repeat("[", 5000) + "i" + strings.Repeat("]", 5000), "{vv}"}
		sig := sigs[r.Intn(len(sigs))]
		var p bytes.Buffer
		p.Write(rc.Encode(rc.T(rc.Dyn), rc.DynV{T: rc.T(rc.String), V: "level"}))
		binary.Write(&p, binary.LittleEndian, uint32(len(sig)))
		p.WriteString(sig)
		binary.Write(&p, binary.LittleEndian, uint32(0xffffffff))
		a.send(qnet.Call, s, o, 6, p.Bytes())
		a.send(qnet.Call, s, o, info.Actions["blob"], append(u32(0), p.Bytes()[p.Len()-len(sig)-8:]...))
		a.logf("dynamic value with signature %s and count 0xffffffff", clipS(sig))
		a.drain(100 * time.Millisecond)
	case "terminate-under-flood":
		// the documented removal of one object, pipelined in the middle of a burst of calls to that same
		// object (messages are still being routed to it while it goes away)
		s, o := a.target()
		if !a.connect() {
			return
		}
		var buf bytes.Buffer
		n := 30 + r.Intn(300)
		at := r.Intn(n)
		meta := u32(o)
		for k := 0; k < n; k++ {
			if k == at {
				buf.Write(rc.Frame(rc.Header{Magic: rc.Magic, ID: a.conn.id(), Type: qnet.Call, Service: s, Object: o, Action: 3}, u32(o)))
			}
			act, pl := work, workArgs(uint64(k), "tf")
			if k%3 == 0 {
				act, pl = 2, meta
			}
			buf.Write(rc.Frame(rc.Header{Magic: rc.Magic, ID: a.conn.id(), Type: qnet.Call, Service: s, Object: o, Action: act}, pl))
		}
		a.ch.removed[[2]uint32{s, o}] = true
		conn := a.conn
		done := make(chan struct{})
		go func() { conn.sendBytes(buf.Bytes()); close(done) }()
		a.drain(time.Duration(20+r.Intn(80)) * time.Millisecond)
		select {
		case <-done:
		case <-time.After(2 * time.Second):
			a.drop()
			<-done
		}
		a.logf("terminate(%d) in the middle of %d pipelined calls to %d/%d", o, n, s, o)
	case "post-flood-subscriptions":
		// one-way (Post) registrations / unregistrations / calls pipelined in one write to one object,
		// the client keeps reading whatever comes back
		s, o := a.target()
		if r.Intn(3) == 0 {
			s, o = 1, 1 // the service directory itself
		}
		if !a.connect() {
			return
		}
		var buf bytes.Buffer
		n := 100 + r.Intn(3000)
		for k := 0; k < n; k++ {
			a.hid++
			typ := uint8(qnet.Post)
			if r.Intn(10) == 0 {
				typ = qnet.Call
			}
			act, pl := uint32(0), eventArgs(o, tick, a.hid)
			switch r.Intn(8) {
			case 0:
				act, pl = 1, eventArgs(o, tick, a.hid-1)
			case 1:
				act, pl = 2, u32(o)
			}
			buf.Write(rc.Frame(rc.Header{Magic: rc.Magic, ID: a.conn.id(), Type: typ, Service: s, Object: o, Action: act}, pl))
		}
		conn := a.conn
		done := make(chan struct{})
		go func() { conn.sendBytes(buf.Bytes()); close(done) }()
		a.drain(time.Duration(100+r.Intn(300)) * time.Millisecond)
		select {
		case <-done:
		case <-time.After(2 * time.Second):
			a.drop()
			<-done
		}
		a.logf("%d pipelined one-way registerEvent / unregisterEvent / metaObject messages to %d/%d", n, s, o)
	case "answers-from-a-client":
		// Reply / Error / Event / Cancelled frames sent BY the client (nobody waits for them on the server),
		// carrying well-formed dynamic values of every kind, plain strings, and garbage
		s, o := a.target()
		dyn := func(t *rc.Type, v interface{}) []byte { return rc.Encode(rc.T(rc.Dyn), rc.DynV{T: t, V: v}) }
		payloads := [][]byte{
			dyn(rc.T(rc.Int32), int32(42)), dyn(rc.T(rc.String), "an error description"), dyn(rc.T(rc.Bool), true), dyn(rc.T(rc.Double), 1.5),
			dyn(rc.ListOf(rc.T(rc.String)), []interface{}{"a", "b"}), dyn(rc.T(rc.Uint64), uint64(7)), dyn(rc.T(rc.Void), rc.VoidV{}),
			rc.Encode(rc.T(rc.String), "bare string"), nil, {0xff, 0xff, 0xff, 0xff}, workArgs(1, "x"),
		}
		for _, t := range []uint8{qnet.Error, qnet.Reply, qnet.Event, qnet.Cancelled} {
			for k := 0; k < 4; k++ {
				p := payloads[r.Intn(len(payloads))]
				switch r.Intn(3) {
				case 0:
					a.send(t, s, o, work, p)
				case 1:
					a.send(t, 1, 1, a.ch.dir["services"], p)
				default:
					a.send(t, 0, 0, 8, p)
				}
			}
		}
		a.logf("Reply / Error / Event / Cancelled frames with dynamic values of every kind sent by the client")
		a.drain(30 * time.Millisecond)
	case "pipelined-object-references":
		// calls whose argument is a reference to an object the client hosts itself (the server registers a
		// forwarder for each one), pipelined in one write; replies are read
		if a.ch.info.Desk == 0 || !a.connect() {
			return
		}
		var buf bytes.Buffer
		n := 30 + r.Intn(300)
		emptyMeta := rc.Tup{[]rc.KV{}, []rc.KV{}, []rc.KV{}, "hosted by the client"}
		for k := 0; k < n; k++ {
			a.hid++
			ref := rc.Tup{emptyMeta, a.ch.info.Desk, uint32(1<<31 | uint32(a.hid&0xffffff))}
			act := info.Actions["desk:keep"]
			pl := rc.Encode(rc.ObjectRefType, ref)
			if k%9 == 8 {
				act, pl = info.Actions["desk:relay"], workArgs(uint64(k), "x")
			}
			buf.Write(rc.Frame(rc.Header{Magic: rc.Magic, ID: a.conn.id(), Type: qnet.Call, Service: a.ch.info.Desk, Object: 1, Action: act}, pl))
		}
		conn := a.conn
		done := make(chan struct{})
		go func() { conn.sendBytes(buf.Bytes()); close(done) }()
		a.drain(time.Duration(100+r.Intn(300)) * time.Millisecond)
		select {
		case <-done:
		case <-time.After(2 * time.Second):
			a.drop()
			<-done
		}
		a.logf("%d pipelined keep(<reference to a client-hosted object>) / relay() calls to the Desk service", n)
	case "stats-and-trace":
		// the generic statistics / tracing actions of every object (80-85), then traffic that is
		// accounted and traced: known, unknown and failing actions, and a subscription to the trace signal
		s, o := a.target()
		if r.Intn(4) == 0 {
			s, o = 1, 1 // the directory is an object too
		}
		yes, no := []byte{1}, []byte{0}
		a.send(qnet.Call, s, o, 81, yes) // enableStats(true)
		if r.Intn(2) == 0 {
			a.send(qnet.Call, s, o, 85, yes) // enableTrace(true)
			a.hid++
			a.send(qnet.Call, s, o, 0, eventArgs(o, 86, a.hid)) // traceObject signal
		}
		p := make([]byte, r.Intn(16))
		r.Read(p)
		a.send(qnet.Call, s, o, 9000+uint32(r.Intn(50)), p) // unknown action while accounted
		a.send(qnet.Call, s, o, work, workArgs(uint64(r.Int63()), "s"))
		a.send(qnet.Call, s, o, work, p) // failing call
		a.send(qnet.Call, s, o, 82, nil) // stats()
		a.send(qnet.Call, s, o, 80, nil)
		a.send(qnet.Call, s, o, 84, nil)
		if r.Intn(2) == 0 {
			a.send(qnet.Call, s, o, 83, nil) // clearStats()
		}
		if r.Intn(3) == 0 {
			a.send(qnet.Call, s, o, 81, no)
			a.send(qnet.Call, s, o, 85, no)
		}
		a.logf("statistics / tracing enabled on %d/%d, then known, unknown and failing calls", s, o)
		a.drain(50 * time.Millisecond)
	case "truncated-arguments":
		// well-formed argument lists of the generic object actions, the Probe methods and the directory
		// methods, cut short at every length (the header announces the shortened payload): calls and posts
		s, o := a.target()
		a.hid++
		dynS := func(v string) []byte { return rc.Encode(rc.T(rc.Dyn), rc.DynV{T: rc.T(rc.String), V: v}) }
		type tmpl struct {
			s, o, act uint32
			full      []byte
		}
		ts := []tmpl{
			{s, o, 0, eventArgs(o, []uint32{tick, 86, 0}[r.Intn(3)], a.hid)},
			{s, o, 1, eventArgs(o, tick, a.hid)},
			{s, o, 2, u32(o)},
			{s, o, 3, u32(o)}, // strict prefixes only: a complete terminate is a documented removal
			{s, o, 5, dynS("level")},
			{s, o, 6, append(dynS("level"), rc.Encode(rc.T(rc.Dyn), rc.DynV{T: rc.T(rc.Int32), V: int32(r.Intn(100))})...)},
			{s, o, 8, append(eventArgs(o, tick, a.hid), rc.Encode(rc.T(rc.String), "(L)")...)},
			{s, o, 81, []byte{1}},
			{s, o, 85, []byte{1}},
			{s, o, work, workArgs(uint64(r.Int63()), "truncated")},
		}
		for _, nm := range []string{"echoItem", "sum", "blob", "pairs"} {
			pt := probeParams[nm]
			b := 12
			inner := rc.GenOpts{Depth: 2, Width: 2, ComparableKeys: true, MaxAnonNest: 2}
			v := fixDynB(r, pt, rc.GenValue(r, pt, rc.ValOpts{MaxLen: 2, MaxStr: 8, Budget: &b, DynDepth: 1, DynOpts: &inner}))
			ts = append(ts, tmpl{s, o, info.Actions[nm], rc.Encode(pt, v)})
		}
		{
			b := 12
			v := rc.GenValue(r, serviceInfoT, rc.ValOpts{MaxLen: 2, MaxStr: 8, Budget: &b})
			enc := rc.Encode(serviceInfoT, v)
			ts = append(ts, tmpl{1, 1, a.ch.dir["registerService"], enc}, tmpl{1, 1, a.ch.dir["updateServiceInfo"], enc},
				tmpl{1, 1, a.ch.dir["service"], rc.Encode(rc.T(rc.String), "R0")}, tmpl{1, 1, a.ch.dir["serviceReady"], u32(7)})
		}
		r.Shuffle(len(ts), func(x, y int) { ts[x], ts[y] = ts[y], ts[x] })
		sent := 0
		for _, t := range ts[:4+r.Intn(5)] {
			for cut := 0; cut < len(t.full); cut++ {
				if len(t.full) > 40 && r.Intn(len(t.full)) >= 24 {
					continue
				}
				typ := uint8(qnet.Call)
				if r.Intn(5) == 0 {
					typ = qnet.Post
				}
				a.send(typ, t.s, t.o, t.act, t.full[:cut])
				sent++
				if sent%40 == 0 {
					a.drain(10 * time.Millisecond)
				}
			}
		}
		a.logf("%d calls / posts whose argument list is a strict prefix of a well-formed one (generic actions, Probe methods, directory) on %d/%d", sent, s, o)
		a.drain(50 * time.Millisecond)
	case "garbage-bytes":
		if !a.connect() {
			return
		}
		g := make([]byte, 1+r.Intn(200))
		r.Read(g)
		a.conn.sendBytes(g)
		a.logf("%d random bytes", len(g))
		a.drain(20 * time.Millisecond)
		a.drop()
	}
}

var serviceInfoT, _ = rc.ParseSig("(sIsI[s]ss)<ServiceInfo,name,serviceId,machineId,processId,endpoints,sessionId,objectUid>")

var probeParams = map[string]*rc.Type{}

func init() {
	for name, sig := range map[string]string{
		"work": "(Ls)", "note": "(L)",
		"echoItem": "((Ls[s]{si})<Item,id,name,tags,attrs>)",
		"sum":      "([i]{sd})",
		"blob":     "([C]m)",
		"pairs":    "({I((Ls[s]{si})<Item,id,name,tags,attrs>[(Ls[s]{si})<Item,id,name,tags,attrs>]m)<Pair,left,right,note>})",
	} {
		t, err := rc.ParseSig(sig)
		if err != nil {
			panic(err)
		}
		probeParams[name] = t
	}
}

// fixDynB: nested dynamic values of dynamic type are replaced (same as the codec engine's fixDyn).
func fixDynB(rng *rand.Rand, t *rc.Type, v interface{}) interface{} {
	switch t.K {
	case rc.Dyn:
		d := v.(rc.DynV)
		if d.T.K == rc.Dyn || d.T.K == rc.Void || d.T.K == rc.Unknown {
			return rc.DynV{T: rc.T(rc.Int32), V: int32(rng.Int31())}
		}
		return rc.DynV{T: d.T, V: fixDynB(rng, d.T, d.V)}
	case rc.List:
		l := v.([]interface{})
		for i := range l {
			l[i] = fixDynB(rng, t.Elem, l[i])
		}
	case rc.Map:
		m := v.([]rc.KV)
		for i := range m {
			m[i].K = fixDynB(rng, t.Key, m[i].K)
			m[i].V = fixDynB(rng, t.Elem, m[i].V)
		}
	case rc.Tuple, rc.Struct:
		tu := v.(rc.Tup)
		for i, mt := range t.Mem {
			tu[i] = fixDynB(rng, mt, tu[i])
		}
	}
	return v
}

// probing ---------------------------------------------------------------------

type probeResult struct {
	key, what, dump string
	incon           string
}

// probeAll checks, from a fresh connection, that every object not legitimately removed answers.
func probeAll(ch *child, seqNo int, cpu0 time.Duration) probeResult {
	if !ch.alive() {
		return probeResult{key: "dead"}
	}
	type target struct{ s, o uint32 }
	var targets []target
	for _, s := range ch.info.Services {
		for _, o := range s.Objects {
			if !ch.removed[[2]uint32{s.ID, o}] {
				targets = append(targets, target{s.ID, o})
			}
		}
	}
	work := ch.info.Actions["work"]
	type outcome struct {
		err  string
		stop bool
	}
	res := make(chan outcome, 1)
	var stage string
	var stageMu sync.Mutex
	setStage := func(s string) { stageMu.Lock(); stage = s; stageMu.Unlock() }
	go func() {
		setStage("connect")
		rcn, err := dialRaw(ch.info.Addr)
		if err != nil {
			res <- outcome{err: "connect: " + err.Error()}
			return
		}
		defer rcn.close()
		rcn.c.SetDeadline(time.Time{})
		setStage("authenticate")
		if ok, err := rcn.authenticateNoDeadline(); !ok {
			res <- outcome{err: fmt.Sprintf("authenticate refused: %v", err)}
			return
		}
		setStage("directory.services()")
		f, err := rcn.callNoDeadline(1, 1, ch.dir["services"], nil, nil)
		if err != nil || f.H.Type != qnet.Reply {
			res <- outcome{err: fmt.Sprintf("directory.services() failed: type %d %v", f.H.Type, err)}
			return
		}
		for _, t := range targets {
			setStage(fmt.Sprintf("work() on %d/%d", t.s, t.o))
			token := uint64(seqNo)<<32 | uint64(t.o&0xffff)
			f, err := rcn.callNoDeadline(t.s, t.o, work, workArgs(token, "probe"), nil)
			if err != nil {
				res <- outcome{err: fmt.Sprintf("%s: %v", stage, err)}
				return
			}
			got, ok := strResult(f.P)
			if f.H.Type != qnet.Reply || !ok || got != svc.F(token, "probe") {
				emsg := got
				if f.H.Type == qnet.Error {
					if v, _, e := rc.Decode(rc.T(rc.Dyn), f.P); e == nil {
						emsg = fmt.Sprint(v.(rc.DynV).V)
					}
				}
				res <- outcome{err: fmt.Sprintf("object %d/%d does not answer correctly: frame type %d %q", t.s, t.o, f.H.Type, clipS(emsg))}
				return
			}
		}
		if ch.info.Desk != 0 {
			// the service that registers forwarders for client-hosted objects must still answer too
			setStage(fmt.Sprintf("metaObject() on the Desk service %d/1", ch.info.Desk))
			f, err := rcn.callNoDeadline(ch.info.Desk, 1, 2, u32(1), nil)
			if err != nil || f.H.Type != qnet.Reply {
				res <- outcome{err: fmt.Sprintf("%s: frame type %d %v", stage, f.H.Type, err)}
				return
			}
		}
		res <- outcome{}
	}()
	start := time.Now()
	tick := time.NewTimer(1500 * time.Millisecond)
	defer tick.Stop()
	for {
		select {
		case o := <-res:
			if o.err != "" {
				if !ch.alive() {
					return probeResult{key: "dead"}
				}
				return probeResult{key: "probe=failed", what: o.err}
			}
			return probeResult{}
		case <-ch.exited:
			return probeResult{key: "dead"}
		case <-tick.C:
			st, dump := ch.state()
			stageMu.Lock()
			sg := stage
			stageMu.Unlock()
			switch st {
			case "DEAD":
				return probeResult{key: "dead"}
			case "QUIESCENT":
				select {
				case o := <-res:
					if o.err == "" {
						return probeResult{}
					}
					return probeResult{key: "probe=failed", what: o.err}
				default:
				}
				return probeResult{key: "probe=blocked-forever", what: "the server process is quiescent while a fresh client waits for " + sg, dump: dump}
			}
			cpu, rss := ch.cpu()
			if cpu-cpu0 > 60*time.Second {
				return probeResult{key: "resource=cpu", what: fmt.Sprintf("the server burnt %.0fs of CPU after one client's sequence and still does not answer (%s)", (cpu - cpu0).Seconds(), sg)}
			}
			if rss > 8<<30 {
				return probeResult{key: "resource=memory", what: fmt.Sprintf("the server holds %d MiB after one client's sequence", rss>>20)}
			}
			if time.Since(start) > 4*time.Minute {
				return probeResult{incon: "watchdog while probing (" + sg + ")"}
			}
			tick.Reset(500 * time.Millisecond)
		}
	}
}

func (r *rawConn) authenticateNoDeadline() (bool, error) {
	id := r.id()
	if err := r.send(qnet.Call, 0, 0, 8, id, capMap("ClientServerSocket", true)); err != nil {
		return false, err
	}
	for {
		f, err := r.recv(0)
		if err != nil {
			return false, err
		}
		if f.H.ID == id {
			return f.H.Type == qnet.Reply, nil
		}
	}
}

func (r *rawConn) callNoDeadline(service, obj, action uint32, payload []byte, _ *[]rawFrame) (rawFrame, error) {
	id := r.id()
	if err := r.send(qnet.Call, service, obj, action, id, payload); err != nil {
		return rawFrame{}, err
	}
	for {
		f, err := r.recv(0)
		if err != nil {
			return rawFrame{}, err
		}
		if f.H.ID == id && (f.H.Type == qnet.Reply || f.H.Type == qnet.Error) {
			return f, nil
		}
	}
}

func c12(c *wk.Ctx) {
	c.Note("rule", "the server (directory + 2 Probe services x 3 objects + a Desk service taking object references, freshly generated stubs) runs in a child process of the worker; each case is a PRNG sequence of 2-7 moves by one authenticated hostile client from a grammar of 25 move kinds (incl. well-formed life cycles of the client's own directory entries in any order) (incl. the generic statistics / tracing actions, a documented removal in the middle of a burst, a burst of one-way subscriptions answer-type frames carrying dynamic values of every kind, and pipelined calls whose arguments are references to client-hosted objects) (duplicate / conflicting / foreign registerEvent and unregisterEvent, wrong object ids, random dynamic values at property/setProperty, directory calls with mutated ServiceInfo, unknown actions/objects/services, all eight message types, payloads up to the limit, floods of 2-10k calls drained late or cut by an abrupt close, disconnects mid-header/mid-payload, authenticate frames racing calls, hostile length fields and signatures, the documented removals terminate()/unregisterService(), random bytes). After each sequence a fresh connection authenticates, lists the directory and calls work() on every object the sequence did not legitimately remove. Oracle: the child is alive (exit or fatal error = violation with its stderr), every probe returns f(token); a probe that does not return is decided by the child's own quiescence detector (blocked forever = violation), a CPU / memory budget read from /proc, or a watchdog (inconclusive). Race reports of the child are violations. Distinct non-trivial = distinct move sequences after which at least 4 objects were probed.")
	var ch *child
	defer func() {
		if ch != nil {
			ch.kill()
		}
	}()
	n := 0
	c.Cases("sequence", c.Pick(160, 30000), func(i int, rng *rand.Rand) {
		if ch == nil || !ch.alive() || n%25 == 0 {
			if ch != nil {
				ch.kill()
			}
			var err error
			ch, err = startChild(c)
			if err != nil {
				c.Inconclusive("sequence", i, "server child: "+err.Error())
				ch = nil
				return
			}
		}
		n++
		cpu0, _ := ch.cpu()
		a := &attacker{ch: ch, rng: rng, hid: uint64(i) << 20}
		nMoves := 2 + rng.Intn(6)
		var moves []string
		for k := 0; k < nMoves; k++ {
			m := c12moves[rng.Intn(len(c12moves))]
			moves = append(moves, m)
			a.move(m)
			if !ch.alive() {
				break
			}
		}
		// the hostile client always ends by closing its connection: a peer that neither reads nor
		// disconnects (slow-consumer back-pressure) is outside "messages sent"
		a.drop()
		pr := probeAll(ch, i, cpu0)
		a.drop()
		detail := map[string]interface{}{"moves": moves, "trace": a.trace}
		switch {
		case pr.key == "dead":
			se := ch.stderr()
			kind, msg, site := wk.ClassifyCrash(se)
			if len(se) > 6000 {
				se = se[:6000]
			}
			detail["server_stderr"] = se
			key := "server=exited"
			if kind != "" {
				key = "server=crashed/site=" + site + "/msg=" + msg
			}
			c.Viol("sequence", i, key, "the server process died after one client's message sequence", detail)
			ch.kill()
			ch = nil
		case pr.key != "":
			if pr.dump != "" {
				detail["server_goroutines"] = clipDump(pr.dump)
				pr.key += "/site=" + blockedSite(pr.dump)
			}
			c.Viol("sequence", i, pr.key, pr.what, detail)
			ch.kill()
			ch = nil
		case pr.incon != "":
			c.Inconclusive("sequence", i, pr.incon)
			ch.kill()
			ch = nil
		default:
			probed := 0
			for _, s := range ch.info.Services {
				for _, o := range s.Objects {
					if !ch.removed[[2]uint32{s.ID, o}] {
						probed++
					}
				}
			}
			c.Count("objects_probed", int64(probed))
			if probed >= 4 {
				c.Nontrivial(wk.Hash64("C12", strings.Join(moves, ",")))
			}
			for _, m := range moves {
				c.Count("move_"+m, 1)
			}
			if c.WantSample() && i%10 == 0 {
				c.Sample(detail)
			}
		}
	})
	if ch != nil {
		// a clean exit lets the race detector write its report
		ch.mu.Lock()
		ch.stdin.WriteString("QUIT\n")
		ch.stdin.Flush()
		ch.mu.Unlock()
		select {
		case <-ch.exited:
		case <-time.After(10 * time.Second):
		}
	}
}

// blockedSite names where the object mailbox (or, failing that, any qiloop goroutine) is parked.
func blockedSite(dump string) string {
	blocks := strings.Split(dump, "\n\n")
	for _, b := range blocks {
		if strings.Contains(b, "bus.NewMailBox") && (strings.Contains(b, "sync.Mutex.Lock") || strings.Contains(b, "semacquire") || strings.Contains(b, "chan send")) {
			for _, l := range strings.Split(b, "\n") {
				l = strings.TrimSpace(l)
				if strings.HasPrefix(l, "github.com/lugu/qiloop/") {
					l = strings.TrimPrefix(l, "github.com/lugu/qiloop/")
					if k := strings.LastIndex(l, "("); k > 0 {
						l = l[:k]
					}
					return l
				}
			}
		}
	}
	return "unknown"
}

var _ = syscall.SIGQUIT
