package main

import (
	"fmt"
	"github.com/lugu/qiloop/type/object"
	"math/rand"
	"runtime"
	"strings"
	"sync"
	"sync/atomic"
	"time"

	"github.com/lugu/qiloop/bus"
	qnet "github.com/lugu/qiloop/bus/net"
	"github.com/lugu/qiloop/bus/services"
	"github.com/lugu/qiloop/bus/session"

	"verif/gen/probe"
	"verif/stuck"
	"verif/svc"
	"verif/wk"
)

func init() { engines["C19"] = c19 }

// countingListener counts accepted and closed streams of one hosting server.
type countingListener struct {
	inner    qnet.Listener
	accepted int64
	closed   int64
	prog     *int64
}

type countedStream struct {
	qnet.Stream
	l    *countingListener
	once sync.Once
}

func (s *countedStream) Close() error {
	s.once.Do(func() {
		atomic.AddInt64(&s.l.closed, 1)
		atomic.AddInt64(s.l.prog, 1)
	})
	return s.Stream.Close()
}

func (l *countingListener) Accept() (qnet.Stream, error) {
	s, err := l.inner.Accept()
	if err != nil {
		return nil, err
	}
	atomic.AddInt64(&l.accepted, 1)
	atomic.AddInt64(l.prog, 1)
	return &countedStream{Stream: s, l: l}, nil
}

func (l *countingListener) Close() error { return l.inner.Close() }

func (l *countingListener) open() int64 {
	return atomic.LoadInt64(&l.accepted) - atomic.LoadInt64(&l.closed)
}

// bigArg returns name, or (one time in three) name padded to a size around those at which transports and
// writers change strategy: requests and answers of several goroutines then share the one connection
// with messages of 1 KiB .. 70 KiB.
func bigArg(r *rand.Rand, name string) string {
	if r.Intn(3) != 0 {
		return name
	}
	n := []int{1000, 1500, 4097, 5000, 8200, 16400, 33000, 66000, 70000}[r.Intn(9)]
	return name + strings.Repeat("x", n)
}

type host struct {
	addr  string
	l     *countingListener
	srv   bus.Server
	sess  bus.Session
	names []string
	impls map[string]*svc.Impl
	// refs holds ONE object reference per service, shared by every goroutine that asks for the object
	// (a reference received once and handed to the workers)
	refs map[string]object.ObjectReference
	boot bus.Session
}

func newHost(w *world, idx int, prog *int64) (*host, error) {
	h := &host{addr: newAddr("unix"), impls: map[string]*svc.Impl{}, refs: map[string]object.ObjectReference{}}
	inner, err := qnet.Listen(h.addr)
	if err != nil {
		return nil, err
	}
	h.l = &countingListener{inner: inner, prog: prog}
	h.sess, err = w.session()
	if err != nil {
		return nil, err
	}
	ns, err := services.Namespace(h.sess, []string{h.addr})
	if err != nil {
		return nil, err
	}
	h.srv, err = bus.StandAloneServer(h.l, bus.Yes{}, ns)
	if err != nil {
		return nil, err
	}
	for k := 0; k < 4; k++ {
		name := fmt.Sprintf("Host%dSvc%d", idx, k)
		im := svc.NewImpl(name)
		if _, err := h.srv.NewService(name, probe.ProbeObject(im)); err != nil {
			return nil, fmt.Errorf("NewService %s: %v", name, err)
		}
		h.names = append(h.names, name)
		h.impls[name] = im
	}
	// a session created now knows the services registered above (the host's own session learns about
	// them through the serviceAdded signal, later)
	boot, err := w.session()
	if err != nil {
		return nil, err
	}
	h.boot = boot // kept until the host goes away: its connection must not close in the middle of a round
	for _, name := range h.names {
		p, err := boot.Proxy(name, 1)
		if err != nil {
			return nil, fmt.Errorf("reference to %s: %v", name, err)
		}
		h.refs[name] = bus.ObjectReference(p)
	}
	return h, nil
}

func (h *host) close() {
	if h.boot != nil {
		h.boot.Terminate()
	}
	h.srv.Terminate()
	h.sess.Terminate()
}

func c19(c *wk.Ctx) {
	c.Note("rule", "a directory server plus two service-hosting servers (bus.StandAloneServer over counting listeners, four services each); each round creates a fresh session.NewSession and releases 4-32 goroutines through a barrier, each requesting Proxy(name) (or Object(ref)) for services behind the same and different endpoints, then calling the proxy (one call in three with an argument and an answer of 1-70 KiB); 2-6 further waves of 2-8 goroutines then use the same, established session; in one round out of two 3-10 other services (some with lower identifiers than every service asked for) leave and join the bus meanwhile, so that the session refreshes its list of services under the requests. Oracle: the process does not crash (child), every request succeeds and the proxy answers f(token); at quiescence (decided by the quiescence detector) each hosting server has at most one open connection from the session, exactly one if it was used. Distinct non-trivial = distinct rounds in which some hosting server accepted at least two connections (the concurrent-dial path really ran).")
	var progress int64
	var w *world
	var hosts []*host
	// early holds services registered on the directory server BEFORE the hosting servers (lower identifiers
	// than every service the goroutines ask for): rounds with churn terminate them one by one while requests
	// are in flight, so that the session's list of services shrinks in front of the entries being looked up
	var early []bus.Service
	transient := 0
	teardown := func() {
		early = nil
		for _, h := range hosts {
			h.close()
		}
		hosts = nil
		if w != nil {
			w.close()
			w = nil
		}
	}
	defer teardown()
	n := 0
	c.Cases("round", c.Pick(480, 20000), func(i int, rng *rand.Rand) {
		if w == nil || n%30 == 0 {
			teardown()
			var err error
			w, err = newWorld("unix", nil)
			if err != nil {
				c.Inconclusive("round", i, "world: "+err.Error())
				w = nil
				return
			}
			for k := 0; k < 12; k++ {
				e, err := w.server.NewService(fmt.Sprintf("Early%d", k), probe.ProbeObject(svc.NewImpl("early")))
				if err != nil {
					c.Inconclusive("round", i, "early service: "+err.Error())
					teardown()
					return
				}
				early = append(early, e)
			}
			for k := 0; k < 2; k++ {
				h, err := newHost(w, k, &progress)
				if err != nil {
					c.Inconclusive("round", i, "host: "+err.Error())
					teardown()
					return
				}
				hosts = append(hosts, h)
			}
		}
		n++
		base := make([][2]int64, len(hosts))
		for k, h := range hosts {
			base[k] = [2]int64{atomic.LoadInt64(&h.l.accepted), atomic.LoadInt64(&h.l.closed)}
		}
		sess, err := session.NewSession(w.addr)
		if err != nil {
			c.Inconclusive("round", i, "session: "+err.Error())
			return
		}
		G := 4 + rng.Intn(c.Pick(13, 29))
		sameEndpoint := rng.Intn(3) == 0 // everybody asks for services of one host
		var wg sync.WaitGroup
		start := make(chan struct{})
		var mu sync.Mutex
		var viols [][2]string
		used := make([]int32, len(hosts))
		var overload, sharedRefs int64
		for g := 0; g < G; g++ {
			wg.Add(1)
			r := rand.New(rand.NewSource(rng.Int63()))
			go func(g int) {
				defer wg.Done()
				hi := r.Intn(len(hosts))
				if sameEndpoint {
					hi = 0
				}
				h := hosts[hi]
				name := h.names[r.Intn(len(h.names))]
				<-start
				atomic.StoreInt32(&used[hi], 1)
				var p bus.Proxy
				var err error
				viaSharedRef := r.Intn(4) == 0
				if viaSharedRef {
					// the first request of this goroutine is for the object behind a reference which
					// other goroutines are using at the same moment
					p, err = sess.Object(h.refs[name])
					atomic.AddInt64(&sharedRefs, 1)
				} else {
					p, err = sess.Proxy(name, 1)
				}
				if err != nil && strings.Contains(err.Error(), "consumer blocked") {
					// load shedding by the hosting server (its 10-slot queue is full): an overload
					// refusal, not a failure of the session; counted, not judged
					atomic.AddInt64(&overload, 1)
					return
				}
				if err != nil {
					mu.Lock()
					viols = append(viols, [2]string{"proxy=error", fmt.Sprintf("Proxy(%s) failed for a registered service: %v", name, err)})
					mu.Unlock()
					return
				}
				if !viaSharedRef && r.Intn(3) == 0 {
					// also through an object reference
					ref := bus.ObjectReference(p)
					p2, err := sess.Object(ref)
					if err != nil {
						mu.Lock()
						viols = append(viols, [2]string{"object=error", fmt.Sprintf("Object(ref to %s) failed: %v", name, err)})
						mu.Unlock()
						return
					}
					p = p2
				}
				token := uint64(i)<<32 | uint64(g)
				arg := bigArg(r, name)
				res, err := probe.MakeProbe(sess, p).Work(token, arg)
				if err != nil && strings.Contains(err.Error(), "consumer blocked") {
					atomic.AddInt64(&overload, 1)
					return
				}
				if err != nil || res != svc.F(token, arg) {
					mu.Lock()
					viols = append(viols, [2]string{"proxy=not-working", fmt.Sprintf("the proxy for %s does not work (argument of %d bytes): %.80q %v", name, len(arg), res, err)})
					mu.Unlock()
				} else if n := h.impls[name].ExecCount(token); n != 1 {
					// a working proxy for the service is connected to THAT service's object
					mu.Lock()
					viols = append(viols, [2]string{"proxy=wrong-target", fmt.Sprintf("a call through the proxy obtained for %s returned, but the object of %s executed it %d times: the proxy is connected to another object", name, name, n)})
					mu.Unlock()
				}
				atomic.AddInt64(&progress, 1)
			}(g)
		}
		// churn (one round in two): while the requests are in flight other services leave and join the bus
		// (the session refreshes its list of services on every such event); none of them is ever asked for
		var churnWG sync.WaitGroup
		churned := int64(0)
		if rng.Intn(2) == 0 {
			steps := 3 + rng.Intn(8)
			cr := rand.New(rand.NewSource(rng.Int63()))
			churnWG.Add(1)
			go func() {
				defer churnWG.Done()
				<-start
				for k := 0; k < steps; k++ {
					if len(early) > 0 && cr.Intn(2) == 0 {
						early[0].Terminate()
						early = early[1:]
					} else {
						transient++
						t, err := w.server.NewService(fmt.Sprintf("Transient%d", transient), probe.ProbeObject(svc.NewImpl("transient")))
						if err == nil {
							for y := cr.Intn(4); y > 0; y-- {
								runtime.Gosched()
							}
							t.Terminate()
						}
					}
					atomic.AddInt64(&churned, 1)
					atomic.AddInt64(&progress, 1)
					for y := cr.Intn(6); y > 0; y-- {
						runtime.Gosched()
					}
				}
			}()
		}
		close(start)
		done := make(chan struct{})
		waves := 2 + rng.Intn(5)
		waveSeeds := make([]int64, waves)
		for k := range waveSeeds {
			waveSeeds[k] = rng.Int63()
		}
		var steady int64
		go func() {
			wg.Wait()
			// steady state: further waves of 2-8 goroutines on the SAME session (connections are up), asking
			// for proxies of different services behind the same endpoints at the same moment
			for _, ws := range waveSeeds {
				wr := rand.New(rand.NewSource(ws))
				n := 2 + wr.Intn(7)
				var wwg sync.WaitGroup
				go2 := make(chan struct{})
				for g := 0; g < n; g++ {
					wwg.Add(1)
					r := rand.New(rand.NewSource(wr.Int63()))
					go func(g int) {
						defer wwg.Done()
						h := hosts[r.Intn(len(hosts))]
						name := h.names[r.Intn(len(h.names))]
						<-go2
						p, err := sess.Proxy(name, 1)
						if err == nil {
							// several calls through the proxy it was given: a working proxy returns the answer to ITS call
							px := probe.MakeProbe(sess, p)
							for q := 0; q < 6 && err == nil; q++ {
								token := uint64(i)<<32 | uint64(1000+g) | uint64(atomic.AddInt64(&steady, 1))<<16
								var res string
								arg := bigArg(r, name)
								res, err = px.Work(token, arg)
								if err == nil && res != svc.F(token, arg) {
									err = fmt.Errorf("wrong result %.80q (the answer to another call)", res)
								}
							}
						}
						atomic.AddInt64(&progress, 1)
						if err != nil && strings.Contains(err.Error(), "consumer blocked") {
							atomic.AddInt64(&overload, 1)
							return
						}
						if err != nil {
							mu.Lock()
							viols = append(viols, [2]string{"proxy=error/steady-state", fmt.Sprintf("a request for %s on the established session failed: %v", name, err)})
							mu.Unlock()
						}
					}(g)
				}
				close(go2)
				wwg.Wait()
			}
			churnWG.Wait()
			close(done)
		}()
		v, dump := stuck.Wait(done, &progress, 3*time.Minute)
		detail := map[string]interface{}{"goroutines": G, "same_endpoint": sameEndpoint, "further_waves": waves}
		if v == stuck.Stuck {
			detail["dump"] = clipDump(dump)
			c.Viol("round", i, "request=never-returned/"+wk.PanicSite(dump), "a Proxy/Object request never returned", detail)
			return
		}
		if v == stuck.Watchdog {
			c.Inconclusive("round", i, "watchdog")
			return
		}
		// quiescence: surplus connections must get closed
		settled := func() bool {
			for k, h := range hosts {
				open := (atomic.LoadInt64(&h.l.accepted) - base[k][0]) - (atomic.LoadInt64(&h.l.closed) - base[k][1])
				if open > 1 {
					return false
				}
			}
			return true
		}
		sv, _ := stuck.WaitFunc(settled, &progress, 3*time.Minute)
		maxAccepted := int64(0)
		for k, h := range hosts {
			acc := atomic.LoadInt64(&h.l.accepted) - base[k][0]
			open := acc - (atomic.LoadInt64(&h.l.closed) - base[k][1])
			if acc > maxAccepted {
				maxAccepted = acc
			}
			detail[fmt.Sprintf("host%d_accepted", k)] = acc
			detail[fmt.Sprintf("host%d_open", k)] = open
			if sv == stuck.Stuck && open > 1 {
				viols = append(viols, [2]string{"connections=more-than-one", fmt.Sprintf("the session holds %d connections to hosting server %d (accepted %d)", open, k, acc)})
			}
			if atomic.LoadInt32(&used[k]) == 1 && open < 1 && len(viols) == 0 {
				viols = append(viols, [2]string{"connections=none", fmt.Sprintf("no connection to hosting server %d is left open although proxies to it were handed out", k)})
			}
		}
		if sv == stuck.Watchdog {
			c.Inconclusive("round", i, "watchdog (connections)")
		}
		sess.Terminate()
		// after Terminate every connection of the round goes away
		stuck.WaitFunc(func() bool {
			for k, h := range hosts {
				if (atomic.LoadInt64(&h.l.accepted)-base[k][0])-(atomic.LoadInt64(&h.l.closed)-base[k][1]) > 0 {
					return false
				}
			}
			return true
		}, &progress, time.Minute)
		seen := map[string]bool{}
		for _, x := range viols {
			if seen[x[0]] {
				continue
			}
			seen[x[0]] = true
			c.Viol("round", i, x[0], x[1], detail)
		}
		c.Count("requests", int64(G))
		c.Count("other_services_leaving_or_joining_the_bus_during_the_requests", atomic.LoadInt64(&churned))
		c.Count("requests_in_later_waves_on_the_established_session", atomic.LoadInt64(&steady))
		c.Count("requests_refused_by_server_load_shedding", atomic.LoadInt64(&overload))
		c.Count("requests_through_a_shared_object_reference", atomic.LoadInt64(&sharedRefs))
		c.Max("max_connections_accepted_by_one_host_in_a_round", maxAccepted)
		if maxAccepted >= 2 {
			c.Nontrivial(wk.Hash64("C19", i))
			c.Count("rounds_with_concurrent_dial", 1)
		} else {
			c.Count("rounds_uninformative", 1)
		}
		if c.WantSample() && i%5 == 0 {
			c.Sample(detail)
		}
	})
}
