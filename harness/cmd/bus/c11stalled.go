package main

import (
	"fmt"
	"math/rand"
	"sync"
	"sync/atomic"
	"time"

	"github.com/lugu/qiloop/bus"
	qnet "github.com/lugu/qiloop/bus/net"

	"verif/stuck"
	"verif/wk"
)

// c11stalled: real transports (unix, tcp, tls, fd-passing pipe). The peer accepts the connection and
// then stops reading (it does not close). 1-5 calls carry 1-4 MiB of arguments, so at least one Send is
// blocked in the kernel in the middle of its message. Then the connection is closed locally, or by the
// peer. Every call returns an error, a later call fails, each of two disconnect callbacks fires once.
func c11stalled(c *wk.Ctx, i int, rng *rand.Rand) {
	transport := []string{"unix", "tcp", "pipe", "tcps"}[i%4]
	addr := newAddr(transport)
	l, err := qnet.Listen(addr)
	if err != nil {
		c.Inconclusive("stalled", i, "listen: "+err.Error())
		return
	}
	defer l.Close()
	var progress int64
	peer := make(chan qnet.Stream, 1)
	go func() {
		s, err := l.Accept()
		if err != nil {
			close(peer)
			return
		}
		if transport == "tcps" {
			// the handshake needs the server side to read once: read the first bytes of the first message, then stall
			b := make([]byte, 16)
			s.Read(b)
		}
		peer <- s // never read (again)
	}()
	ep, err := qnet.DialEndPoint(addr)
	if err != nil {
		c.Inconclusive("stalled", i, "dial: "+err.Error())
		return
	}
	client := bus.NewClient(bus.NewChannel(ep, bus.DefaultCap()))
	var cb [2]int32
	for k := range cb {
		k := k
		client.OnDisconnect(func(error) { atomic.AddInt32(&cb[k], 1) })
	}
	K := 1 + rng.Intn(5)
	size := (1 + rng.Intn(4)) << 20
	localClose := rng.Intn(2) == 0
	results := make([]string, K)
	var wg sync.WaitGroup
	for k := 0; k < K; k++ {
		wg.Add(1)
		go func(k int) {
			defer wg.Done()
			payload := make([]byte, size)
			_, err := client.Call(nil, 9, 1, uint32(100+k), payload)
			atomic.AddInt64(&progress, 1)
			if err == nil {
				results[k] = "ok"
			} else {
				results[k] = "err"
			}
		}(k)
	}
	// a bounded pause: the senders run into the full kernel buffer
	time.Sleep(time.Duration(5+rng.Intn(30)) * time.Millisecond)
	var srv qnet.Stream
	select {
	case srv = <-peer:
	case <-time.After(20 * time.Second):
	}
	if srv == nil {
		ep.Close()
		c.Inconclusive("stalled", i, "the peer never accepted")
		return
	}
	if localClose {
		go ep.Close()
	} else {
		srv.Close()
	}
	done := make(chan struct{})
	go func() { wg.Wait(); close(done) }()
	detail := map[string]interface{}{"transport": transport, "calls": K, "argument_bytes": size, "closed_by": map[bool]string{true: "local Close()", false: "the stalled peer"}[localClose]}
	v, dump := stuck.Wait(done, &progress, 3*time.Minute)
	if v == stuck.Stuck {
		detail["dump"] = clipDump(dump)
		c.Viol("stalled", i, "call=hung/stalled-peer/"+transport, "a call whose Send was blocked on a stalled peer never returned after the connection was closed", detail)
		c.Abandon("calls blocked in write")
		return
	}
	if v == stuck.Watchdog {
		c.Inconclusive("stalled", i, "watchdog")
		return
	}
	for k, r := range results {
		if r != "err" {
			c.Viol("stalled", i, "call=success-without-reply/"+transport, fmt.Sprintf("call %d returned success although the peer never answered", k), detail)
			return
		}
	}
	late := make(chan error, 1)
	go func() { _, err := client.Call(nil, 9, 1, 150, []byte("late")); late <- err }()
	lateDone := make(chan struct{})
	var lateErr error
	go func() { lateErr = <-late; close(lateDone) }()
	if v, _ := stuck.Wait(lateDone, &progress, 2*time.Minute); v == stuck.Stuck {
		c.Viol("stalled", i, "late-call=hung/stalled-peer/"+transport, "a call issued after the connection was closed never returned", detail)
		c.Abandon("call blocked")
		return
	} else if v == stuck.Returned && lateErr == nil {
		c.Viol("stalled", i, "late-call=success/"+transport, "a call issued after the connection was closed returned success", detail)
		return
	}
	for y := 0; y < 40; y++ {
		time.Sleep(50 * time.Microsecond)
	}
	if !localClose {
		ep.Close()
	}
	srv.Close()
	settled := func() bool { return atomic.LoadInt32(&cb[0]) >= 1 && atomic.LoadInt32(&cb[1]) >= 1 }
	stuck.WaitFunc(settled, &progress, time.Minute)
	for k := range cb {
		if n := atomic.LoadInt32(&cb[k]); n != 1 {
			c.Viol("stalled", i, fmt.Sprintf("callback=%d-times/stalled-peer/%s", n, transport), fmt.Sprintf("disconnect callback #%d ran %d times", k+1, n), detail)
			return
		}
	}
	c.Count("stalled_plans_"+transport, 1)
	c.Nontrivial(wk.Hash64("C11stalled", transport, K, localClose, size>>20))
	if c.WantSample() && i%8 == 0 {
		c.Sample(detail)
	}
}
