package main

import (
	"fmt"
	"math/rand"
	"sync"
	"sync/atomic"
	"time"

	"github.com/lugu/qiloop/bus"

	"verif/gen/probe"
	"verif/stuck"
	"verif/svc"
	"verif/wk"
)

func init() { engines["C16"] = c16 }

type c16obj struct {
	n        int
	id       uint32
	impl     *svc.Impl
	proxy    probe.ProbeProxy
	ackStamp int64 // clock after a removal was acknowledged (0 = live)
	rmStart  int64 // clock before the first removal attempt (0 = none)
	removals int32 // acknowledged removals
	subs     []*c16sub
	mu       sync.Mutex
}

type c16sub struct {
	ack    int64 // clock after SubscribeTick returned
	ch     chan uint64
	closed int32
	got    int32
}

func (o *c16obj) acked() int64 { return atomic.LoadInt64(&o.ackStamp) }

func c16(c *wk.Ctx) {
	c.Note("rule", "each plan hosts a fresh Probe service and runs a PRNG sequence, then 2-8 concurrent goroutines, of: Service.Add (new object), call work(token) through a proxy, SubscribeTick, Service.Remove, remote terminate() through the object's proxy, removal of an already removed id, remote terminate of a removed object, calls after removal. Oracle: ids returned by Add are unique among live objects; for every object whose removal was acknowledged (Remove returned nil / terminate replied): its OnTerminate hook ran exactly once at quiescence (0 for live objects), every call started after the acknowledgement returns an error and never reaches the object (per-token execution counter), its subscribers' channels get closed (quiescence detector); every object still live answers correctly at the end. Distinct non-trivial = distinct plans with at least one acknowledged removal followed by a call to the removed object.")
	var w *world
	defer func() {
		if w != nil {
			w.close()
		}
	}()
	var sess bus.Session
	n := 0
	c.Cases("plan", c.Pick(1200, 30000), func(i int, rng *rand.Rand) {
		if w == nil || n%60 == 0 {
			if w != nil {
				sess.Terminate()
				w.close()
			}
			var err error
			w, err = newWorld("unix", nil)
			if err == nil {
				sess, err = w.session()
			}
			if err != nil {
				c.Inconclusive("plan", i, "world: "+err.Error())
				w = nil
				return
			}
		}
		n++
		c16one(c, i, rng, w, sess, fmt.Sprintf("P%d", n))
	})
}

func c16one(c *wk.Ctx, i int, rng *rand.Rand, w *world, sess bus.Session, name string) {
	ps, err := w.addProbe(name, 1, nil)
	if err != nil {
		c.Inconclusive("plan", i, "addProbe: "+err.Error())
		return
	}
	// the session's service list is refreshed asynchronously: wait for the name to resolve
	var first probe.ProbeProxy
	for try := 0; ; try++ {
		first, err = proxyFor(sess, ps, ps.objs[0])
		if err == nil {
			break
		}
		if try > 2000 {
			c.Inconclusive("plan", i, "proxy: "+err.Error())
			return
		}
		time.Sleep(time.Millisecond)
	}
	var mu sync.Mutex
	objs := []*c16obj{{n: 0, id: 1, impl: ps.objs[0].impl, proxy: first}}
	var viols [][2]string
	viol := func(key, what string) {
		mu.Lock()
		viols = append(viols, [2]string{key, what})
		mu.Unlock()
	}
	var tokenSeq uint64
	var afterRemovalCalls int32
	var progress int64

	add := func() {
		im := svc.NewImpl(name + "#o")
		id, err := ps.service.Add(probe.ProbeObject(im))
		if err != nil {
			viol("add=error", "Service.Add failed: "+err.Error())
			return
		}
		mu.Lock()
		for _, o := range objs {
			if o.id == id && o.acked() == 0 {
				viols = append(viols, [2]string{"add=duplicate-id", fmt.Sprintf("Add returned id %d which a live object already holds", id)})
			}
		}
		mu.Unlock()
		p, err := sess.Proxy(name, id)
		if err != nil {
			viol("add=not-callable", fmt.Sprintf("object %d returned by Add cannot be reached: %v", id, err))
			return
		}
		o := &c16obj{id: id, impl: im, proxy: probe.MakeProbe(sess, p)}
		mu.Lock()
		o.n = len(objs)
		objs = append(objs, o)
		mu.Unlock()
	}
	pick := func(r *rand.Rand) *c16obj {
		mu.Lock()
		defer mu.Unlock()
		return objs[r.Intn(len(objs))]
	}
	call := func(o *c16obj) {
		token := atomic.AddUint64(&tokenSeq, 1)
		ackBefore := o.acked()
		st := now()
		res, err := o.proxy.Work(token, "c16")
		atomic.AddInt64(&progress, 1)
		if ackBefore != 0 && ackBefore < st {
			atomic.AddInt32(&afterRemovalCalls, 1)
			if err == nil {
				viol("removed=call-succeeded", fmt.Sprintf("a call started after object %d's removal was acknowledged returned %q", o.id, res))
			}
			if o.impl.ExecCount(token) != 0 {
				viol("removed=invoked", fmt.Sprintf("a call started after object %d's removal was acknowledged reached the object", o.id))
			}
			return
		}
		if err == nil && res != svc.F(token, "c16") {
			viol("call=wrong-result", fmt.Sprintf("object %d returned %q", o.id, res))
		}
		if err != nil && atomic.LoadInt64(&o.rmStart) == 0 {
			// no removal had even been attempted when the call returned
			viol("live=call-failed", fmt.Sprintf("call to live object %d failed: %v", o.id, err))
		}
	}
	subscribe := func(o *c16obj) {
		if o.acked() != 0 {
			return
		}
		_, ch, err := o.proxy.SubscribeTick()
		if err != nil {
			return // may race with a removal
		}
		s := &c16sub{ch: ch, ack: now()}
		o.mu.Lock()
		o.subs = append(o.subs, s)
		o.mu.Unlock()
		go func() {
			for range ch {
				atomic.AddInt32(&s.got, 1)
			}
			atomic.StoreInt32(&s.closed, 1)
		}()
	}
	ack := func(o *c16obj) {
		atomic.AddInt32(&o.removals, 1)
		atomic.CompareAndSwapInt64(&o.ackStamp, 0, now())
	}
	remove := func(o *c16obj) {
		if o.n == 0 {
			return // keep the service object
		}
		atomic.CompareAndSwapInt64(&o.rmStart, 0, now())
		if err := ps.service.Remove(o.id); err == nil {
			ack(o)
		}
	}
	terminate := func(o *c16obj) {
		if o.n == 0 {
			return
		}
		was := o.acked()
		st := now()
		atomic.CompareAndSwapInt64(&o.rmStart, 0, st)
		err := o.proxy.Terminate(o.id)
		atomic.AddInt64(&progress, 1)
		if err == nil {
			if was != 0 && was < st {
				// a later message addressed to a removed object must be answered with an error
				viol("removed=terminate-succeeded", fmt.Sprintf("terminate() sent to object %d after its removal had been acknowledged succeeded", o.id))
			}
			ack(o)
		}
	}
	step := func(r *rand.Rand) {
		switch x := r.Intn(12); {
		case x < 2:
			add()
		case x < 6:
			call(pick(r))
		case x < 7:
			subscribe(pick(r))
		case x < 9:
			remove(pick(r))
		case x < 10:
			terminate(pick(r))
		default:
			o := pick(r)
			if o.acked() != 0 {
				call(o)
			} else {
				call(o)
			}
		}
	}
	// sequential phase
	seq := 4 + rng.Intn(14)
	for k := 0; k < 2; k++ {
		add()
	}
	for k := 0; k < seq; k++ {
		step(rng)
	}
	// concurrent phase
	workers := 2 + rng.Intn(7)
	var wg sync.WaitGroup
	start := make(chan struct{})
	for g := 0; g < workers; g++ {
		wg.Add(1)
		r := rand.New(rand.NewSource(rng.Int63()))
		go func() {
			defer wg.Done()
			<-start
			for k := 0; k < 6; k++ {
				step(r)
			}
		}()
	}
	close(start)
	done := make(chan struct{})
	go func() { wg.Wait(); close(done) }()
	v, dump := stuck.Wait(done, &progress, 3*time.Minute)
	detail := map[string]interface{}{"service": name, "sequential_steps": seq, "workers": workers}
	if v == stuck.Stuck {
		detail["dump"] = clipDump(dump)
		c.Viol("plan", i, "operation=never-returned/"+wk.PanicSite(dump), "an add / remove / terminate / call operation never returned", detail)
		return
	}
	if v == stuck.Watchdog {
		c.Inconclusive("plan", i, "watchdog")
		return
	}
	// calls after removal for every removed object (sequentially: "later messages")
	mu.Lock()
	all := append([]*c16obj{}, objs...)
	mu.Unlock()
	removed := 0
	for _, o := range all {
		if o.acked() != 0 {
			removed++
			call(o)
		}
	}
	// subscribers of removed objects must see their channel closed
	subsClosed := func() bool {
		for _, o := range all {
			if o.acked() == 0 {
				continue
			}
			o.mu.Lock()
			for _, s := range o.subs {
				// only subscribers acknowledged before any removal attempt are "remaining subscribers"
				if s.ack < atomic.LoadInt64(&o.rmStart) && atomic.LoadInt32(&s.closed) == 0 {
					o.mu.Unlock()
					return false
				}
			}
			o.mu.Unlock()
		}
		return true
	}
	v, dump = stuck.WaitFunc(subsClosed, &progress, 3*time.Minute)
	if v == stuck.Stuck {
		diag := ""
		for _, o := range all {
			if o.acked() == 0 {
				continue
			}
			o.mu.Lock()
			for k, s := range o.subs {
				diag += fmt.Sprintf("[obj %d sub %d ack=%d rmStart=%d ackRemoval=%d closed=%d got=%d] ", o.id, k, s.ack, o.rmStart, o.ackStamp, s.closed, s.got)
			}
			o.mu.Unlock()
		}
		detail["subscribers"] = diag
		detail["dump"] = clipDump(dump)
		viol("removed=subscriber-not-told", "a subscriber of a removed object was never told (its channel stays open)")
	} else if v == stuck.Watchdog {
		c.Inconclusive("plan", i, "watchdog (subscribers)")
	}
	for _, o := range all {
		t := o.impl.Terminated()
		switch {
		case o.acked() != 0 && t != 1:
			viol(fmt.Sprintf("removed=terminated-%d-times", t), fmt.Sprintf("object %d: removal acknowledged %d time(s), termination hook ran %d times", o.id, atomic.LoadInt32(&o.removals), t))
		case o.acked() == 0 && t != 0:
			viol("live=terminated", fmt.Sprintf("live object %d had its termination hook run %d times", o.id, t))
		}
		if o.acked() == 0 {
			token := atomic.AddUint64(&tokenSeq, 1)
			if res, err := o.proxy.Work(token, "final"); err != nil || res != svc.F(token, "final") {
				viol("live=unreachable", fmt.Sprintf("live object %d does not answer at the end: %q %v", o.id, res, err))
			}
		}
	}
	// clean up the service so that the world can be reused
	ps.service.Terminate()
	seen := map[string]bool{}
	for _, x := range viols {
		if seen[x[0]] {
			continue
		}
		seen[x[0]] = true
		c.Viol("plan", i, x[0], x[1], detail)
	}
	c.Count("objects", int64(len(all)))
	c.Count("objects_removed", int64(removed))
	c.Count("calls_after_acknowledged_removal", int64(atomic.LoadInt32(&afterRemovalCalls)))
	if removed > 0 && atomic.LoadInt32(&afterRemovalCalls) > 0 {
		c.Nontrivial(wk.Hash64("C16", i))
	}
	if c.WantSample() && i%25 == 0 {
		c.Sample(map[string]interface{}{"plan": i, "objects": len(all), "removed": removed, "calls_after_removal": afterRemovalCalls, "sequential_steps": seq, "workers": workers})
	}
}
