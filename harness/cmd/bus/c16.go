package main

import (
	"fmt"
	"math/rand"
	"runtime"
	"sync"
	"sync/atomic"
	"time"

	"github.com/lugu/qiloop/bus"
	qnet "github.com/lugu/qiloop/bus/net"
	rc "verif/refcodec"

	"verif/gen/probe"
	"verif/stuck"
	"verif/svc"
	"verif/wk"
)

func init() { engines["C16"] = c16 }

type c16obj struct {
	n        int
	id       uint32
	impl     *svc.Impl
	proxy    probe.ProbeProxy
	ackStamp int64 // clock after a removal was acknowledged (0 = live)
	rmStart  int64 // clock before the first removal attempt (0 = none)
	removals int32 // acknowledged removals
	subs     []*c16sub
	mu       sync.Mutex
}

type c16sub struct {
	ack    int64 // clock after SubscribeTick returned
	ch     chan uint64
	closed int32
	got    int32
}

func (o *c16obj) acked() int64 { return atomic.LoadInt64(&o.ackStamp) }

func c16(c *wk.Ctx) {
	c.Note("rule", "each plan hosts a fresh Probe service and runs a PRNG sequence, then 2-8 concurrent goroutines, of: Service.Add (new object), call work(token) through a proxy, SubscribeTick, Service.Remove, remote terminate() through the object's proxy, removal of an already removed id, remote terminate of a removed object, calls after removal. Oracle: ids returned by Add are unique among live objects; for every object whose removal was acknowledged (Remove returned nil / terminate replied): its OnTerminate hook ran exactly once at quiescence (0 for live objects), every call started after the acknowledgement returns an error and never reaches the object (per-token execution counter), its subscribers' channels get closed (quiescence detector); every object still live answers correctly at the end. Stream readd: the same Actor value is added, subscribed to, called, terminated (remotely or by Remove) and added again, 2-4 lives: in each life the object is callable, the hook count grows by one per acknowledged termination, the subscriber is told, later calls fail. Stream collide: the global math/rand source the service draws identifiers from is re-seeded with one seed before several Add calls, so that each draws an identifier already held: every Add returns, identifiers are unique among the live objects, every object answers and runs its call once. Stream flood: an object whose method is parked is flooded with 8-40 calls from 3-6 connections (mailbox full, routing goroutines waiting) and is terminated remotely / removed locally in the middle, then released: every call and the termination return, no call runs twice, hook once, later calls fail, the sibling answers on every connection. Stream crowd: one object (one case in three: the service's original object, id 1) with 3-24 registrations spread over 1-5 raw connections x 3 signals/properties (+ the generated proxies of a session) is removed or terminates itself: (some registrations are cancelled again, one handler id may be tried on two signals) (in a third of the plans one of the connections is closed abruptly right before the removal) every (connection, signal) with an acknowledged registration still in place on a live connection receives the termination error, every proxy channel closes, the hook ran once, the sibling answers. Distinct non-trivial = distinct plans with at least one acknowledged removal followed by a call to the removed object.")
	var w *world
	defer func() {
		if w != nil {
			w.close()
		}
	}()
	var sess bus.Session
	n := 0
	c.Cases("plan", c.Pick(3000, 120000), func(i int, rng *rand.Rand) {
		if w == nil || n%60 == 0 {
			if w != nil {
				sess.Terminate()
				w.close()
			}
			var err error
			w, err = newWorld("unix", nil)
			if err == nil {
				sess, err = w.session()
			}
			if err != nil {
				c.Inconclusive("plan", i, "world: "+err.Error())
				w = nil
				return
			}
		}
		n++
		c16one(c, i, rng, w, sess, fmt.Sprintf("P%d", n))
	})
	c.Cases("readd", c.Pick(40, 2000), func(i int, rng *rand.Rand) { c16readd(c, i, rng) })
	c.Cases("hosted", c.Pick(240, 6000), func(i int, rng *rand.Rand) { c16hosted(c, i, rng) })
	c.Cases("collide", c.Pick(40, 2000), func(i int, rng *rand.Rand) { c16collide(c, i, rng) })
	c.Cases("flood", c.Pick(40, 4000), func(i int, rng *rand.Rand) { c16flood(c, i, rng) })
	c.Cases("crowd", c.Pick(150, 20000), func(i int, rng *rand.Rand) {
		if w == nil || n%60 == 0 {
			if w != nil {
				sess.Terminate()
				w.close()
			}
			var err error
			w, err = newWorld("unix", nil)
			if err == nil {
				sess, err = w.session()
			}
			if err != nil {
				c.Inconclusive("crowd", i, "world: "+err.Error())
				w = nil
				return
			}
		}
		n++
		c16crowd(c, i, rng, w, sess, fmt.Sprintf("Q%d", n))
	})
}

// c16crowd: one object with many registrations (3-24, spread over 1-5 raw connections and the three
// signals / properties of the interface, plus the generated proxies of a session) is removed or
// terminates itself: every (connection, signal) with an acknowledged registration must receive the
// termination error for that signal, every proxy channel must get closed, the siblings are unaffected.
func c16crowd(c *wk.Ctx, i int, rng *rand.Rand, w *world, sess bus.Session, name string) {
	ps, err := w.addProbe(name, 2, nil)
	if err != nil {
		c.Inconclusive("crowd", i, "addProbe: "+err.Error())
		return
	}
	defer ps.service.Terminate()
	// the object that goes away: the one added later, or (one case in three) the service's original
	// object, id 1, which then leaves its sibling behind
	vi := 1
	if rng.Intn(3) == 0 {
		vi = 0
	}
	var target probe.ProbeProxy
	for try := 0; ; try++ {
		target, err = proxyFor(sess, ps, ps.objs[vi])
		if err == nil {
			break
		}
		if try > 2000 {
			c.Inconclusive("crowd", i, "proxy: "+err.Error())
			return
		}
		time.Sleep(time.Millisecond)
	}
	obj := ps.objs[vi].id
	meta := target.Proxy().MetaObject()
	var sigs []uint32
	for _, n := range [][2]string{{"tick", "(L)"}, {"other", "(L)"}} {
		id, err := meta.SignalID(n[0], n[1])
		if err != nil {
			c.Inconclusive("crowd", i, "meta: "+err.Error())
			return
		}
		sigs = append(sigs, id)
	}
	if id, err := meta.PropertyID("level", "i"); err == nil {
		sigs = append(sigs, id)
	}
	nConn := 1 + rng.Intn(5)
	total := 3 + rng.Intn(22)
	type reg struct {
		conn int
		sig  uint32
	}
	var progress int64
	var mu sync.Mutex
	want := map[reg]int{} // acknowledged registrations still in place, per (connection, signal)
	told := map[reg]int{} // termination errors received
	conns := make([]*rawConn, nConn)
	for k := range conns {
		rcn, err := dialRaw(w.addr)
		if err == nil {
			var ok bool
			if ok, err = rcn.authenticate("", ""); err == nil && !ok {
				err = fmt.Errorf("refused")
			}
		}
		if err != nil {
			c.Inconclusive("crowd", i, "raw connection: "+err.Error())
			return
		}
		conns[k] = rcn
		defer rcn.close()
	}
	useProxies := rng.Intn(2) == 0
	var proxyClosed [3]int32
	nProxy := 0
	// registrations, in a PRNG order over connections and signals
	handler := uint64(rng.Int63())
	type ackedReg struct {
		r       reg
		handler uint64
	}
	var acked []ackedReg
	unregistered, sharedID := 0, 0
	for k := 0; k < total; k++ {
		r := reg{rng.Intn(nConn), sigs[rng.Intn(len(sigs))]}
		handler++
		args := rc.Encode(rc.TupleOf(rc.T(rc.Uint32), rc.T(rc.Uint32), rc.T(rc.Uint64)), rc.Tup{obj, r.sig, handler})
		f, err := conns[r.conn].call(ps.id, obj, 0, args, nil)
		if err != nil {
			c.Inconclusive("crowd", i, "registerEvent: "+err.Error())
			return
		}
		if f.H.Type == qnet.Reply {
			want[r]++
			acked = append(acked, ackedReg{r, handler})
		}
		// now and then an acknowledged registration is cancelled again (exactly as it was made)
		if len(acked) > 0 && rng.Intn(6) == 0 {
			j := rng.Intn(len(acked))
			x := acked[j]
			args := rc.Encode(rc.TupleOf(rc.T(rc.Uint32), rc.T(rc.Uint32), rc.T(rc.Uint64)), rc.Tup{obj, x.r.sig, x.handler})
			f, err := conns[x.r.conn].call(ps.id, obj, 1, args, nil)
			if err != nil {
				c.Inconclusive("crowd", i, "unregisterEvent: "+err.Error())
				return
			}
			if f.H.Type == qnet.Reply {
				want[x.r]--
				acked = append(acked[:j], acked[j+1:]...)
				unregistered++
			}
		}
		// one handler id used for two signals of the object by one connection (the second registration
		// may be refused); the first one is then cancelled: whatever was acknowledged and not cancelled remains
		if k == total/3 && rng.Intn(2) == 0 && len(sigs) >= 2 {
			cn := rng.Intn(nConn)
			handler++
			pa := rng.Perm(len(sigs))
			var mine []ackedReg
			for _, si := range pa[:2] {
				r := reg{cn, sigs[si]}
				args := rc.Encode(rc.TupleOf(rc.T(rc.Uint32), rc.T(rc.Uint32), rc.T(rc.Uint64)), rc.Tup{obj, r.sig, handler})
				f, err := conns[cn].call(ps.id, obj, 0, args, nil)
				if err != nil {
					c.Inconclusive("crowd", i, "registerEvent: "+err.Error())
					return
				}
				if f.H.Type == qnet.Reply {
					want[r]++
					mine = append(mine, ackedReg{r, handler})
				}
			}
			if len(mine) > 0 {
				x := mine[0]
				args := rc.Encode(rc.TupleOf(rc.T(rc.Uint32), rc.T(rc.Uint32), rc.T(rc.Uint64)), rc.Tup{obj, x.r.sig, x.handler})
				if f, err := conns[cn].call(ps.id, obj, 1, args, nil); err == nil && f.H.Type == qnet.Reply {
					want[x.r]--
					unregistered++
				}
				sharedID++
			}
		}
		if useProxies && k == total/2 {
			watch := func(slot int, closed func()) {
				nProxy++
				go func() { closed(); atomic.StoreInt32(&proxyClosed[slot], 1); atomic.AddInt64(&progress, 1) }()
			}
			if _, ch, err := target.SubscribeTick(); err == nil {
				watch(0, func() {
					for range ch {
					}
				})
			}
			if _, ch, err := target.SubscribeOther(); err == nil {
				watch(1, func() {
					for range ch {
					}
				})
			}
			if _, ch, err := target.SubscribeLevel(); err == nil {
				watch(2, func() {
					for range ch {
					}
				})
			}
		}
	}
	for k, rcn := range conns {
		k, rcn := k, rcn
		go func() {
			for {
				f, err := rcn.recv(0)
				if err != nil {
					return
				}
				if f.H.Type == qnet.Error && f.H.Service == ps.id && f.H.Object == obj {
					mu.Lock()
					told[reg{k, f.H.Action}]++
					mu.Unlock()
					atomic.AddInt64(&progress, 1)
				}
			}
		}()
	}
	// in a third of the plans with several connections one of them disappears without a word right before
	// the removal (the server may or may not have noticed yet): its registrations need not be told, all
	// the others must be
	vanishedConn := -1
	if nConn >= 2 && rng.Intn(3) == 0 {
		vanishedConn = rng.Intn(nConn)
		conns[vanishedConn].close()
		mu.Lock()
		for r := range want {
			if r.conn == vanishedConn {
				delete(want, r)
			}
		}
		mu.Unlock()
		for y := rng.Intn(3) * rng.Intn(200); y > 0; y-- {
			runtime.Gosched()
		}
		c.Count("crowd_plans_with_a_subscriber_connection_that_vanished", 1)
	}
	how := "Service.Remove"
	if rng.Intn(2) == 0 {
		how = "remote terminate"
		err = target.Terminate(obj)
	} else {
		err = ps.service.Remove(obj)
	}
	detail := map[string]interface{}{"service": name, "connections": nConn, "registrations_attempted": total, "registrations_acknowledged": len(want), "proxy_subscriptions": nProxy, "removal": how, "removed_object_id": obj, "connection_that_vanished_before": vanishedConn}
	if err != nil {
		c.Viol("crowd", i, "remove=error", how+" of a live object failed: "+err.Error(), detail)
		return
	}
	allTold := func() bool {
		mu.Lock()
		defer mu.Unlock()
		for r, n := range want {
			if n > 0 && told[r] == 0 {
				return false
			}
		}
		for k := 0; k < 3; k++ {
			if useProxies && k < nProxy && atomic.LoadInt32(&proxyClosed[k]) == 0 {
				return false
			}
		}
		return true
	}
	v, dump := stuck.WaitFunc(allTold, &progress, 3*time.Minute)
	switch v {
	case stuck.Stuck:
		mu.Lock()
		missing := ""
		for r, n := range want {
			if n > 0 && told[r] == 0 {
				missing += fmt.Sprintf("[connection %d signal %d] ", r.conn, r.sig)
			}
		}
		mu.Unlock()
		detail["not_told"] = missing
		detail["proxy_channels_closed"] = fmt.Sprint(proxyClosed[:nProxy])
		detail["dump"] = clipDump(dump)
		c.Viol("crowd", i, "removed=subscriber-not-told", "a subscriber of a removed object was never told", detail)
	case stuck.Watchdog:
		c.Inconclusive("crowd", i, "watchdog")
		return
	}
	if n := ps.objs[vi].impl.Terminated(); n != 1 {
		c.Viol("crowd", i, fmt.Sprintf("removed=terminated-%d-times", n), fmt.Sprintf("termination hook ran %d times", n), detail)
	}
	first, err := proxyFor(sess, ps, ps.objs[1-vi])
	if err == nil {
		var res string
		if res, err = first.Work(7, "sibling"); err == nil && res != svc.F(7, "sibling") {
			err = fmt.Errorf("wrong result %q", res)
		}
	}
	if err != nil {
		c.Viol("crowd", i, "live=unreachable", "the sibling of a removed object does not answer: "+err.Error(), detail)
	}
	if _, err := target.Work(8, "gone"); err == nil || ps.objs[vi].impl.ExecCount(8) != 0 {
		c.Viol("crowd", i, "removed=call-succeeded", "a call after the acknowledged removal succeeded or reached the object", detail)
	}
	c.Count("crowd_registrations_acknowledged", int64(len(want)))
	c.Count("crowd_registrations_cancelled_before_the_removal", int64(unregistered))
	c.Count("crowd_plans_with_one_handler_id_on_two_signals", int64(sharedID))
	c.Max("max_registrations_on_one_removed_object", int64(len(want)+nProxy))
	if len(want)+nProxy >= 3 {
		c.Nontrivial(wk.Hash64("C16crowd", i))
	}
	if c.WantSample() && i%10 == 0 {
		c.Sample(map[string]interface{}{"stream": "crowd", "plan": i, "connections": nConn, "registrations": len(want), "proxy_subscriptions": nProxy, "removal": how})
	}
}

// c16readd: one and the same Actor value lives several lives in a service: added, subscribed to, called,
// asked to terminate itself (or removed), then added again. In every life: a fresh identifier, callable,
// after the acknowledged termination the hook count has grown by exactly one, the subscriber is told,
// later calls to the old identifier fail.
func c16readd(c *wk.Ctx, i int, rng *rand.Rand) {
	w, err := newWorld("unix", nil)
	if err != nil {
		c.Inconclusive("readd", i, "world: "+err.Error())
		return
	}
	defer w.close()
	ps, err := w.addProbe("R", 1, nil)
	if err != nil {
		c.Inconclusive("readd", i, "addProbe: "+err.Error())
		return
	}
	sess, err := w.session()
	if err != nil {
		c.Inconclusive("readd", i, "session: "+err.Error())
		return
	}
	defer sess.Terminate()
	var progress int64
	im := svc.NewImpl("R#again")
	actor := probe.ProbeObject(im) // the SAME actor value is added in every life
	lives := 2 + rng.Intn(3)
	seen := map[uint32]bool{}
	detail := map[string]interface{}{"lives": lives}
	for life := 1; life <= lives; life++ {
		detail["life"] = life
		id, err := ps.service.Add(actor)
		if err != nil {
			c.Viol("readd", i, "add=error/re-added", fmt.Sprintf("adding the actor again (life %d) failed: %v", life, err), detail)
			return
		}
		seen[id] = true
		var px probe.ProbeProxy
		p, err := sess.Proxy("R", id)
		for try := 0; err != nil && try < 2000; try++ {
			time.Sleep(time.Millisecond)
			p, err = sess.Proxy("R", id)
		}
		if err != nil {
			c.Viol("readd", i, "add=not-callable/re-added", fmt.Sprintf("life %d: object %d cannot be reached: %v", life, id, err), detail)
			return
		}
		px = probe.MakeProbe(sess, p)
		token := uint64(life)
		if out, err := px.Work(token, "life"); err != nil || out != svc.F(token, "life") {
			c.Viol("readd", i, "add=not-callable/re-added", fmt.Sprintf("life %d: object %d does not answer: %q %v", life, id, out, err), detail)
			return
		}
		_, ch, err := px.SubscribeTick()
		if err != nil {
			c.Viol("readd", i, "subscribe=error/re-added", fmt.Sprintf("life %d: %v", life, err), detail)
			return
		}
		closed := make(chan struct{})
		go func() {
			for range ch {
			}
			close(closed)
		}()
		how := "remote terminate"
		if rng.Intn(3) == 0 {
			how = "Service.Remove"
			err = ps.service.Remove(id)
		} else {
			err = px.Terminate(id)
		}
		detail["removal"] = how
		if err != nil {
			c.Viol("readd", i, "remove=error/re-added", fmt.Sprintf("life %d: %s of a live object failed: %v", life, how, err), detail)
			return
		}
		if v, dump := stuck.Wait(closed, &progress, 2*time.Minute); v == stuck.Stuck {
			detail["dump"] = clipDump(dump)
			c.Viol("readd", i, "removed=subscriber-not-told/re-added", fmt.Sprintf("life %d: after the acknowledged %s of object %d its subscriber was never told", life, how, id), detail)
			return
		} else if v == stuck.Watchdog {
			c.Inconclusive("readd", i, "watchdog")
			return
		}
		if n := im.Terminated(); n != life {
			c.Viol("readd", i, fmt.Sprintf("removed=terminated-%d-times-after-%d-lives", n, life), fmt.Sprintf("after %d acknowledged terminations of the actor its hook has run %d times", life, n), detail)
			return
		}
		late := uint64(100 + life)
		if out, err := px.Work(late, "late"); err == nil || im.ExecCount(late) != 0 {
			c.Viol("readd", i, "removed=call-succeeded/re-added", fmt.Sprintf("life %d: a call after the acknowledged %s of object %d returned %q / reached the object", life, how, id, out), detail)
			return
		}
	}
	c.Count("actor_lives", int64(lives))
	c.Nontrivial(wk.Hash64("C16readd", i))
}

// c16collide: identifier collisions are forced by re-seeding the global math/rand source the service
// draws its identifiers from: the same seed is installed before several Add calls, so that each draws
// the identifier a live object already holds. Every Add must still return (quiescence detector), the
// identifiers must be unique among the live objects and every object must answer.
func c16collide(c *wk.Ctx, i int, rng *rand.Rand) {
	w, err := newWorld("unix", nil)
	if err != nil {
		c.Inconclusive("collide", i, "world: "+err.Error())
		return
	}
	defer w.close()
	ps, err := w.addProbe("K", 1, nil)
	if err != nil {
		c.Inconclusive("collide", i, "addProbe: "+err.Error())
		return
	}
	sess, err := w.session()
	if err != nil {
		c.Inconclusive("collide", i, "session: "+err.Error())
		return
	}
	defer sess.Terminate()
	var progress int64
	n := 2 + rng.Intn(6)
	seed := rng.Int63()
	type added struct {
		id   uint32
		impl *svc.Impl
	}
	var objs []added
	done := make(chan struct{})
	var addErr error
	go func() {
		defer close(done)
		for k := 0; k < n; k++ {
			im := svc.NewImpl(fmt.Sprintf("K#%d", k))
			if rng.Intn(4) != 0 {
				rand.Seed(seed) // the next identifier drawn repeats the first one of this seed
			}
			id, err := ps.service.Add(probe.ProbeObject(im))
			atomic.AddInt64(&progress, 1)
			if err != nil {
				addErr = err
				return
			}
			objs = append(objs, added{id, im})
		}
	}()
	detail := map[string]interface{}{"objects_added_with_a_repeated_seed": n}
	if v, dump := stuck.Wait(done, &progress, 3*time.Minute); v == stuck.Stuck {
		detail["dump"] = clipDump(dump)
		c.Viol("collide", i, "add=never-returned/"+wk.PanicSite(dump), "Service.Add never returned when the identifier it drew was already held", detail)
		c.Abandon("service lock held for ever")
		return
	} else if v == stuck.Watchdog {
		c.Inconclusive("collide", i, "watchdog")
		return
	}
	if addErr != nil {
		c.Viol("collide", i, "add=error", "Service.Add failed: "+addErr.Error(), detail)
		return
	}
	seen := map[uint32]bool{1: true}
	for k, o := range objs {
		if seen[o.id] {
			c.Viol("collide", i, "add=duplicate-id", fmt.Sprintf("Add #%d returned identifier %d which a live object already holds", k, o.id), detail)
			return
		}
		seen[o.id] = true
	}
	callsDone := make(chan struct{})
	var callErr string
	go func() {
		defer close(callsDone)
		for k, o := range objs {
			p, err := sess.Proxy("K", o.id)
			var out string
			if err == nil {
				out, err = probe.MakeProbe(sess, p).Work(uint64(k+1), "collide")
			}
			atomic.AddInt64(&progress, 1)
			if err != nil || out != svc.F(uint64(k+1), "collide") || o.impl.ExecCount(uint64(k+1)) != 1 {
				callErr = fmt.Sprintf("object %d (Add #%d): %q %v, executed %d times", o.id, k, out, err, o.impl.ExecCount(uint64(k+1)))
				return
			}
		}
	}()
	if v, dump := stuck.Wait(callsDone, &progress, 3*time.Minute); v == stuck.Stuck {
		detail["dump"] = clipDump(dump)
		c.Viol("collide", i, "add=not-callable/never-returned", "a call to a freshly added object never returned", detail)
		c.Abandon("calls blocked")
		return
	} else if v == stuck.Watchdog {
		c.Inconclusive("collide", i, "watchdog")
		return
	}
	if callErr != "" {
		c.Viol("collide", i, "add=not-callable", "an object returned by Add does not answer: "+callErr, detail)
		return
	}
	c.Count("collide_objects_added", int64(len(objs)))
	c.Nontrivial(wk.Hash64("C16collide", i))
}

// c16flood: an object whose method is slow is flooded from several connections (its 10-slot mailbox is
// full, further messages wait in the per-connection routing goroutines) and is asked to terminate (or
// is removed locally) in the middle of the flood; then the slow call is released. Everything returns,
// the hook ran exactly once, the sibling object keeps answering, later calls to the object fail.
func c16flood(c *wk.Ctx, i int, rng *rand.Rand) {
	w, err := newWorld("unix", nil)
	if err != nil {
		c.Inconclusive("flood", i, "world: "+err.Error())
		return
	}
	defer w.close()
	gate := make(chan struct{})
	var parked int32
	ps, err := w.addProbe("F", 3, nil)
	if err != nil {
		c.Inconclusive("flood", i, "addProbe: "+err.Error())
		return
	}
	victim, sibling := ps.objs[1], ps.objs[2]
	victim.impl.Gate = func(token uint64) {
		if token == 1 {
			atomic.StoreInt32(&parked, 1)
			<-gate
		}
	}
	nSess := 3 + rng.Intn(4)
	var progress int64
	type res struct {
		token uint64
		err   error
		out   string
	}
	var mu sync.Mutex
	var results []res
	var wg sync.WaitGroup
	call := func(p probe.ProbeProxy, token uint64) {
		defer wg.Done()
		out, err := p.Work(token, "flood")
		atomic.AddInt64(&progress, 1)
		mu.Lock()
		results = append(results, res{token, err, out})
		mu.Unlock()
	}
	proxies := make([]probe.ProbeProxy, nSess)
	sibs := make([]probe.ProbeProxy, nSess)
	for k := range proxies {
		sess, err := w.session()
		if err != nil {
			c.Inconclusive("flood", i, "session: "+err.Error())
			return
		}
		defer sess.Terminate()
		for try := 0; ; try++ {
			proxies[k], err = proxyFor(sess, ps, victim)
			if err == nil {
				sibs[k], err = proxyFor(sess, ps, sibling)
			}
			if err == nil {
				break
			}
			if try > 2000 {
				c.Inconclusive("flood", i, "proxy: "+err.Error())
				return
			}
			time.Sleep(time.Millisecond)
		}
	}
	// the slow call, then wait until it is inside the method
	wg.Add(1)
	go call(proxies[0], 1)
	for y := 0; y < 100000 && atomic.LoadInt32(&parked) == 0; y++ {
		time.Sleep(20 * time.Microsecond)
	}
	if atomic.LoadInt32(&parked) == 0 {
		close(gate)
		c.Inconclusive("flood", i, "the slow call never reached the method")
		return
	}
	before := rng.Intn(10)    // calls queued before the termination request
	after := 8 + rng.Intn(20) // calls sent after it, from all connections
	local := rng.Intn(3) == 0 // Service.Remove instead of the remote terminate()
	pause := func() { time.Sleep(time.Duration(50+rng.Intn(300)) * time.Microsecond) }
	token := uint64(10)
	for k := 0; k < before; k++ {
		wg.Add(1)
		go call(proxies[k%nSess], token)
		token++
		pause()
	}
	var termErr error
	termDone := make(chan struct{})
	go func() {
		defer close(termDone)
		if local {
			termErr = ps.service.Remove(victim.id)
		} else {
			termErr = proxies[nSess-1].Terminate(victim.id)
		}
		atomic.AddInt64(&progress, 1)
	}()
	pause()
	for k := 0; k < after; k++ {
		wg.Add(1)
		go call(proxies[k%nSess], token)
		token++
		if k%4 == 3 {
			pause()
		}
	}
	pause()
	close(gate)
	done := make(chan struct{})
	go func() { wg.Wait(); <-termDone; close(done) }()
	detail := map[string]interface{}{"connections": nSess, "calls_before_termination": before, "calls_after": after, "removal": map[bool]string{true: "Service.Remove", false: "remote terminate"}[local]}
	v, dump := stuck.Wait(done, &progress, 3*time.Minute)
	if v == stuck.Stuck {
		detail["dump"] = clipDump(dump)
		c.Viol("flood", i, "operation=never-returned/"+wk.PanicSite(dump), "calls / the termination of a flooded object never returned", detail)
		c.Abandon("server deadlocked, Terminate would block")
		return
	}
	if v == stuck.Watchdog {
		c.Inconclusive("flood", i, "watchdog")
		return
	}
	okCalls := 0
	for _, r := range results {
		if r.err == nil {
			okCalls++
			if r.out != svc.F(r.token, "flood") {
				c.Viol("flood", i, "call=wrong-result", fmt.Sprintf("call %d returned %q", r.token, r.out), detail)
				return
			}
		}
		if victim.impl.ExecCount(r.token) > 1 {
			c.Viol("flood", i, "call=executed-twice", fmt.Sprintf("call %d ran %d times", r.token, victim.impl.ExecCount(r.token)), detail)
			return
		}
	}
	detail["calls_ok"], detail["termination_error"] = okCalls, fmt.Sprint(termErr)
	if termErr == nil {
		if n := victim.impl.Terminated(); n != 1 {
			c.Viol("flood", i, fmt.Sprintf("removed=terminated-%d-times", n), fmt.Sprintf("the removal was acknowledged, the termination hook ran %d times", n), detail)
			return
		}
		if out, err := proxies[0].Work(5, "late"); err == nil || victim.impl.ExecCount(5) != 0 {
			c.Viol("flood", i, "removed=call-succeeded", fmt.Sprintf("a call after the acknowledged removal returned %q / reached the object", out), detail)
			return
		}
	} else if local {
		c.Viol("flood", i, "remove=error", "Service.Remove of a live object failed: "+termErr.Error(), detail)
		return
	}
	// the sibling must be unaffected, from every connection
	sibDone := make(chan struct{})
	var sibErr error
	go func() {
		defer close(sibDone)
		for k, p := range sibs {
			out, err := p.Work(uint64(100+k), "sib")
			atomic.AddInt64(&progress, 1)
			if err != nil || out != svc.F(uint64(100+k), "sib") {
				sibErr = fmt.Errorf("connection %d: %q %v", k, out, err)
				return
			}
		}
	}()
	if v, dump := stuck.Wait(sibDone, &progress, 3*time.Minute); v == stuck.Stuck {
		detail["dump"] = clipDump(dump)
		c.Viol("flood", i, "sibling=never-answers", "the sibling of a flooded and removed object does not answer", detail)
		c.Abandon("server deadlocked, Terminate would block")
		return
	} else if v == stuck.Watchdog {
		c.Inconclusive("flood", i, "watchdog (sibling)")
		return
	}
	if sibErr != nil {
		c.Viol("flood", i, "live=unreachable", "the sibling of a flooded and removed object fails: "+sibErr.Error(), detail)
		return
	}
	c.Count("flood_plans_termination_acknowledged", map[bool]int64{true: 1}[termErr == nil])
	c.Count("flood_calls", int64(len(results)))
	c.Nontrivial(wk.Hash64("C16flood", i))
	if c.WantSample() && i%10 == 0 {
		c.Sample(map[string]interface{}{"stream": "flood", "plan": i, "connections": nSess, "calls": len(results), "calls_ok": okCalls, "removal": detail["removal"], "termination_error": fmt.Sprint(termErr)})
	}
}

func c16one(c *wk.Ctx, i int, rng *rand.Rand, w *world, sess bus.Session, name string) {
	ps, err := w.addProbe(name, 1, nil)
	if err != nil {
		c.Inconclusive("plan", i, "addProbe: "+err.Error())
		return
	}
	// the session's service list is refreshed asynchronously: wait for the name to resolve
	var first probe.ProbeProxy
	for try := 0; ; try++ {
		first, err = proxyFor(sess, ps, ps.objs[0])
		if err == nil {
			break
		}
		if try > 2000 {
			c.Inconclusive("plan", i, "proxy: "+err.Error())
			return
		}
		time.Sleep(time.Millisecond)
	}
	var mu sync.Mutex
	objs := []*c16obj{{n: 0, id: 1, impl: ps.objs[0].impl, proxy: first}}
	var viols [][2]string
	viol := func(key, what string) {
		mu.Lock()
		viols = append(viols, [2]string{key, what})
		mu.Unlock()
	}
	var tokenSeq uint64
	var afterRemovalCalls int32
	var progress int64

	add := func() {
		im := svc.NewImpl(name + "#o")
		id, err := ps.service.Add(probe.ProbeObject(im))
		if err != nil {
			viol("add=error", "Service.Add failed: "+err.Error())
			return
		}
		mu.Lock()
		for _, o := range objs {
			if o.id == id && o.acked() == 0 {
				viols = append(viols, [2]string{"add=duplicate-id", fmt.Sprintf("Add returned id %d which a live object already holds", id)})
			}
		}
		mu.Unlock()
		p, err := sess.Proxy(name, id)
		if err != nil {
			viol("add=not-callable", fmt.Sprintf("object %d returned by Add cannot be reached: %v", id, err))
			return
		}
		o := &c16obj{id: id, impl: im, proxy: probe.MakeProbe(sess, p)}
		mu.Lock()
		o.n = len(objs)
		objs = append(objs, o)
		mu.Unlock()
	}
	pick := func(r *rand.Rand) *c16obj {
		mu.Lock()
		defer mu.Unlock()
		return objs[r.Intn(len(objs))]
	}
	call := func(o *c16obj) {
		token := atomic.AddUint64(&tokenSeq, 1)
		ackBefore := o.acked()
		st := now()
		res, err := o.proxy.Work(token, "c16")
		atomic.AddInt64(&progress, 1)
		if ackBefore != 0 && ackBefore < st {
			atomic.AddInt32(&afterRemovalCalls, 1)
			if err == nil {
				viol("removed=call-succeeded", fmt.Sprintf("a call started after object %d's removal was acknowledged returned %q", o.id, res))
			}
			if o.impl.ExecCount(token) != 0 {
				viol("removed=invoked", fmt.Sprintf("a call started after object %d's removal was acknowledged reached the object", o.id))
			}
			return
		}
		if err == nil && res != svc.F(token, "c16") {
			viol("call=wrong-result", fmt.Sprintf("object %d returned %q", o.id, res))
		}
		if err != nil && atomic.LoadInt64(&o.rmStart) == 0 {
			// no removal had even been attempted when the call returned
			viol("live=call-failed", fmt.Sprintf("call to live object %d failed: %v", o.id, err))
		}
	}
	subscribe := func(o *c16obj) {
		if o.acked() != 0 {
			return
		}
		_, ch, err := o.proxy.SubscribeTick()
		if err != nil {
			return // may race with a removal
		}
		s := &c16sub{ch: ch, ack: now()}
		o.mu.Lock()
		o.subs = append(o.subs, s)
		o.mu.Unlock()
		go func() {
			for range ch {
				atomic.AddInt32(&s.got, 1)
			}
			atomic.StoreInt32(&s.closed, 1)
		}()
	}
	ack := func(o *c16obj) {
		atomic.AddInt32(&o.removals, 1)
		atomic.CompareAndSwapInt64(&o.ackStamp, 0, now())
	}
	remove := func(o *c16obj) {
		if o.n == 0 {
			return // keep the service object
		}
		atomic.CompareAndSwapInt64(&o.rmStart, 0, now())
		if err := ps.service.Remove(o.id); err == nil {
			ack(o)
		}
	}
	terminate := func(o *c16obj) {
		if o.n == 0 {
			return
		}
		was := o.acked()
		st := now()
		atomic.CompareAndSwapInt64(&o.rmStart, 0, st)
		err := o.proxy.Terminate(o.id)
		atomic.AddInt64(&progress, 1)
		if err == nil {
			if was != 0 && was < st {
				// a later message addressed to a removed object must be answered with an error
				viol("removed=terminate-succeeded", fmt.Sprintf("terminate() sent to object %d after its removal had been acknowledged succeeded", o.id))
			}
			ack(o)
		}
	}
	step := func(r *rand.Rand) {
		switch x := r.Intn(12); {
		case x < 2:
			add()
		case x < 6:
			call(pick(r))
		case x < 7:
			subscribe(pick(r))
		case x < 9:
			remove(pick(r))
		case x < 10:
			terminate(pick(r))
		default:
			o := pick(r)
			if o.acked() != 0 {
				call(o)
			} else {
				call(o)
			}
		}
	}
	// sequential phase
	seq := 4 + rng.Intn(14)
	for k := 0; k < 2; k++ {
		add()
	}
	for k := 0; k < seq; k++ {
		step(rng)
	}
	// concurrent phase
	workers := 2 + rng.Intn(7)
	var wg sync.WaitGroup
	start := make(chan struct{})
	for g := 0; g < workers; g++ {
		wg.Add(1)
		r := rand.New(rand.NewSource(rng.Int63()))
		go func() {
			defer wg.Done()
			<-start
			for k := 0; k < 6; k++ {
				step(r)
			}
		}()
	}
	close(start)
	done := make(chan struct{})
	go func() { wg.Wait(); close(done) }()
	v, dump := stuck.Wait(done, &progress, 3*time.Minute)
	detail := map[string]interface{}{"service": name, "sequential_steps": seq, "workers": workers}
	if v == stuck.Stuck {
		detail["dump"] = clipDump(dump)
		c.Viol("plan", i, "operation=never-returned/"+wk.PanicSite(dump), "an add / remove / terminate / call operation never returned", detail)
		return
	}
	if v == stuck.Watchdog {
		c.Inconclusive("plan", i, "watchdog")
		return
	}
	// calls after removal for every removed object (sequentially: "later messages")
	mu.Lock()
	all := append([]*c16obj{}, objs...)
	mu.Unlock()
	removed := 0
	for _, o := range all {
		if o.acked() != 0 {
			removed++
			call(o)
		}
	}
	// subscribers of removed objects must see their channel closed
	subsClosed := func() bool {
		for _, o := range all {
			if o.acked() == 0 {
				continue
			}
			o.mu.Lock()
			for _, s := range o.subs {
				// only subscribers acknowledged before any removal attempt are "remaining subscribers"
				if s.ack < atomic.LoadInt64(&o.rmStart) && atomic.LoadInt32(&s.closed) == 0 {
					o.mu.Unlock()
					return false
				}
			}
			o.mu.Unlock()
		}
		return true
	}
	v, dump = stuck.WaitFunc(subsClosed, &progress, 3*time.Minute)
	if v == stuck.Stuck {
		diag := ""
		for _, o := range all {
			if o.acked() == 0 {
				continue
			}
			o.mu.Lock()
			for k, s := range o.subs {
				diag += fmt.Sprintf("[obj %d sub %d ack=%d rmStart=%d ackRemoval=%d closed=%d got=%d] ", o.id, k, s.ack, o.rmStart, o.ackStamp, s.closed, s.got)
			}
			o.mu.Unlock()
		}
		detail["subscribers"] = diag
		detail["dump"] = clipDump(dump)
		viol("removed=subscriber-not-told", "a subscriber of a removed object was never told (its channel stays open)")
	} else if v == stuck.Watchdog {
		c.Inconclusive("plan", i, "watchdog (subscribers)")
	}
	for _, o := range all {
		t := o.impl.Terminated()
		switch {
		case o.acked() != 0 && t != 1:
			viol(fmt.Sprintf("removed=terminated-%d-times", t), fmt.Sprintf("object %d: removal acknowledged %d time(s), termination hook ran %d times", o.id, atomic.LoadInt32(&o.removals), t))
		case o.acked() == 0 && t != 0:
			viol("live=terminated", fmt.Sprintf("live object %d had its termination hook run %d times", o.id, t))
		}
		if o.acked() == 0 {
			token := atomic.AddUint64(&tokenSeq, 1)
			if res, err := o.proxy.Work(token, "final"); err != nil || res != svc.F(token, "final") {
				viol("live=unreachable", fmt.Sprintf("live object %d does not answer at the end: %q %v", o.id, res, err))
			}
		}
	}
	// clean up the service so that the world can be reused
	ps.service.Terminate()
	seen := map[string]bool{}
	for _, x := range viols {
		if seen[x[0]] {
			continue
		}
		seen[x[0]] = true
		c.Viol("plan", i, x[0], x[1], detail)
	}
	c.Count("objects", int64(len(all)))
	c.Count("objects_removed", int64(removed))
	c.Count("calls_after_acknowledged_removal", int64(atomic.LoadInt32(&afterRemovalCalls)))
	if removed > 0 && atomic.LoadInt32(&afterRemovalCalls) > 0 {
		c.Nontrivial(wk.Hash64("C16", i))
	}
	if c.WantSample() && i%25 == 0 {
		c.Sample(map[string]interface{}{"plan": i, "objects": len(all), "removed": removed, "calls_after_removal": afterRemovalCalls, "sequential_steps": seq, "workers": workers})
	}
}
