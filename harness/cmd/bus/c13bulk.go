package main

import (
	"fmt"
	"math/rand"
	"sync/atomic"
	"time"

	"verif/stuck"
	"verif/wk"
)

// c13bulk: events with payloads of 5-60 KiB (signal bulk) flow to a subscriber while, on the SAME
// connection, another subscriber keeps subscribing to and cancelling another signal and a third party
// calls a method: the server writes acknowledgements and replies between the events. The reading
// subscriber must receive every event exactly once, in order, with the emitted payload, and its
// channel must stay open until it cancels.
func c13bulk(c *wk.Ctx, i int, rng *rand.Rand) {
	w, err := newWorld([]string{"unix", "tcp"}[i%2], nil)
	if err != nil {
		c.Inconclusive("bulk", i, "world: "+err.Error())
		return
	}
	defer w.close()
	ps, err := w.addProbe("B", 1, nil)
	if err != nil {
		c.Inconclusive("bulk", i, "addProbe: "+err.Error())
		return
	}
	sess, err := w.session()
	if err != nil {
		c.Inconclusive("bulk", i, "session: "+err.Error())
		return
	}
	defer sess.Terminate()
	px, err := proxyFor(sess, ps, ps.objs[0])
	for try := 0; err != nil && try < 2000; try++ {
		time.Sleep(time.Millisecond)
		px, err = proxyFor(sess, ps, ps.objs[0])
	}
	if err != nil {
		c.Inconclusive("bulk", i, "proxy: "+err.Error())
		return
	}
	impl := ps.objs[0].impl
	cancelA, chA, err := px.SubscribeBulk()
	if err != nil {
		c.Viol("bulk", i, "subscribe=error", "SubscribeBulk failed: "+err.Error(), nil)
		return
	}
	var progress int64
	total := 150 + rng.Intn(400)
	size := 5000 + rng.Intn(55000)
	payload := func(k int) string {
		b := make([]byte, size)
		for j := range b {
			b[j] = byte('a' + (k+j)%26)
		}
		return fmt.Sprintf("%08d", k) + string(b)
	}
	var received int64
	var bad atomic.Value
	readerDone := make(chan struct{})
	go func() {
		defer close(readerDone)
		next := 0
		for ev := range chA {
			atomic.AddInt64(&progress, 1)
			if int(ev.N) != next || ev.Data != payload(next) {
				bad.Store(fmt.Sprintf("event #%d: got n=%d with a %d-byte payload (expected n=%d, %d bytes, content keyed by n)", next, ev.N, len(ev.Data), next, size+8))
				return
			}
			next++
			atomic.StoreInt64(&received, int64(next))
		}
	}()
	stop := make(chan struct{})
	churnDone := make(chan struct{})
	go func() { // same proxy, same connection: subscribe / cancel the other signal, call a method
		defer close(churnDone)
		r := rand.New(rand.NewSource(int64(i) * 7919))
		for {
			select {
			case <-stop:
				return
			default:
			}
			if r.Intn(3) == 0 {
				px.Work(uint64(r.Int63()), "x")
			} else if cancel, ch, err := px.SubscribeOther(); err == nil {
				cancel()
				for range ch {
				}
			}
			atomic.AddInt64(&progress, 1)
		}
	}()
	emitErr := ""
	for k := 0; k < total && emitErr == ""; k++ {
		// flow control: at most 20 events not yet received
		y := 0
		for ; k-int(atomic.LoadInt64(&received)) > 20 && y < 200000 && bad.Load() == nil; y++ {
			time.Sleep(50 * time.Microsecond)
		}
		if bad.Load() != nil || y == 200000 {
			break // the reader does not follow any more: quiescence decides below
		}
		if err := impl.Helper.SignalBulk(uint64(k), payload(k)); err != nil {
			emitErr = err.Error()
		}
	}
	caughtUp := func() bool {
		return atomic.LoadInt64(&received) >= int64(total) || bad.Load() != nil
	}
	// the churn goroutine never blocks: stop it before asking whether anything can still move
	close(stop)
	<-churnDone
	v, _ := stuck.WaitFunc(func() bool {
		select {
		case <-readerDone:
			return true
		default:
			return caughtUp()
		}
	}, &progress, 3*time.Minute)
	detail := map[string]interface{}{"transport": []string{"unix", "tcp"}[i%2], "events": total, "payload_bytes": size + 8, "received": atomic.LoadInt64(&received)}
	if e, ok := bad.Load().(string); ok {
		c.Viol("bulk", i, "event=wrong-payload-or-order/bulk", e, detail)
		return
	}
	if emitErr != "" {
		detail["emit_error"] = emitErr
	}
	if atomic.LoadInt64(&received) < int64(total) {
		select {
		case <-readerDone:
			c.Viol("bulk", i, "event=missed/channel-closed/bulk", fmt.Sprintf("the subscriber's channel was closed after %d of %d events although it never cancelled", atomic.LoadInt64(&received), total), detail)
			return
		default:
		}
		if v == stuck.Stuck {
			c.Viol("bulk", i, "event=missed/bulk", fmt.Sprintf("only %d of %d events arrived and nothing can move any more", atomic.LoadInt64(&received), total), detail)
			return
		}
		c.Inconclusive("bulk", i, "watchdog")
		return
	}
	cancelA()
	if v, _ := stuck.Wait(readerDone, &progress, 2*time.Minute); v == stuck.Stuck {
		c.Viol("bulk", i, "cancel=channel-not-closed/bulk", "the channel was not closed after cancel", detail)
		return
	}
	c.Count("bulk_events_received", int64(total))
	c.Nontrivial(wk.Hash64("C13bulk", i))
	if c.WantSample() && i%5 == 0 {
		c.Sample(map[string]interface{}{"stream": "bulk", "events": total, "payload_bytes": size + 8, "transport": detail["transport"]})
	}
}
