package main

import (
	"fmt"
	"math/rand"
	"sync"
	"time"

	qnet "github.com/lugu/qiloop/bus/net"

	"verif/svc"
	"verif/wk"
)

// slowAuth accepts exactly (alice, s3cret), but takes its time to say so; every other pair is refused at once.
type slowAuth struct {
	delay time.Duration
	mu    sync.Mutex
	asked int
}

func (s *slowAuth) Authenticate(user, token string) bool {
	s.mu.Lock()
	s.asked++
	s.mu.Unlock()
	if user == "alice" {
		time.Sleep(s.delay)
		return token == "s3cret"
	}
	return false
}

// c06slow: an authenticator that needs 0.2 - 7 s to accept the legitimate pair (a directory look-up, a
// remote check). Connection A presents the accepted pair; connection B presents a refused pair either
// while A's request is still being examined or after A was answered; connection C presents nothing.
// Whatever happens to A (not judged: the statement does not promise service to slow credentials),
// B and C never reach the Probe service: no execution, no reply.
func c06slow(c *wk.Ctx, i int, rng *rand.Rand) {
	delays := []time.Duration{4 * time.Second, 1200 * time.Millisecond, 200 * time.Millisecond, 2500 * time.Millisecond, 7 * time.Second}
	auth := &slowAuth{delay: delays[i%len(delays)]}
	w, err := newWorld("unix", auth)
	if err != nil {
		c.Inconclusive("slow", i, "world: "+err.Error())
		return
	}
	defer w.close()
	ps, err := w.addProbe("Probe", 1, nil)
	if err != nil {
		c.Inconclusive("slow", i, "addProbe: "+err.Error())
		return
	}
	detail := map[string]interface{}{"authenticator_delay_ms": auth.delay.Milliseconds()}
	creds := func(user, token string) []byte {
		return capMap("ClientServerSocket", true, "auth_user", user, "auth_token", token)
	}
	ra, err := dialRaw(w.addr)
	if err != nil {
		c.Inconclusive("slow", i, "dial: "+err.Error())
		return
	}
	defer ra.close()
	during := i%2 == 0 // B (and C) act while A's request is still being examined
	detail["intruder_acts"] = "after the slow request was answered"
	if during {
		detail["intruder_acts"] = "while the slow request is being examined"
	}
	aDone := make(chan string, 1)
	go func() {
		f, err := ra.call(0, 0, 8, creds("alice", "s3cret"), nil)
		switch {
		case err != nil:
			aDone <- "no answer: " + err.Error()
		case f.H.Type == qnet.Reply:
			aDone <- "reply"
		default:
			aDone <- fmt.Sprintf("type %d", f.H.Type)
		}
	}()
	if !during {
		detail["slow_request_answer"] = <-aDone
	} else {
		time.Sleep(auth.delay / 8)
	}
	intrude := func(name string, authPayload []byte, token uint64) bool {
		rb, err := dialRaw(w.addr)
		if err != nil {
			c.Inconclusive("slow", i, "dial: "+err.Error())
			return false
		}
		defer rb.close()
		answer := "none sent"
		if authPayload != nil {
			f, err := rb.call(0, 0, 8, authPayload, nil)
			switch {
			case err != nil:
				answer = "no answer"
			case f.H.Type == qnet.Reply:
				answer = "reply"
			default:
				answer = fmt.Sprintf("type %d", f.H.Type)
			}
		}
		f2, err2 := rb.call(ps.id, 1, workID(w, ps), workArgs(token, "slow"), nil)
		executed := ps.objs[0].impl.ExecCount(token)
		detail["intruder"], detail["intruder_authenticate_answer"], detail["executed"] = name, answer, executed
		c.Eval(1)
		if executed != 0 || (err2 == nil && f2.H.Type == qnet.Reply) {
			c.Viol("slow", i, "unauthenticated=executed/slow-authenticator/"+name, fmt.Sprintf("connection %s, which never presented an accepted pair, had its call executed (%d) / answered while a slow authenticator (%v) was examining another connection's request", name, executed, auth.delay), detail)
			return false
		}
		return true
	}
	base := uint64(i)<<8 | 0x5100000000
	// two intruders in a row: the second one comes after whatever verdict the first one consumed or left behind
	if !intrude("refused-pair", creds("mallory", "guess"), base+1) || !intrude("no-credentials", nil, base+2) ||
		!intrude("refused-pair-again", creds("alice", "wrong"), base+3) {
		return
	}
	if during {
		detail["slow_request_answer"] = <-aDone
		// and once more after the slow verdict has come back
		if !intrude("refused-pair-late", creds("mallory", "guess"), base+4) || !intrude("refused-pair-late-2", creds("bob", "s3cret"), base+5) {
			return
		}
	}
	// A itself: counted, not judged
	f, err := ra.call(ps.id, 1, workID(w, ps), workArgs(base+9, "slow"), nil)
	if err == nil && f.H.Type == qnet.Reply {
		if got, ok := strResult(f.P); !ok || got != svc.F(base+9, "slow") {
			c.Viol("slow", i, "authenticated=wrong-result/slow-authenticator", "the legitimate connection's call returned a wrong result", detail)
			return
		}
		c.Count("slow_legitimate_connection_served", 1)
	} else {
		c.Count("slow_legitimate_connection_not_served", 1)
	}
	c.Count("slow_authenticator_plans", 1)
	c.Nontrivial(wk.Hash64("C06slow", i))
	if c.WantSample() {
		c.Sample(map[string]interface{}{"stream": "slow", "plan": detail})
	}
}
