package main

import (
	"bufio"
	"encoding/json"
	"fmt"
	"os"
	"strings"

	"github.com/lugu/qiloop/bus/directory"

	"verif/gen/probe"
	"verif/stuck"
	"verif/svc"
)

// serveInfo is what the server child announces on stdout.
type serveInfo struct {
	Addr     string            `json:"addr"`
	TCP      string            `json:"tcp"`
	Services []serveService    `json:"services"`
	Actions  map[string]uint32 `json:"actions"`
	Desk     uint32            `json:"desk"`
}

type serveService struct {
	Name    string   `json:"name"`
	ID      uint32   `json:"id"`
	Objects []uint32 `json:"objects"`
}

// serveMain is the C12 server child: directory + Probe services, then a control loop on stdin.
func serveMain(args []string) {
	addr := args[0]
	srv, err := directory.NewServer(addr, nil)
	if err != nil {
		fmt.Println("ERROR", err)
		os.Exit(1)
	}
	info := serveInfo{Addr: addr, Actions: map[string]uint32{}}
	w := &world{addr: addr, server: srv}
	for k := 0; k < 2; k++ {
		ps, err := w.addProbe(fmt.Sprintf("Probe%d", k), 3, func(im *svc.Impl) {})
		if err != nil {
			fmt.Println("ERROR", err)
			os.Exit(1)
		}
		ss := serveService{Name: ps.name, ID: ps.id}
		for _, o := range ps.objs {
			ss.Objects = append(ss.Objects, o.id)
		}
		info.Services = append(info.Services, ss)
	}
	// a service whose methods take and hand out object references (objects hosted by clients)
	if ds, err := srv.NewService("Desk", probe.DeskObject(&svc.DeskImpl{})); err == nil {
		info.Desk = ds.ServiceID()
		if p, err := srv.Session().Proxy("Desk", 1); err == nil {
			for id, mm := range p.MetaObject().Methods {
				info.Actions["desk:"+mm.Name] = id
			}
		}
	} else {
		fmt.Println("ERROR", err)
		os.Exit(1)
	}
	// action ids from the generated meta object
	{
		sess := srv.Session()
		p, err := sess.Proxy("Probe0", 1)
		if err != nil {
			fmt.Println("ERROR", err)
			os.Exit(1)
		}
		m := p.MetaObject()
		for id, mm := range m.Methods {
			info.Actions[mm.Name] = id
		}
		for id, s := range m.Signals {
			info.Actions["signal:"+s.Name] = id
		}
		for id, s := range m.Properties {
			info.Actions["property:"+s.Name] = id
		}
		_ = probe.MakeProbe
	}
	b, _ := json.Marshal(info)
	fmt.Println("READY " + string(b))
	stuckIdleControlLoop()
}

// stuckIdleControlLoop answers the parent's queries; its name whitelists it in the quiescence detector.
func stuckIdleControlLoop() {
	in := bufio.NewReader(os.Stdin)
	for {
		line, err := in.ReadString('\n')
		if err != nil {
			os.Exit(0) // parent went away
		}
		switch strings.TrimSpace(line) {
		case "STATE?":
			q, dump := stuck.Quiescent(nil)
			if q {
				d, _ := json.Marshal(dump)
				fmt.Println("QUIESCENT " + string(d))
			} else {
				fmt.Println("BUSY")
			}
		case "QUIT":
			os.Exit(0)
		}
	}
}
