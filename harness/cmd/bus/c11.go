package main

import (
	"bytes"
	"errors"
	"fmt"
	"io"
	"math/rand"
	"strings"
	"sync"
	"sync/atomic"
	"time"

	"github.com/lugu/qiloop/bus"
	qnet "github.com/lugu/qiloop/bus/net"

	"verif/ctl"
	"verif/gen/probe"
	rc "verif/refcodec"
	"verif/stuck"
	"verif/svc"
	"verif/wk"
)

func init() { engines["C11"] = c11 }

// c11plan is one fault plan of the call/subscribe scenario.
type c11plan struct {
	K        int    // concurrent calls
	Frag     int    // read fragmentation at the client: 0 = whole, n = chunks of <= n bytes
	Kind     string // none | eof | reset | short | peerclose | localclose | earlyreply | double
	At       int    // operation index (client side) or byte count (peerclose)
	At2      int    // second fault (double)
	Yield    int
	CloseErr bool // the stream's Close reports an error although it closes
	Blocking bool // the disconnect callback blocks until every call in flight has returned
	Flood    bool // the peer sends 150 events instead of one and the subscriber does not read them until the calls have returned
	describe string
}

func (p c11plan) String() string {
	return fmt.Sprintf("K=%d frag=%d %s@%d", p.K, p.Frag, p.Kind, p.At)
}

type c11obs struct {
	ops            int64
	results        []string // per call: "ok" | "err:..." | "wrong:..." | "hung"
	lateCall       string
	callbacks      int32
	moreCallbacks  [2]int32
	eventsEnd      string // closed | hung
	eventsSeen     int
	faultHit       bool
	blockedAtClose bool // stall plans: a Send was blocked in its write when the connection was closed
	verdict        stuck.Verdict
	dump           string
}

const c11svc, c11obj = 9, 1

func c11reply(req []byte) []byte { return append([]byte("rep:"), req...) }

// runScenario runs the scenario under one plan against the real client code.
func c11run(p c11plan, seed int64) c11obs {
	var obs c11obs
	var progress int64
	rng := rand.New(rand.NewSource(seed))
	a, b := ctl.Pair("client", "server", &progress)
	if p.Frag > 0 {
		fr := p.Frag
		rrng := rand.New(rand.NewSource(seed ^ 0x5a5a)) // used by the endpoint's reader goroutine only
		a.ReadChunk = func(rem int) int { return 1 + rrng.Intn(fr) }
	}
	a.Yield = p.Yield
	if p.CloseErr {
		a.CloseErr = errors.New("harness: close reported an error")
	}
	var ep qnet.EndPoint
	var faultHit int32
	// server -> client byte accounting for peerclose / earlyreply
	var srvWritten int64
	var halfClosed int32
	var replyBytes int64 // total bytes of the first reply frame, for earlyreply

	var frngMu sync.Mutex
	fault := func(kind string) *ctl.Fault {
		frngMu.Lock()
		defer frngMu.Unlock()
		switch kind {
		case "eof":
			return &ctl.Fault{Err: io.EOF}
		case "reset":
			return &ctl.Fault{Err: ctl.ErrReset}
		case "short":
			return &ctl.Fault{Err: ctl.ErrReset, Short: 1 + rng.Intn(8)}
		}
		return nil
	}
	switch p.Kind {
	case "eof", "reset", "short":
		a.FaultAt = func(op ctl.Op) *ctl.Fault {
			if int(op.Index) == p.At {
				atomic.StoreInt32(&faultHit, 1)
				return fault(p.Kind)
			}
			return nil
		}
	case "double":
		a.FaultAt = func(op ctl.Op) *ctl.Fault {
			if int(op.Index) == p.At || int(op.Index) == p.At2 {
				atomic.StoreInt32(&faultHit, 1)
				return fault("reset")
			}
			return nil
		}
	case "localclose":
		a.FaultAt = func(op ctl.Op) *ctl.Fault {
			if int(op.Index) == p.At && atomic.CompareAndSwapInt32(&faultHit, 0, 1) {
				go ep.Close()
			}
			return nil
		}
	case "earlyreply":
		a.WriteGate = func(op ctl.Op, data []byte) {
			// the call reached the server; do not let Send return before the
			// client's reader has consumed the whole reply
			atomic.StoreInt32(&faultHit, 1)
			for k := 0; k < 200000; k++ {
				rb := atomic.LoadInt64(&replyBytes)
				if rb > 0 && atomic.LoadInt64(&a.BytesRead) >= rb {
					// give the dispatcher time to run the filters
					for y := 0; y < 50; y++ {
						time.Sleep(20 * time.Microsecond)
					}
					return
				}
				time.Sleep(10 * time.Microsecond)
			}
		}
	}

	stall := p.Kind == "stall-localclose" || p.Kind == "stall-peerclose"
	stallRelease := make(chan struct{})
	stalled := make(chan struct{})
	var srvRead int64
	if stall {
		// the peer stops reading after p.At bytes of the client's output and its "socket buffer" holds 8
		// bytes: a Send blocks in the middle of a write; then the connection is closed (locally / by the peer)
		a.MaxBuffer = 8
	}

	// scripted mini-server on end b
	srvDone := make(chan struct{})
	go func() {
		defer close(srvDone)
		hdr := make([]byte, 28)
		write := func(frame []byte) bool {
			if p.Kind == "peerclose" || p.Kind == "peerhalfclose" {
				budget := int64(p.At) - atomic.LoadInt64(&srvWritten)
				if budget <= int64(len(frame)) {
					if budget > 0 {
						b.Write(frame[:budget])
						atomic.AddInt64(&srvWritten, budget)
					}
					atomic.StoreInt32(&faultHit, 1)
					if p.Kind == "peerhalfclose" {
						// shut the write side only: the client reads EOF (possibly mid-message) while
						// its own writes are still accepted and silently drained, like a TCP half-close
						b.CloseWrite()
						atomic.StoreInt32(&halfClosed, 1)
						return true
					}
					b.Close()
					return false
				}
			}
			if atomic.LoadInt32(&halfClosed) == 1 {
				return true // keep draining, never answer
			}
			if _, err := b.Write(frame); err != nil {
				return false
			}
			atomic.AddInt64(&srvWritten, int64(len(frame)))
			return true
		}
		first := true
		readFull := func(buf []byte) bool {
			if stall {
				if budget := int64(p.At) - srvRead; int64(len(buf)) > budget {
					if budget > 0 {
						io.ReadFull(b, buf[:budget])
						srvRead += budget
					}
					close(stalled)
					<-stallRelease // stops reading, keeps the connection open
					return false
				}
			}
			_, err := io.ReadFull(b, buf)
			srvRead += int64(len(buf))
			return err == nil
		}
		for {
			if !readFull(hdr) {
				return
			}
			h := rc.ParseHeader(hdr)
			payload := make([]byte, h.Size)
			if !readFull(payload) {
				return
			}
			if h.Type != qnet.Call {
				continue
			}
			if first {
				first = false
				ev := rc.Frame(rc.Header{Magic: rc.Magic, ID: 7, Type: qnet.Event, Service: c11svc, Object: c11obj, Action: 200}, []byte("event-1"))
				if p.Kind != "earlyreply" {
					n := 1
					if p.Flood {
						n = 150 // more than the subscription's queue holds
					}
					for k := 0; k < n; k++ {
						if !write(ev) {
							return
						}
					}
				}
			}
			rep := rc.Frame(rc.Header{Magic: rc.Magic, ID: h.ID, Type: qnet.Reply, Service: h.Service, Object: h.Object, Action: h.Action}, c11reply(payload))
			if p.Kind == "earlyreply" {
				atomic.StoreInt64(&replyBytes, atomic.LoadInt64(&srvWritten)+int64(len(rep)))
			}
			if !write(rep) {
				return
			}
		}
	}()

	ep = qnet.NewEndPoint(a)
	callsReturned := make(chan struct{})
	client := bus.NewClient(bus.NewChannel(ep, bus.DefaultCap()))
	client.OnDisconnect(func(err error) {
		atomic.AddInt32(&obs.callbacks, 1)
		if p.Blocking {
			// user code may block here, e.g. until the work that was in flight has been cleaned up
			<-callsReturned
		}
	})
	// two more callbacks registered beforehand: each of them fires exactly once as well
	for k := range obs.moreCallbacks {
		k := k
		client.OnDisconnect(func(err error) { atomic.AddInt32(&obs.moreCallbacks[k], 1) })
	}
	cancelSub, events, _ := client.Subscribe(c11svc, c11obj, 200)
	_ = cancelSub
	evDone := make(chan struct{})
	var evSeen int32
	go func() {
		if p.Flood {
			<-callsReturned // a subscriber that is late reading its events
		}
		for range events {
			atomic.AddInt32(&evSeen, 1)
		}
		close(evDone)
	}()

	obs.results = make([]string, p.K)
	var wg sync.WaitGroup
	start := make(chan struct{})
	for k := 0; k < p.K; k++ {
		wg.Add(1)
		go func(k int) {
			defer wg.Done()
			<-start
			req := []byte(fmt.Sprintf("req-%d-%d", k, seed))
			resp, err := client.Call(nil, c11svc, c11obj, uint32(100+k), req)
			switch {
			case err != nil:
				obs.results[k] = "err:" + err.Error()
			case bytes.Equal(resp, c11reply(req)):
				obs.results[k] = "ok"
			default:
				obs.results[k] = fmt.Sprintf("wrong:%q", resp)
			}
		}(k)
	}
	for k := range obs.results {
		obs.results[k] = "hung"
	}
	close(start)
	callsDone := make(chan struct{})
	go func() { wg.Wait(); close(callsDone); close(callsReturned) }()
	if stall {
		go func() {
			select {
			case <-callsDone:
				return
			case <-stalled:
			}
			// give the senders a bounded number of steps to run into the full buffer
			for y := 0; y < 400 && atomic.LoadInt64(&a.BlockedWrites) == 0; y++ {
				time.Sleep(25 * time.Microsecond)
			}
			if atomic.LoadInt64(&a.BlockedWrites) > 0 {
				obs.blockedAtClose = true
			}
			atomic.StoreInt32(&faultHit, 1)
			if p.Kind == "stall-localclose" {
				ep.Close()
			} else {
				b.Close()
			}
		}()
	}
	obs.verdict, obs.dump = stuck.Wait(callsDone, &progress, 2*time.Minute)
	if obs.verdict != stuck.Returned {
		close(stallRelease)
	}
	if obs.verdict != stuck.Returned {
		return obs
	}
	obs.faultHit = atomic.LoadInt32(&faultHit) == 1
	faulted := obs.faultHit && p.Kind != "earlyreply" && p.Kind != "none"
	if !faulted {
		// clean end: the server goes away after the scenario
		b.Close()
	}
	// events channel must be closed once the connection is gone
	v, d := stuck.Wait(evDone, &progress, 2*time.Minute)
	if v == stuck.Returned {
		obs.eventsEnd = "closed"
	} else if v == stuck.Stuck {
		obs.eventsEnd = "hung"
		obs.dump = d
	} else {
		obs.eventsEnd = "watchdog"
	}
	obs.eventsSeen = int(atomic.LoadInt32(&evSeen))
	// a later call on the dead connection must fail, promptly
	late := make(chan struct{})
	go func() {
		defer close(late)
		_, err := client.Call(nil, c11svc, c11obj, 150, []byte("late"))
		if err == nil {
			obs.lateCall = "ok"
		} else {
			obs.lateCall = "err"
		}
	}()
	v, d = stuck.Wait(late, &progress, 2*time.Minute)
	if v == stuck.Stuck {
		obs.lateCall = "hung"
		obs.dump = d
	} else if v == stuck.Watchdog {
		obs.lateCall = "watchdog"
	}
	// the endpoint runs the close callbacks in goroutines of their own: "ran 0 times" is decided by the
	// quiescence detector (no goroutine can move any more), never by the clock
	{
		stuck.WaitFunc(func() bool {
			if atomic.LoadInt32(&obs.callbacks) < 1 {
				return false
			}
			for k := range obs.moreCallbacks {
				if atomic.LoadInt32(&obs.moreCallbacks[k]) < 1 {
					return false
				}
			}
			return true
		}, &progress, 2*time.Minute)
	}
	// let a second (wrong) callback invocation surface
	for y := 0; y < 20; y++ {
		time.Sleep(50 * time.Microsecond)
	}
	obs.callbacks = atomic.LoadInt32(&obs.callbacks)
	for k := range obs.moreCallbacks {
		obs.moreCallbacks[k] = atomic.LoadInt32(&obs.moreCallbacks[k])
	}
	obs.ops = a.Ops()
	ep.Close()
	b.Close()
	close(stallRelease)
	<-srvDone
	return obs
}

// c11real: the same property over real transports and the real server: calls parked inside the
// method body, then the server terminates or the client closes its connection.
func c11real(c *wk.Ctx, i int, rng *rand.Rand) {
	transport := []string{"unix", "tcp"}[i%2]
	side := []string{"server-terminate", "client-close"}[(i/2)%2]
	w, err := newWorld(transport, nil)
	if err != nil {
		c.Inconclusive("real", i, "world: "+err.Error())
		return
	}
	terminated := false
	defer func() {
		if !terminated {
			w.close()
		}
	}()
	release := make(chan struct{})
	var parked int32
	ps, err := w.addProbe("Probe", 2, func(im *svc.Impl) {
		im.Gate = func(token uint64) {
			if token >= 1000 {
				return
			}
			atomic.AddInt32(&parked, 1)
			<-release
		}
	})
	if err != nil {
		c.Inconclusive("real", i, err.Error())
		return
	}
	sess, err := w.session()
	if err != nil {
		c.Inconclusive("real", i, err.Error())
		return
	}
	var progress int64
	K := 1 + rng.Intn(6)
	proxies := make([]probe.ProbeProxy, K)
	for k := range proxies {
		p, err := proxyFor(sess, ps, ps.objs[k%2])
		if err != nil {
			c.Inconclusive("real", i, err.Error())
			return
		}
		proxies[k] = p
	}
	var callbacks int32
	proxies[0].Proxy().OnDisconnect(func(error) { atomic.AddInt32(&callbacks, 1) })
	_, ticks, err := proxies[0].SubscribeTick()
	if err != nil {
		c.Inconclusive("real", i, err.Error())
		return
	}
	evDone := make(chan struct{})
	go func() {
		for range ticks {
		}
		close(evDone)
	}()
	results := make([]string, K)
	var wg sync.WaitGroup
	for k := 0; k < K; k++ {
		results[k] = "hung"
		wg.Add(1)
		go func(k int) {
			defer wg.Done()
			r, err := proxies[k].Work(uint64(k), "parked")
			switch {
			case err != nil:
				results[k] = "err"
			case r == svc.F(uint64(k), "parked"):
				results[k] = "ok"
			default:
				results[k] = "wrong:" + r
			}
		}(k)
	}
	// wait until the calls are really in flight: the two objects each hold one parked call
	stuck.WaitFunc(func() bool { return atomic.LoadInt32(&parked) >= int32(minI(K, 2)) }, &progress, time.Minute)
	if side == "server-terminate" {
		terminated = true
		go func() { w.server.Terminate() }()
	} else {
		sess.Terminate()
	}
	done := make(chan struct{})
	go func() { wg.Wait(); close(done) }()
	v, dump := stuck.Wait(done, &progress, 3*time.Minute)
	detail := map[string]interface{}{"transport": transport, "side": side, "calls": K, "results": results}
	close(release)
	if v == stuck.Stuck {
		detail["dump"] = clipDump(dump)
		c.Viol("real", i, "call=hung/"+side, "a call in flight never returned after the connection was closed", detail)
		return
	}
	if v == stuck.Watchdog {
		c.Inconclusive("real", i, "watchdog")
		return
	}
	for k, r := range results {
		if strings.HasPrefix(r, "wrong") {
			c.Viol("real", i, "call=wrong-reply/"+side, fmt.Sprintf("call %d returned %s", k, r), detail)
			return
		}
	}
	if v, _ := stuck.Wait(evDone, &progress, 3*time.Minute); v == stuck.Stuck {
		c.Viol("real", i, "events=not-closed/"+side, "the subscription channel was not closed after the connection was lost", detail)
		return
	}
	late := make(chan string, 1)
	go func() {
		if _, err := proxies[0].Work(5000, "late"); err == nil {
			late <- "ok"
		} else {
			late <- "err"
		}
	}()
	lateDone := make(chan struct{})
	lr := "hung"
	go func() { lr = <-late; close(lateDone) }()
	if v, d := stuck.Wait(lateDone, &progress, 3*time.Minute); v == stuck.Stuck {
		detail["dump"] = clipDump(d)
		c.Viol("real", i, "late-call=hung/"+side, "a call issued after the connection was lost never returned", detail)
		return
	}
	if lr == "ok" {
		c.Viol("real", i, "late-call=success/"+side, "a call issued after the connection was lost returned success", detail)
		return
	}
	// close callbacks run in goroutines of their own: "not run" is decided by quiescence, not by the clock
	stuck.WaitFunc(func() bool { return atomic.LoadInt32(&callbacks) >= 1 }, &progress, 2*time.Minute)
	for y := 0; y < 20; y++ {
		time.Sleep(50 * time.Microsecond)
	}
	if cb := atomic.LoadInt32(&callbacks); cb != 1 {
		c.Viol("real", i, fmt.Sprintf("callback=%d-times/%s", cb, side), fmt.Sprintf("the disconnect callback ran %d times", cb), detail)
		return
	}
	c.Nontrivial(wk.Hash64("C11real", transport, side, K))
	c.Count("real_plans_"+side, 1)
	if c.WantSample() && i%8 == 0 {
		c.Sample(detail)
	}
}

func c11(c *wk.Ctx) {
	c.Note("rule", "fault enumeration over one scenario: a real bus.Client on a harness stream, three OnDisconnect callbacks, one subscription, K in {1,3,8} concurrent calls answered by a scripted peer (one event, then each reply). The fault-free run counts the client's I/O operations (reads per fragment, one write per frame); plans: a fault (EOF, reset, short count + error; sticky) at every operation index, peer close after every byte count of its output, local Close() at every operation, a second fault at a later operation (thorough), a peer that stops reading after every byte count of the client's output (8-byte buffer: a Send is blocked mid-write) followed by a local Close() or a peer close, and the early-reply schedule (Send returns only after the reply was consumed by the reader); each under whole-read and fragmented-read delivery, a quarter with a stream whose Close reports an error, a third with a disconnect callback that blocks until the calls in flight have returned, a fifth with 150 events sent to a subscriber that only starts reading once the calls have returned; stream stalled = unix, tcp, tls and fd-passing pipe connections to a peer that accepts and then stops reading: 1-5 calls with 1-4 MiB of arguments (a Send blocked in the kernel mid-message), then a local Close() or a close by the peer: every call fails, a later call fails, both disconnect callbacks fire once; stream real = the same oracle over unix and tcp with the real server: 1-6 calls parked inside the method body, then Server.Terminate() or the client closing its session. Oracle: every call returns (quiescence detector), success only with its own reply; without a fault every call succeeds; after the fault later calls fail, the events channel is closed, the disconnect callback ran exactly once. Distinct non-trivial = distinct plans whose fault was actually reached while a call or the subscription was pending.")
	type cfg struct{ K, Frag int }
	cfgs := []cfg{{1, 0}, {1, 7}, {3, 0}, {3, 5}}
	if c.Thorough() {
		cfgs = append(cfgs, cfg{8, 0}, cfg{8, 16}, cfg{1, 1}, cfg{3, 64})
	} else {
		cfgs = append(cfgs, cfg{8, 0})
	}
	// build the plan list: deterministic, independent of the PRNG
	var plans []c11plan
	for _, cf := range cfgs {
		base := c11run(c11plan{K: cf.K, Frag: cf.Frag, Kind: "none"}, 1)
		n := int(base.ops) + 2
		c.Count("fault_free_ops_total", base.ops)
		plans = append(plans, c11plan{K: cf.K, Frag: cf.Frag, Kind: "none"})
		plans = append(plans, c11plan{K: cf.K, Frag: cf.Frag, Kind: "earlyreply"})
		for at := 0; at < n; at++ {
			for _, kind := range []string{"eof", "reset", "short", "localclose"} {
				plans = append(plans, c11plan{K: cf.K, Frag: cf.Frag, Kind: kind, At: at})
			}
		}
		// server output: event (28+7) + K replies (28+4+len(req)) each
		out := 35 + cf.K*(28+4+12)
		step := 1
		if cf.K == 8 && !c.Thorough() {
			step = 3
		}
		for j := 0; j <= out; j += step {
			plans = append(plans, c11plan{K: cf.K, Frag: cf.Frag, Kind: "peerclose", At: j})
			plans = append(plans, c11plan{K: cf.K, Frag: cf.Frag, Kind: "peerhalfclose", At: j})
		}
		// client output: K calls of 28 + ~25 bytes; the peer stalls after j bytes of it
		sstep := map[int]int{1: 1, 3: 2, 8: 7}[cf.K]
		if c.Thorough() {
			sstep = 1
		}
		for j := 0; j <= cf.K*56; j += sstep {
			plans = append(plans, c11plan{K: cf.K, Frag: cf.Frag, Kind: "stall-localclose", At: j})
			plans = append(plans, c11plan{K: cf.K, Frag: cf.Frag, Kind: "stall-peerclose", At: j})
		}
		if c.Thorough() {
			for at := 0; at < n; at += 2 {
				for at2 := at + 1; at2 < n && at2 < at+4; at2++ {
					plans = append(plans, c11plan{K: cf.K, Frag: cf.Frag, Kind: "double", At: at, At2: at2})
				}
			}
		}
	}
	reps := c.Pick(1, 25)
	c.Note("plans", fmt.Sprintf("%d plans x %d schedule repetitions", len(plans), reps))
	c.Cases("plan", len(plans)*reps, func(i int, rng *rand.Rand) {
		p := plans[i%len(plans)]
		p.Yield = (i / len(plans)) % 3
		p.CloseErr = rng.Intn(4) == 0
		p.Blocking = rng.Intn(3) == 0
		p.Flood = rng.Intn(5) == 0 && p.Kind != "earlyreply" && !p.Blocking
		obs := c11run(p, rng.Int63())
		detail := map[string]interface{}{"plan": p.String(), "close_reports_error": p.CloseErr, "blocking_disconnect_callback": p.Blocking, "event_flood_with_a_late_reader": p.Flood, "results": obs.results, "callbacks": obs.callbacks, "events": obs.eventsEnd, "late_call": obs.lateCall, "fault_reached": obs.faultHit}
		key := func(k string) string { return k + "/fault=" + p.Kind }
		if obs.verdict == stuck.Stuck {
			detail["dump"] = clipDump(obs.dump)
			c.Viol("plan", i, key("call=hung"), "a call in flight never returned after the connection failed", detail)
			return
		}
		if obs.verdict == stuck.Watchdog {
			c.Inconclusive("plan", i, "watchdog "+p.String())
			return
		}
		faulted := obs.faultHit && p.Kind != "earlyreply" && p.Kind != "none"
		for k, r := range obs.results {
			if len(r) >= 6 && r[:6] == "wrong:" {
				c.Viol("plan", i, key("call=wrong-reply"), fmt.Sprintf("call %d returned a result that is not its own reply: %s", k, r), detail)
				return
			}
			if !faulted && r != "ok" {
				c.Viol("plan", i, key("call=failed-without-fault"), fmt.Sprintf("call %d failed although the connection was healthy: %s", k, r), detail)
				return
			}
		}
		if obs.eventsEnd == "hung" {
			detail["dump"] = clipDump(obs.dump)
			c.Viol("plan", i, key("events=not-closed"), "the subscription channel was not closed after the connection was lost", detail)
			return
		}
		if obs.lateCall == "hung" {
			detail["dump"] = clipDump(obs.dump)
			c.Viol("plan", i, key("late-call=hung"), "a call issued after the connection was lost never returned", detail)
			return
		}
		if obs.lateCall == "ok" {
			c.Viol("plan", i, key("late-call=success"), "a call issued after the connection was lost returned success", detail)
			return
		}
		if obs.callbacks != 1 {
			c.Viol("plan", i, key(fmt.Sprintf("callback=%d-times", obs.callbacks)), fmt.Sprintf("the disconnect callback ran %d times", obs.callbacks), detail)
			return
		}
		for k, n := range obs.moreCallbacks {
			if n != 1 {
				c.Viol("plan", i, key(fmt.Sprintf("callback=%d-times", n)), fmt.Sprintf("disconnect callback #%d of three registered beforehand ran %d times", k+2, n), detail)
				return
			}
		}
		if !faulted && p.Kind != "earlyreply" && !p.Flood && obs.eventsSeen != 1 {
			c.Viol("plan", i, key("event=lost"), fmt.Sprintf("%d events delivered to the subscriber, 1 was sent", obs.eventsSeen), detail)
			return
		}
		if obs.eventsEnd == "watchdog" || obs.lateCall == "watchdog" {
			c.Inconclusive("plan", i, "watchdog "+p.String())
			return
		}
		if obs.faultHit || p.Kind == "none" {
			c.Nontrivial(wk.Hash64("C11", p.String()))
			c.Count("plans_fault_reached_"+p.Kind, 1)
			if obs.blockedAtClose {
				c.Count("plans_closed_while_a_send_was_blocked_mid_write", 1)
			}
		} else {
			c.Count("plans_fault_not_reached", 1)
		}
		if c.WantSample() && i%97 == 0 {
			c.Sample(detail)
		}
	})
	c.Cases("stalled", c.Pick(48, 1200), func(i int, rng *rand.Rand) { c11stalled(c, i, rng) })
	c.Cases("real", c.Pick(48, 6000), func(i int, rng *rand.Rand) { c11real(c, i, rng) })
}
