// bus worker: engines for the connection / client / server properties
// (C04 C06 C10 C11 C13 C14 C15 C16 C17 C19). Runs one shard segment and exits.
package main

import (
	"fmt"
	"io/ioutil"
	"log"
	"os"
	"sync/atomic"
	"time"

	"verif/stuck"
	"verif/wk"
)

var engines = map[string]func(*wk.Ctx){}

// clock is the logical clock of histories: one process-wide atomic counter.
var clock int64

func now() int64 { return atomic.AddInt64(&clock, 1) }

func main() {
	if len(os.Args) < 2 {
		fmt.Fprintln(os.Stderr, "usage: bus <property> [flags]")
		os.Exit(2)
	}
	if os.Args[1] == "serve" {
		log.SetOutput(ioutil.Discard)
		serveMain(os.Args[2:])
		return
	}
	f, ok := engines[os.Args[1]]
	if !ok {
		fmt.Fprintln(os.Stderr, "unknown property", os.Args[1])
		os.Exit(2)
	}
	// qiloop logs every dropped message: keep stderr for crashes and race reports
	log.SetOutput(ioutil.Discard)
	c := wk.Parse(os.Args[1], os.Args[2:])
	if c.Shard == 0 && c.Only < 0 {
		// self-test of the quiescence detector (the oracle for "never returns"): with every helper
		// goroutine of this process running, a deliberately blocked goroutine must be declared stuck
		done, block := make(chan struct{}), make(chan struct{})
		go func() { <-block; close(done) }()
		if v, dump := stuck.Wait(done, nil, time.Minute); v != stuck.Stuck {
			fmt.Fprintf(os.Stderr, "SELFTEST: the quiescence detector did not report a blocked goroutine (verdict %v)\n%s\n", v, dump)
			os.Exit(5)
		}
		close(block)
		c.Count("quiescence_detector_selftest_passed", 1)
	}
	f(c)
	if n := atomic.LoadInt64(&proxyViaRef); n > 0 {
		c.Count("proxies_obtained_through_object_references", n)
	}
	c.Done()
}
