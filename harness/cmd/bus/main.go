// bus worker: engines for the connection / client / server properties
// (C04 C06 C10 C11 C13 C14 C15 C16 C17 C19). Runs one shard segment and exits.
package main

import (
	"fmt"
	"io/ioutil"
	"log"
	"os"
	"sync/atomic"

	"verif/wk"
)

var engines = map[string]func(*wk.Ctx){}

// clock is the logical clock of histories: one process-wide atomic counter.
var clock int64

func now() int64 { return atomic.AddInt64(&clock, 1) }

func main() {
	if len(os.Args) < 2 {
		fmt.Fprintln(os.Stderr, "usage: bus <property> [flags]")
		os.Exit(2)
	}
	if os.Args[1] == "serve" {
		log.SetOutput(ioutil.Discard)
		serveMain(os.Args[2:])
		return
	}
	f, ok := engines[os.Args[1]]
	if !ok {
		fmt.Fprintln(os.Stderr, "unknown property", os.Args[1])
		os.Exit(2)
	}
	// qiloop logs every dropped message: keep stderr for crashes and race reports
	log.SetOutput(ioutil.Discard)
	c := wk.Parse(os.Args[1], os.Args[2:])
	f(c)
	c.Done()
}
