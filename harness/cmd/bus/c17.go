package main

import (
	"errors"
	"fmt"
	"math/rand"
	"runtime"
	"sync"
	"sync/atomic"
	"time"

	qnet "github.com/lugu/qiloop/bus/net"

	"verif/ctl"
	rc "verif/refcodec"
	"verif/stuck"
	"verif/wk"
)

func init() { engines["C17"] = c17 }

// hrec is the monitor record of one handler.
type hrec struct {
	n           int   // harness number
	id          int   // id returned by MakeHandler
	regStamp    int64 // clock when MakeHandler returned
	closerCount int32
	closerStamp int64 // clock inside the (first) closer call
	queueClosed int32
	received    int32
	lateMatch   int32 // filter matched after the closer ran
	pattern     uint32
	keepFor     int32 // self-removal after this many matches (0 = keep)
	matches     int32
	queue       chan *qnet.Message
	kind        string // make (MakeHandler) | add (AddHandler: own queue inside the endpoint) | any (ReceiveAny: one-shot, no closer, no id)
}

type c17plan struct {
	workers int
	ops     int
}

func c17(c *wk.Ctx) {
	c.Note("rule", "each plan: one endpoint over a harness stream, 2-12 goroutines released by a barrier doing PRNG-chosen MakeHandler / AddHandler / ReceiveAny (filters: never/always/pattern x keep/self-remove after n, with scheduling yields inside the filter), RemoveHandler (live, stale, unknown, negative ids), peer frames, then a shutdown - local Close(), peer close between two frames, both, peer close inside a frame (header or payload cut), a transport error which is not end-of-file (reset), or a frame the endpoint refuses (wrong magic) -, possibly concurrent with further operations; in a quarter of the plans the stream's Close reports an error although it closes. Oracle at quiescence (decided by the goroutine-state quiescence detector, not a timeout): every handler whose MakeHandler returned before shutdown started has closer==1 and queue closed once; others <=1; no filter match after the closer ran; RemoveHandler of unknown/removed ids returns an error; an id is never handed out while its previous holder is still open; no panic (child crash), no deadlock; stream blocked-reply = the connection is shut down (locally or by the peer) while the endpoint is blocked writing a 'consumer blocked' reply to a peer that does not read (bounded harness stream): the shutdown must complete and every handler be closed once; in half of these plans other goroutines first remove the handlers (some of which leave by themselves with the message being refused) and register new ones while the write is blocked, then the peer resumes reading. Stream register-burst = 12 rounds per case of 4-16 goroutines spinning on a barrier and then registering 1-4 handlers each on a fresh endpoint (some earlier handlers removed first, so that freed slots are reused): identifiers held at the same time are pairwise distinct and Close() runs every close callback once. Stream unknown-ids = with 0-25 handlers registered and a few removed, RemoveHandler of every id from -3 to n+24 that is not held returns an error, does not panic and closes nothing. Distinct non-trivial = distinct plans in which at least two goroutines operated on the handler table and shutdown closed at least one handler.")
	c.Cases("plan", c.Pick(8000, 600000), func(i int, rng *rand.Rand) { c17one(c, i, rng) })
	c.Cases("unknown-ids", c.Pick(300, 20000), func(i int, rng *rand.Rand) { c17unknown(c, i, rng) })
	c.Cases("register-burst", c.Pick(150, 10000), func(i int, rng *rand.Rand) { c17burst(c, i, rng) })
	c.Cases("blocked-reply", c.Pick(60, 10000), func(i int, rng *rand.Rand) { c17blocked(c, i, rng) })
}

// c17unknown: removal of every id around the handler table (never handed out, negative, just past the
// end, already removed) on an endpoint with n live handlers: an error, no panic, the live handlers untouched.
func c17unknown(c *wk.Ctx, i int, rng *rand.Rand) {
	var progress int64
	a, b := ctl.Pair("endpoint", "peer", &progress)
	ep := qnet.NewEndPoint(a)
	n := rng.Intn(26)
	closers := make([]int32, n)
	ids := map[int]int{}
	for k := 0; k < n; k++ {
		k := k
		q := make(chan *qnet.Message, 4)
		id := ep.MakeHandler(func(*qnet.Header) (bool, bool) { return false, true }, q, func(error) { atomic.AddInt32(&closers[k], 1) })
		if _, dup := ids[id]; dup {
			c.Viol("unknown-ids", i, "id=reused-while-open", fmt.Sprintf("MakeHandler handed out id %d twice", id), nil)
		}
		ids[id] = k
	}
	// remove a few, so that stale ids exist too
	removed := map[int]bool{}
	for id, k := range ids {
		if rng.Intn(4) == 0 {
			if err := ep.RemoveHandler(id); err != nil {
				c.Viol("unknown-ids", i, "remove=live-refused", fmt.Sprintf("RemoveHandler(%d) of a live handler: %v", id, err), nil)
			}
			removed[id] = true
			_ = k
		}
	}
	detail := map[string]interface{}{"live_handlers": n - len(removed), "removed": len(removed)}
	checked := 0
	for id := -3; id <= n+24; id++ {
		if _, live := ids[id]; live && !removed[id] {
			continue
		}
		var err error
		pv, stack := wk.Try(func() { err = ep.RemoveHandler(id) })
		if pv != nil {
			c.Viol("unknown-ids", i, "remove=panic/"+wk.PanicSite(stack), fmt.Sprintf("RemoveHandler(%d) with %d handlers registered panicked: %v", id, n, pv), detail)
			break
		}
		if err == nil {
			c.Viol("unknown-ids", i, "remove=unknown-accepted", fmt.Sprintf("RemoveHandler(%d) of an id that is not held returned nil (%d handlers registered)", id, n), detail)
			break
		}
		checked++
	}
	for id, k := range ids {
		want := int32(0)
		if removed[id] {
			want = 1
		}
		if got := atomic.LoadInt32(&closers[k]); got != want {
			c.Viol("unknown-ids", i, "remove=unknown-closed-a-handler", fmt.Sprintf("handler %d: closer ran %d times, expected %d", id, got, want), detail)
			break
		}
	}
	ep.Close()
	b.Close()
	c.Count("unknown_id_removals_checked", int64(checked))
	c.Nontrivial(wk.Hash64("C17unknown", n, len(removed)))
	if c.WantSample() && i%50 == 0 {
		c.Sample(map[string]interface{}{"stream": "unknown-ids", "handlers": n, "removed_first": len(removed), "unknown_ids_tried": checked})
	}
}

// c17burst: nothing but registrations, as concurrent as the machine allows: g goroutines spin on a
// barrier and then register k handlers each (MakeHandler / AddHandler / ReceiveAny) on one endpoint,
// some rounds with earlier handlers removed first so that freed slots are reused. All identifiers
// held at the same time are distinct; after Close every handler is closed exactly once.
func c17burst(c *wk.Ctx, i int, rng *rand.Rand) {
	rounds := 12
	for round := 0; round < rounds; round++ {
		var progress int64
		a, b := ctl.Pair("endpoint", "peer", &progress)
		ep := qnet.NewEndPoint(a)
		g := 4 + rng.Intn(13)
		k := 1 + rng.Intn(4)
		// earlier handlers, some removed: the burst then races for the freed slots
		pre := rng.Intn(6)
		preIDs := make([]int, pre)
		preClosers := make([]int32, pre)
		for x := 0; x < pre; x++ {
			x := x
			preIDs[x] = ep.MakeHandler(func(*qnet.Header) (bool, bool) { return false, true }, make(chan *qnet.Message, 1), func(error) { atomic.AddInt32(&preClosers[x], 1) })
		}
		held := map[int]string{}
		for x := 0; x < pre; x++ {
			if rng.Intn(2) == 0 {
				ep.RemoveHandler(preIDs[x])
			} else {
				held[preIDs[x]] = fmt.Sprintf("earlier handler %d", x)
			}
		}
		type reg struct {
			id      int
			closers *int32
			how     string
		}
		regs := make([][]reg, g)
		kinds := make([]int, g)
		for w := range kinds {
			kinds[w] = rng.Intn(3)
		}
		var ready, done sync.WaitGroup
		var start int32
		ready.Add(g)
		done.Add(g)
		for w := 0; w < g; w++ {
			w := w
			go func() {
				defer done.Done()
				ready.Done()
				for spins := 0; atomic.LoadInt32(&start) == 0; spins++ { // spin: all registrations start at the same moment
					if spins > 5000 {
						runtime.Gosched()
					}
				}
				for x := 0; x < k; x++ {
					n := new(int32)
					switch kinds[w] {
					case 0:
						id := ep.MakeHandler(func(*qnet.Header) (bool, bool) { return false, true }, make(chan *qnet.Message, 1), func(error) { atomic.AddInt32(n, 1) })
						regs[w] = append(regs[w], reg{id, n, "MakeHandler"})
					case 1:
						id := ep.AddHandler(func(*qnet.Header) (bool, bool) { return false, true }, func(*qnet.Message) error { return nil }, func(error) { atomic.AddInt32(n, 1) })
						regs[w] = append(regs[w], reg{id, n, "AddHandler"})
					default:
						id := ep.MakeHandler(func(*qnet.Header) (bool, bool) { return false, true }, make(chan *qnet.Message, 1), func(error) { atomic.AddInt32(n, 1) })
						regs[w] = append(regs[w], reg{id, n, "MakeHandler"})
						runtime.Gosched()
					}
				}
			}()
		}
		ready.Wait()
		atomic.StoreInt32(&start, 1)
		done.Wait()
		detail := map[string]interface{}{"goroutines": g, "registrations_each": k, "earlier_handlers": pre, "round": round}
		bad := false
		for w := range regs {
			for x, r := range regs[w] {
				who := fmt.Sprintf("%s #%d of goroutine %d", r.how, x, w)
				if other, dup := held[r.id]; dup {
					c.Viol("register-burst", i, "id=reused-while-open", fmt.Sprintf("identifier %d was handed to %s while %s still holds it", r.id, who, other), detail)
					bad = true
				}
				held[r.id] = who
			}
		}
		ep.Close()
		b.Close()
		// Close() runs the close callbacks in goroutines of their own: wait until all have run, or nothing moves any more
		settled := func() bool {
			for w := range regs {
				for _, r := range regs[w] {
					if atomic.LoadInt32(r.closers) < 1 {
						return false
					}
				}
			}
			return true
		}
		if v, _ := stuck.WaitFunc(settled, &progress, 2*time.Minute); v == stuck.Watchdog {
			c.Inconclusive("register-burst", i, "watchdog")
			return
		}
		for w := range regs {
			for x, r := range regs[w] {
				if n := atomic.LoadInt32(r.closers); n != 1 && !bad {
					c.Viol("register-burst", i, fmt.Sprintf("closer=ran-%d-times/burst", n), fmt.Sprintf("after Close() the close callback of %s #%d of goroutine %d (id %d) had run %d times", r.how, x, w, r.id, n), detail)
					bad = true
				}
			}
		}
		c.Count("concurrent_registrations", int64(g*k))
		if bad {
			return
		}
	}
	c.Nontrivial(wk.Hash64("C17burst", i))
}

// c17blocked: the endpoint is busy answering "consumer blocked" to a peer that does not read (its
// write is blocked, like on a full socket buffer) when the connection is shut down: the shutdown
// must complete and every handler must be closed once.
func c17blocked(c *wk.Ctx, i int, rng *rand.Rand) {
	var progress int64
	a, b := ctl.Pair("endpoint", "peer", &progress)
	a.MaxBuffer = 1 + rng.Intn(40)
	ep := qnet.NewEndPoint(a)
	type hh struct {
		closer, qclosed int32
		queue           chan *qnet.Message
		id              int
		seen            int32
	}
	// variant "operations": while the endpoint is blocked writing the refusal, other goroutines remove the
	// handlers (some of which remove themselves with the very message being refused: keep = false once
	// their one-slot queue is full) and register new ones; then the peer starts reading, the operations
	// complete and the connection is closed. Every handler must be closed exactly once.
	opsVariant := rng.Intn(2) == 0
	n := 1 + rng.Intn(3)
	hs := make([]*hh, n)
	release := make(chan struct{})
	var wg sync.WaitGroup
	consume := func(h *hh) {
		wg.Add(1)
		go func() {
			defer wg.Done()
			<-release // a consumer that does not drain its queue until the shutdown
			for range h.queue {
			}
			atomic.AddInt32(&h.qclosed, 1)
		}()
	}
	for k := range hs {
		h := &hh{queue: make(chan *qnet.Message, 1)}
		hs[k] = h
		keepFor := int32(1 << 30)
		if opsVariant && rng.Intn(2) == 0 {
			keepFor = int32(1 + rng.Intn(2)) // leaves by itself with the 2nd / 3rd message it selects
		}
		h.id = ep.MakeHandler(func(*qnet.Header) (bool, bool) { return true, atomic.AddInt32(&h.seen, 1) <= keepFor }, h.queue, func(error) { atomic.AddInt32(&h.closer, 1) })
		consume(h)
	}
	frames := 3 + rng.Intn(6)
	for k := 0; k < frames; k++ {
		b.Write(rc.Frame(rc.Header{Magic: rc.Magic, ID: uint32(k), Type: qnet.Call, Service: 1, Object: 1, Action: 7}, nil))
	}
	// wait until the endpoint is really blocked in its reply (or has nothing left to do)
	stuck.WaitFunc(func() bool { return atomic.LoadInt64(&a.BlockedWrites) > 0 }, &progress, 20*time.Second)
	blocked := atomic.LoadInt64(&a.BlockedWrites) > 0
	how := []string{"local Close", "peer close"}[rng.Intn(2)]
	detail := map[string]interface{}{"handlers": n, "frames": frames, "max_buffer": a.MaxBuffer, "shutdown": how, "reply_write_blocked": blocked, "operations_while_replying": opsVariant}
	if opsVariant {
		var owg sync.WaitGroup
		var lateMu sync.Mutex
		for _, h := range hs {
			if rng.Intn(4) == 0 {
				continue
			}
			owg.Add(1)
			go func(h *hh) {
				defer owg.Done()
				ep.RemoveHandler(h.id) // succeeds, or fails because the handler left by itself: not judged
				atomic.AddInt64(&progress, 1)
			}(h)
		}
		for k := rng.Intn(3); k > 0; k-- {
			owg.Add(1)
			go func() {
				defer owg.Done()
				h := &hh{queue: make(chan *qnet.Message, 1)}
				h.id = ep.MakeHandler(func(*qnet.Header) (bool, bool) { return false, true }, h.queue, func(error) { atomic.AddInt32(&h.closer, 1) })
				lateMu.Lock()
				hs = append(hs, h)
				lateMu.Unlock()
				consume(h)
				atomic.AddInt64(&progress, 1)
			}()
		}
		// give the operations a chance to run into the blocked endpoint, then let the peer read
		for y := rng.Intn(200); y > 0; y-- {
			runtime.Gosched()
		}
		go func() {
			buf := make([]byte, 4096)
			for {
				if _, err := b.Read(buf); err != nil {
					return
				}
			}
		}()
		odone := make(chan struct{})
		go func() { owg.Wait(); close(odone) }()
		if v, dump := stuck.Wait(odone, &progress, 2*time.Minute); v == stuck.Stuck {
			detail["dump"] = clipDump(dump)
			c.Viol("blocked-reply", i, "deadlock=operations-while-replying/"+wk.PanicSite(dump), "RemoveHandler / MakeHandler never returned although the peer resumed reading", detail)
			return
		} else if v == stuck.Watchdog {
			c.Inconclusive("blocked-reply", i, "watchdog")
			return
		}
		c.Count("blocked_reply_plans_with_operations_during_the_write", 1)
	}
	done := make(chan struct{})
	go func() {
		if how == "local Close" {
			ep.Close()
		} else {
			b.Close()
		}
		close(done)
	}()
	v, dump := stuck.Wait(done, &progress, 2*time.Minute)
	if v == stuck.Stuck {
		detail["dump"] = clipDump(dump)
		c.Viol("blocked-reply", i, "deadlock=shutdown-while-replying/"+wk.PanicSite(dump), "shutting the connection down never completed while the endpoint was blocked writing a reply", detail)
		return
	}
	close(release)
	settled := func() bool {
		for _, h := range hs {
			if atomic.LoadInt32(&h.closer) < 1 || atomic.LoadInt32(&h.qclosed) < 1 {
				return false
			}
		}
		return true
	}
	v, dump = stuck.WaitFunc(settled, &progress, 2*time.Minute)
	if v == stuck.Stuck {
		detail["dump"] = clipDump(dump)
		c.Viol("blocked-reply", i, "closer=never/blocked-reply", "a handler registered before shutdown was never closed (the endpoint was blocked writing a reply)", detail)
		ep.Close()
		b.Close()
		return
	}
	for _, h := range hs {
		if atomic.LoadInt32(&h.closer) > 1 {
			c.Viol("blocked-reply", i, "closer=twice/blocked-reply", "a handler was closed twice", detail)
		}
	}
	ep.Close()
	b.Close()
	if blocked {
		c.Nontrivial(wk.Hash64("C17blocked", i))
		c.Count("shutdowns_with_a_blocked_reply_write", 1)
	}
	if c.WantSample() && i%10 == 0 {
		detail["stream"] = "blocked-reply"
		c.Sample(detail)
	}
}

func c17one(c *wk.Ctx, i int, rng *rand.Rand) {
	var progress int64
	planDone := make(chan struct{})
	defer close(planDone)
	a, b := ctl.Pair("endpoint", "peer", &progress)
	rrng := rand.New(rand.NewSource(rng.Int63())) // used by the endpoint's reader goroutine only
	a.ReadChunk = func(rem int) int { return 1 + rrng.Intn(64) }
	if rng.Intn(4) == 0 {
		// a transport whose Close reports an error although it closes (tls without close_notify)
		a.CloseErr = errors.New("harness: close reported an error")
	}
	ep := qnet.NewEndPoint(a)

	var mu sync.Mutex
	var recs []*hrec
	byID := map[int]*hrec{} // current holder per id (harness view)
	var shutdownStamp int64 // clock when shutdown was requested (0 = not yet)
	var viols []string
	viol := func(key, what string) {
		mu.Lock()
		viols = append(viols, key+"\x00"+what)
		mu.Unlock()
	}
	var wgConsumers sync.WaitGroup
	// once ReceiveAny was used, slot ownership is no longer fully known to the monitor: the
	// id-based checks (remove twice, remove without close, id reuse) are skipped for the plan
	anonSlots := false

	register := func(r *rand.Rand) {
		h := &hrec{pattern: uint32(r.Intn(4)), queue: make(chan *qnet.Message, 64)}
		kind := r.Intn(3) // 0 never, 1 always, 2 pattern
		if r.Intn(3) == 0 {
			h.keepFor = int32(1 + r.Intn(3))
		}
		yields := r.Intn(4)
		filter := func(hdr *qnet.Header) (bool, bool) {
			for k := 0; k < yields; k++ {
				runtime.Gosched()
			}
			match := kind == 1 || kind == 2 && hdr.Action%4 == h.pattern
			if !match {
				return false, true
			}
			if atomic.LoadInt32(&h.closerCount) > 0 {
				atomic.AddInt32(&h.lateMatch, 1)
			}
			n := atomic.AddInt32(&h.matches, 1)
			if h.keepFor > 0 && n >= h.keepFor {
				return true, false
			}
			return true, true
		}
		closer := func(err error) {
			if atomic.AddInt32(&h.closerCount, 1) == 1 {
				atomic.StoreInt64(&h.closerStamp, now())
			}
		}
		h.kind = "make"
		switch r.Intn(10) {
		case 0:
			h.kind = "add"
		case 1:
			h.kind = "any"
		}
		if h.kind == "any" {
			// one-shot handler created by the endpoint itself: its channel must be closed exactly once,
			// after the first message or at shutdown
			mu.Lock()
			anonSlots = true // a slot is now held by a handler whose id the harness cannot know
			ch, _ := ep.ReceiveAny()
			h.id = -1
			h.regStamp = now()
			h.n = len(recs)
			recs = append(recs, h)
			mu.Unlock()
			wgConsumers.Add(1)
			go func() {
				defer wgConsumers.Done()
				for {
					select {
					case _, ok := <-ch:
						if ok {
							atomic.AddInt32(&h.received, 1)
							continue
						}
						atomic.AddInt32(&h.queueClosed, 1)
						atomic.AddInt32(&h.closerCount, 1) // no closer exists: the close of the channel stands for it
						atomic.StoreInt64(&h.closerStamp, now())
						return
					case <-planDone:
						return // created after the shutdown: closed by nobody
					}
				}
			}()
			return
		}
		if h.kind == "add" {
			mu.Lock()
			id := ep.AddHandler(filter, func(m *qnet.Message) error { atomic.AddInt32(&h.received, 1); return nil }, closer)
			h.id = id
			h.regStamp = now()
			h.n = len(recs)
			recs = append(recs, h)
			if prev, ok := byID[id]; ok && shutdownStamp == 0 && !anonSlots && atomic.LoadInt32(&prev.closerCount) == 0 {
				viols = append(viols, "id=reused-while-open\x00"+fmt.Sprintf("AddHandler returned id %d while the previous holder of that id is still open", id))
			}
			byID[id] = h
			mu.Unlock()
			atomic.StoreInt32(&h.queueClosed, 1) // the queue is internal to the endpoint: not observable
			return
		}
		wgConsumers.Add(1)
		go func() {
			defer wgConsumers.Done()
			for {
				select {
				case _, ok := <-h.queue:
					if !ok {
						atomic.AddInt32(&h.queueClosed, 1)
						return
					}
					atomic.AddInt32(&h.received, 1)
				case <-planDone:
					// handlers registered after the shutdown are closed by nobody: their consumers end with the plan
					return
				}
			}
		}()
		// the monitor's table is updated atomically with the endpoint's: mu is held
		// across MakeHandler (closers and filters never take mu, RemoveHandler callers
		// do not hold it), so byID[id] is always the registration currently in slot id.
		mu.Lock()
		id := ep.MakeHandler(filter, h.queue, closer)
		h.id = id
		h.regStamp = now()
		h.n = len(recs)
		recs = append(recs, h)
		if prev, ok := byID[id]; ok && shutdownStamp == 0 && !anonSlots {
			if atomic.LoadInt32(&prev.closerCount) == 0 {
				viols = append(viols, "id=reused-while-open\x00"+fmt.Sprintf("MakeHandler returned id %d while the previous holder of that id is still open", id))
			}
		}
		byID[id] = h
		mu.Unlock()
	}
	remove := func(r *rand.Rand) {
		mu.Lock()
		var id int
		expectErr := false
		var target *hrec
		switch k := r.Intn(10); {
		case k < 6 && len(recs) > 0:
			target = recs[r.Intn(len(recs))]
			id = target.id
			if id < 0 {
				target = nil
				id = -1
				expectErr = true
			}
		case k < 8:
			id = -1 - r.Intn(5)
			expectErr = true
		default:
			id = 1000 + r.Intn(1000)
			expectErr = true
		}
		mu.Unlock()
		err := ep.RemoveHandler(id)
		if expectErr && err == nil {
			viol("remove=unknown-accepted", fmt.Sprintf("RemoveHandler(%d) of an id never handed out returned nil", id))
		}
		mu.Lock()
		anon := anonSlots
		mu.Unlock()
		if target != nil && err == nil && !anon {
			// the holder of that id at that moment must have been closed by this call (or be closed already and the id re-held)
			mu.Lock()
			cur := byID[id]
			mu.Unlock()
			if cur == target && atomic.LoadInt32(&target.closerCount) == 0 {
				viol("remove=ok-not-closed", fmt.Sprintf("RemoveHandler(%d) returned nil but the handler's closer did not run", id))
			}
		}
	}
	var frames int32
	send := func(r *rand.Rand) {
		h := rc.Header{Magic: rc.Magic, ID: r.Uint32(), Type: uint8(1 + r.Intn(8)), Action: uint32(r.Intn(8)), Service: 1, Object: 1}
		p := make([]byte, r.Intn(40))
		b.Write(rc.Frame(h, p))
		atomic.AddInt32(&frames, 1)
	}
	removeTwice := func(r *rand.Rand) {
		mu.Lock()
		if len(recs) == 0 {
			mu.Unlock()
			return
		}
		target := recs[r.Intn(len(recs))]
		mu.Unlock()
		if target.id < 0 {
			return
		}
		e1 := ep.RemoveHandler(target.id)
		mu.Lock()
		cur := byID[target.id]
		mu.Unlock()
		e2 := ep.RemoveHandler(target.id)
		mu.Lock()
		anon := anonSlots
		mu.Unlock()
		if e1 == nil && e2 == nil && cur == target && !anon {
			mu.Lock()
			still := byID[target.id] == target
			mu.Unlock()
			if still {
				viol("remove=twice-accepted", fmt.Sprintf("RemoveHandler(%d) succeeded twice for the same registration", target.id))
			}
		}
	}

	workers := 2 + rng.Intn(11)
	opsPer := 3 + rng.Intn(12)
	// 0 local Close, 1 peer close, 2 both, 3 the peer closes in the middle of a frame (inside the header or
	// inside the payload), 4 the transport fails with an error which is not end-of-file (connection reset),
	// 5 the peer sends a frame the endpoint must refuse (wrong magic) and keeps its side open
	shutdownBy := rng.Intn(6)
	cutFrame := rc.Frame(rc.Header{Magic: rc.Magic, ID: rng.Uint32(), Type: uint8(1 + rng.Intn(8)), Action: uint32(rng.Intn(8)), Service: 1, Object: 1}, make([]byte, 1+rng.Intn(60)))
	cutAt := 1 + rng.Intn(len(cutFrame)-1)
	shutdownWorker := rng.Intn(workers)
	shutdownAt := rng.Intn(opsPer + 1)
	// a few handlers registered upfront
	pre := rand.New(rand.NewSource(rng.Int63()))
	for k := rng.Intn(4); k > 0; k-- {
		register(pre)
	}
	start := make(chan struct{})
	var wg sync.WaitGroup
	opsDone := make(chan struct{})
	for w := 0; w < workers; w++ {
		wg.Add(1)
		r := rand.New(rand.NewSource(rng.Int63()))
		go func(w int) {
			defer wg.Done()
			<-start
			for k := 0; k <= opsPer; k++ {
				if w == shutdownWorker && k == shutdownAt {
					mu.Lock()
					shutdownStamp = now()
					mu.Unlock()
					if shutdownBy == 0 || shutdownBy == 2 {
						ep.Close()
					}
					if shutdownBy == 1 || shutdownBy == 2 {
						b.Close()
					}
					switch shutdownBy {
					case 3:
						b.Write(cutFrame[:cutAt])
						b.Close()
					case 4:
						a.Break(errors.New("read: connection reset by peer"))
					case 5:
						b.Write(rc.Frame(rc.Header{Magic: 0x42dead43, ID: 1, Type: 1, Service: 1, Object: 1}, nil))
					}
					continue
				}
				if k == opsPer {
					break
				}
				switch x := r.Intn(10); {
				case x < 4:
					register(r)
				case x < 6:
					remove(r)
				case x < 7:
					removeTwice(r)
				default:
					send(r)
				}
			}
		}(w)
	}
	close(start)
	go func() { wg.Wait(); close(opsDone) }()
	v, dump := stuck.Wait(opsDone, &progress, 2*time.Minute)
	if v == stuck.Stuck {
		c.Viol("plan", i, "deadlock=operations/"+wk.PanicSite(dump), "handler table operations never returned (process quiescent)", map[string]interface{}{"dump": clipDump(dump)})
		return
	}
	if v == stuck.Watchdog {
		c.Inconclusive("plan", i, "watchdog while waiting for operations")
		return
	}
	// quiescence: every handler registered before shutdown must end closed exactly once
	mu.Lock()
	all := append([]*hrec{}, recs...)
	sd := shutdownStamp
	mu.Unlock()
	settled := func() bool {
		for _, h := range all {
			if h.regStamp < sd {
				if atomic.LoadInt32(&h.closerCount) < 1 || atomic.LoadInt32(&h.queueClosed) < 1 {
					return false
				}
			}
		}
		return true
	}
	v, dump = stuck.WaitFunc(settled, &progress, 2*time.Minute)
	// let late closers / double closes surface
	for k := 0; k < 20; k++ {
		runtime.Gosched()
	}
	closedByShutdown := 0
	for _, h := range all {
		cc, qc := atomic.LoadInt32(&h.closerCount), atomic.LoadInt32(&h.queueClosed)
		before := h.regStamp < sd
		switch {
		case cc > 1:
			viol("closer=twice", fmt.Sprintf("handler #%d (id %d) had its closer invoked %d times", h.n, h.id, cc))
		case before && cc == 0:
			viol("closer=never", fmt.Sprintf("handler #%d (id %d) registered before shutdown was never closed", h.n, h.id))
		case before && qc == 0:
			viol("queue=not-closed", fmt.Sprintf("handler #%d (id %d): closer ran but its queue was never closed", h.n, h.id))
		}
		if atomic.LoadInt32(&h.lateMatch) > 0 {
			viol("match=after-close", fmt.Sprintf("handler #%d (id %d): its filter selected a message after its closer had run", h.n, h.id))
		}
		if before && atomic.LoadInt64(&h.closerStamp) > sd {
			closedByShutdown++
		}
	}
	if v == stuck.Watchdog {
		c.Inconclusive("plan", i, "watchdog while waiting for closers")
	}
	mu.Lock()
	vs := append([]string{}, viols...)
	mu.Unlock()
	seen := map[string]bool{}
	for _, x := range vs {
		var key, what string
		for k := 0; k < len(x); k++ {
			if x[k] == 0 {
				key, what = x[:k], x[k+1:]
			}
		}
		if seen[key] {
			continue
		}
		seen[key] = true
		c.Viol("plan", i, key, what, map[string]interface{}{"workers": workers, "ops_per_worker": opsPer, "shutdown": c17shutdowns[shutdownBy], "handlers": len(all), "frames": frames})
	}
	if !a.Closed() {
		ep.Close()
	}
	b.Close()
	c.Count("handlers", int64(len(all)))
	c.Count("frames", int64(frames))
	c.Count("closed_by_shutdown", int64(closedByShutdown))
	c.Count("plans_shut_down_by: "+c17shutdowns[shutdownBy], 1)
	if workers >= 2 && closedByShutdown >= 1 {
		c.Nontrivial(wk.Hash64("C17", i))
	}
	if c.WantSample() && i%100 == 0 {
		c.Sample(map[string]interface{}{"plan": i, "workers": workers, "ops_per_worker": opsPer, "shutdown": c17shutdowns[shutdownBy], "handlers": len(all), "frames": frames, "closed_by_shutdown": closedByShutdown})
	}
}

var c17shutdowns = []string{"local Close", "peer close", "both", "peer close inside a frame", "transport error (reset)", "refused frame (wrong magic)"}

func clipDump(d string) string {
	if len(d) > 8000 {
		return d[:8000] + "\n...(truncated)"
	}
	return d
}
