package main

import (
	"fmt"
	gonet "net"
	"os"
	"sync/atomic"
)

var addrSeq int64

// newAddr returns a fresh address for the transport.
func newAddr(transport string) string {
	n := atomic.AddInt64(&addrSeq, 1)
	switch transport {
	case "unix", "pipe":
		dir := os.Getenv("TMPDIR")
		if dir == "" {
			dir = "/tmp"
		}
		return fmt.Sprintf("%s://%s/q%d-%d.sock", transport, dir, os.Getpid(), n)
	case "tcp", "tcps":
		l, err := gonet.Listen("tcp", "127.0.0.1:0")
		if err != nil {
			panic(err)
		}
		port := l.Addr().(*gonet.TCPAddr).Port
		l.Close()
		return fmt.Sprintf("%s://127.0.0.1:%d", transport, port)
	}
	panic("unknown transport " + transport)
}

func init() {
	// never read a user certificate: force generation
	os.Setenv("QILOOP_CERT_CONF", "/nonexistent/qi-cert.conf")
}
