package main

import (
	"fmt"
	"math/rand"
	"sync/atomic"
	"time"

	qnet "github.com/lugu/qiloop/bus/net"

	"verif/ctl"
	rc "verif/refcodec"
	"verif/stuck"
	"verif/wk"
)

// c10churn: the set of handlers of the receiving endpoint grows beyond its initial table (11-30
// handlers at once) and shrinks again while two real handlers stay; after every change of the set
// the peer sends a numbered batch: each real handler receives exactly the messages its filter
// selects, in order. Deterministic sweep over (handlers registered, handlers removed).
func c10churn(c *wk.Ctx, i int, rng *rand.Rand) {
	total := 11 + i%20        // handlers registered at the peak (2 real ones included)
	firstCut := (i / 20) % 30 // extras removed before the first batch after the peak
	var progress int64
	a, b := ctl.Pair("receiver", "sender", &progress)
	recv := qnet.NewEndPoint(a)
	send := qnet.NewEndPoint(b)
	defer recv.Close()
	defer send.Close()
	all := make(chan *qnet.Message, 4096)
	even := make(chan *qnet.Message, 4096)
	var extras []int
	realAt := [2]int{rng.Intn(total), rng.Intn(total)}
	var closed int32
	for k := 0; k < total; k++ {
		if k == realAt[0] {
			recv.MakeHandler(func(h *qnet.Header) (bool, bool) { return h.Service == 7, true }, all, nil)
		}
		if k == realAt[1] {
			recv.MakeHandler(func(h *qnet.Header) (bool, bool) { return h.Service == 7 && h.ID%2 == 0, true }, even, nil)
		}
		q := make(chan *qnet.Message, 1)
		extras = append(extras, recv.MakeHandler(func(h *qnet.Header) (bool, bool) { return false, true }, q, func(error) { atomic.AddInt32(&closed, 1) }))
	}
	rng.Shuffle(len(extras), func(x, y int) { extras[x], extras[y] = extras[y], extras[x] })
	seq := uint32(0)
	detail := map[string]interface{}{"handlers_at_peak": total + 2, "removed_before_first_batch": 0}
	batch := func(phase string) bool {
		n := 5 + rng.Intn(20)
		first := seq
		for k := 0; k < n; k++ {
			m := qnet.NewMessage(qnet.NewHeader(qnet.Call, 7, 1, 3, seq), []byte(fmt.Sprintf("m%d", seq)))
			seq++
			if err := send.Send(m); err != nil {
				c.Viol("churn", i, "send=error/churn", "Send failed: "+err.Error(), detail)
				return false
			}
		}
		got := func() bool { return len(all) >= n && len(even) >= int((first+uint32(n)+1)/2-(first+1)/2) }
		v, _ := stuck.WaitFunc(got, &progress, 2*time.Minute)
		if v == stuck.Watchdog {
			c.Inconclusive("churn", i, "watchdog")
			return false
		}
		detail["phase"], detail["live_handlers"] = phase, len(extras)+2
		for k := uint32(0); k < uint32(n); k++ {
			select {
			case m := <-all:
				if m.Header.ID != first+k || string(m.Payload) != fmt.Sprintf("m%d", first+k) {
					c.Viol("churn", i, "delivery=order/churn", fmt.Sprintf("%s: the 'all' handler got message %d where %d was expected", phase, m.Header.ID, first+k), detail)
					return false
				}
			default:
				c.Viol("churn", i, "delivery=lost/churn", fmt.Sprintf("%s: the 'all' handler (queue has room) received %d of %d messages", phase, k, n), detail)
				return false
			}
			if (first+k)%2 == 0 {
				select {
				case m := <-even:
					if m.Header.ID != first+k {
						c.Viol("churn", i, "delivery=order/churn", fmt.Sprintf("%s: the 'even' handler got message %d where %d was expected", phase, m.Header.ID, first+k), detail)
						return false
					}
				default:
					c.Viol("churn", i, "delivery=lost/churn", fmt.Sprintf("%s: the 'even' handler (queue has room) did not receive message %d", phase, first+k), detail)
					return false
				}
			}
		}
		if len(all) != 0 || len(even) != 0 {
			c.Viol("churn", i, "delivery=extra/churn", fmt.Sprintf("%s: %d / %d surplus messages", phase, len(all), len(even)), detail)
			return false
		}
		c.Eval(1)
		return true
	}
	if !batch("peak") {
		return
	}
	if firstCut > len(extras) {
		firstCut = len(extras)
	}
	remove := func(n int) bool {
		for k := 0; k < n; k++ {
			id := extras[len(extras)-1]
			extras = extras[:len(extras)-1]
			if err := recv.RemoveHandler(id); err != nil {
				c.Viol("churn", i, "remove=live-refused/churn", fmt.Sprintf("RemoveHandler(%d): %v", id, err), detail)
				return false
			}
		}
		return true
	}
	detail["removed_before_first_batch"] = firstCut
	if !remove(firstCut) || !batch(fmt.Sprintf("after removing %d", firstCut)) {
		return
	}
	// then one by one down to the two real handlers, a batch after each step (every table size is visited)
	for len(extras) > 0 {
		step := 1 + rng.Intn(3)
		if step > len(extras) {
			step = len(extras)
		}
		if !remove(step) || !batch(fmt.Sprintf("%d extra handlers left", len(extras))) {
			return
		}
	}
	c.Count("churn_plans", 1)
	c.Nontrivial(wk.Hash64("C10churn", total, firstCut))
	if c.WantSample() && i%50 == 0 {
		c.Sample(map[string]interface{}{"stream": "churn", "handlers_at_peak": total + 2, "removed_before_first_batch": firstCut, "messages": seq})
	}
}

var _ = rc.Magic
