package main

import (
	"bytes"
	"encoding/binary"
	"fmt"
	"math/rand"
	"sync"
	"time"

	"github.com/lugu/qiloop/bus"
	qnet "github.com/lugu/qiloop/bus/net"

	rc "verif/refcodec"
	"verif/stuck"
	"verif/svc"
	"verif/wk"
)

func init() { engines["C06"] = c06 }

// recordingAuth wraps an authenticator and logs its decisions.
type recordingAuth struct {
	inner bus.Authenticator
	mu    sync.Mutex
	acc   map[string]int // user -> accepted count
	calls int
}

func (r *recordingAuth) Authenticate(user, token string) bool {
	ok := r.inner.Authenticate(user, token)
	r.mu.Lock()
	r.calls++
	if ok {
		r.acc[user]++
	}
	r.mu.Unlock()
	return ok
}

type c06step struct {
	desc      string
	frame     []byte
	typ       uint8
	service   uint32
	id        uint32
	token     uint64 // 0 = none
	objIdx    int
	validAuth bool // a well-formed authenticate request with accepted credentials
	garbage   bool
}

// capVariant builds an authenticate payload; valid reports whether it carries accepted string credentials in a well-formed map.
// the credentials of the harness's control connection: both contain every usual separator
const ctlUser = "ctl:a/b=c d;e|f,g"
const ctlToken = "s:1/2=3 4;5|6,7-secret"

func capVariant(rng *rand.Rand, user, pass string) (payload []byte, desc string, valid bool) {
	switch rng.Intn(16) {
	case 12:
		// the accepted pair of ANOTHER connection (the harness's control connection authenticates in every
		// plan) cut at a different place: same characters in a row, a different user / token pair
		cat := ctlUser + ctlToken
		k := 1 + rng.Intn(len(cat)-2)
		if k == len(ctlUser) {
			k++
		}
		return capMap("auth_user", cat[:k], "auth_token", cat[k:]), "accepted-pair-of-another-connection-split-differently", false
	case 13:
		return capMap("auth_user", "", "auth_token", ctlUser+ctlToken), "accepted-pair-of-another-connection-as-token-only", false
	case 14, 15:
		// the same with a separator between the two: user and token of the control pair contain every
		// usual separator, so "user SEP token" can be cut at another occurrence of SEP
		seps := ":/= ;|,"
		sep := string(seps[rng.Intn(len(seps))])
		joined := ctlUser + sep + ctlToken
		var at []int
		for j := 0; j < len(joined); j++ {
			if string(joined[j]) == sep && j != len(ctlUser) {
				at = append(at, j)
			}
		}
		j := at[rng.Intn(len(at))]
		return capMap("auth_user", joined[:j], "auth_token", joined[j+1:]), "accepted-pair-of-another-connection-cut-at-another-separator", false
	case 0, 1:
		return capMap("ClientServerSocket", true, "auth_user", user, "auth_token", pass), "valid-credentials", true
	case 2:
		return capMap("auth_user", user, "auth_token", pass+"x"), "wrong-token", false
	case 3:
		return capMap("auth_user", "mallory", "auth_token", pass), "unknown-user", false
	case 4:
		return capMap("ClientServerSocket", true), "no-credentials", false
	case 5:
		return capMap("__qi_auth_state", uint32(3)), "forged-state-uint", false
	case 6:
		return capMap("__qi_auth_state", int32(3), "auth_user", user), "forged-state-int+user", false
	case 7:
		return capMap("__qi_auth_state", uint32(3), "auth_user", user, "auth_token", "nope"), "forged-state+wrong-token", false
	case 8:
		return capMap("auth_user", uint32(7), "auth_token", uint32(7)), "credentials-wrong-type", false
	case 9:
		// credentials of dynamic type raw / list carrying the right bytes
		raw := rc.Encode(rc.T(rc.Dyn), rc.DynV{T: rc.T(rc.Raw), V: []byte(user)})
		return capMap("auth_user", raw, "auth_token", pass), "user-as-raw", false
	case 10:
		p := capMap("ClientServerSocket", true, "auth_user", user, "auth_token", pass)
		return p[:len(p)-1-rng.Intn(len(p)-1)], "truncated-valid-map", false
	default:
		var b bytes.Buffer
		binary.Write(&b, binary.LittleEndian, uint32(4097+rng.Intn(1<<20)))
		b.Write(capMap("auth_user", user, "auth_token", pass)[4:])
		return b.Bytes(), "oversized-count", false
	}
}

func c06(c *wk.Ctx) {
	c.Note("rule", "a server with a dictionary authenticator (unique user per connection, decisions recorded) hosts the Probe service; each plan opens 2-4 raw connections that concurrently send PRNG sequences of 1-14 frames from a grammar: every message type, service in {0, directory, Probe, unknown}, any object/action, payloads = capability maps (valid, wrong token, unknown user, missing, forged __qi_auth_state as uint/int, the accepted pair of another connection split at another place or cut at another occurrence of a separator (the control pair contains : / = space ; | ,), wrongly typed or raw-typed credentials, truncated, oversized count), work() arguments carrying a token unique to the connection, random bytes, invalid headers. The monitor keeps per connection 'a well-formed authenticate request with accepted string credentials was sent earlier'. Oracle: a token sent while that is false is never executed (counter read after a FIFO barrier), also on connections that stay unauthenticated while another authenticates; a Call to a service other than 0 sent while it is false is answered with an Error for its id and the stream ends. Stream lenient: servers whose authenticator does not constrain the user name (bus.Yes, a token-only one); authenticate requests whose auth_user / auth_token entries are absent, strings or of another type (uint, int, bool, list, raw, float, void): a request with a wrongly typed entry never authenticates (the following call is refused and not executed), a well-typed one the authenticator accepts does. Distinct non-trivial = distinct frame sequences containing at least one frame addressed to a service other than 0 before any accepted authenticate.")
	var w *world
	var rec *recordingAuth
	var ps *probeService
	users := map[string]string{}
	worldSeq := 0
	denyAll := false
	mkWorld := func() error {
		if w != nil {
			w.close()
		}
		users = map[string]string{ctlUser: ctlToken}
		for k := 0; k < 4096; k++ {
			users[fmt.Sprintf("user%d", k)] = fmt.Sprintf("secret%d", k)
		}
		rec = &recordingAuth{inner: bus.Dictionary(users), acc: map[string]int{}}
		worldSeq++
		denyAll = worldSeq%3 == 0
		if denyAll {
			// an authenticator that accepts nobody: nothing may ever reach a service
			// (the harness's own control connection included, so counters are read directly)
			rec = &recordingAuth{inner: bus.No{}, acc: map[string]int{}}
		}
		var err error
		w, err = newWorld("unix", rec)
		if err != nil {
			return err
		}
		// the harness's own sessions need credentials
		ps, err = w.addProbe("Probe", 2, nil)
		return err
	}
	defer func() {
		if w != nil {
			w.close()
		}
	}()
	connSeq := 0
	n := 0
	c.Cases("plan", c.Pick(2000, 400000), func(i int, rng *rand.Rand) {
		if w == nil || n%40 == 0 {
			if err := mkWorld(); err != nil {
				c.Inconclusive("plan", i, "world: "+err.Error())
				w = nil
				return
			}
			connSeq = 0
		}
		n++
		nConn := 2 + rng.Intn(3)
		var wg sync.WaitGroup
		type connResult struct {
			viols        [][2]string
			incon        string
			sent         []c06step
			user         string
			preAuthProbe bool
		}
		results := make([]connResult, nConn)
		workID := uint32(100)
		for k := 0; k < nConn; k++ {
			cid := connSeq
			connSeq++
			user := fmt.Sprintf("user%d", cid%4096)
			pass := users[user]
			r := rand.New(rand.NewSource(rng.Int63()))
			stayUnauth := k == 0 && r.Intn(2) == 0 // this connection never sends valid credentials
			wg.Add(1)
			go func(k, cid int) {
				defer wg.Done()
				res := &results[k]
				res.user = user
				rcn, err := dialRaw(w.addr)
				if err != nil {
					res.incon = err.Error()
					return
				}
				defer rcn.close()
				authed := false
				closedByServer := false
				steps := 1 + r.Intn(14)
				for s := 0; s < steps && !closedByServer; s++ {
					st := c06step{id: rcn.id(), typ: uint8(1 + r.Intn(8))}
					if r.Intn(3) == 0 {
						st.typ = qnet.Call
					}
					services := []uint32{0, 0, 1, ps.id, ps.id, 77}
					st.service = services[r.Intn(len(services))]
					obj, action := uint32(1), workID
					var payload []byte
					switch {
					case r.Intn(25) == 0:
						st.garbage = true
						st.desc = "invalid-header"
						g := make([]byte, 28+r.Intn(20))
						r.Read(g)
						st.frame = g
					case st.service == 0:
						var valid bool
						payload, st.desc, valid = capVariant(r, user, pass)
						if stayUnauth && valid {
							payload, st.desc, valid = capMap("auth_user", user, "auth_token", "wrong"), "wrong-token", false
						}
						obj, action = 0, 8
						if r.Intn(8) == 0 {
							action = uint32(r.Intn(12))
						}
						if r.Intn(10) == 0 {
							obj = uint32(r.Intn(3))
						}
						passes := st.typ == qnet.Call || st.typ == qnet.Post || st.typ == qnet.Capability || st.typ == qnet.Cancel
						st.validAuth = valid && obj == 0 && action == 8 && passes && !denyAll
					default:
						st.objIdx = r.Intn(2)
						if st.service == ps.id {
							obj = ps.objs[st.objIdx].id
						}
						st.token = uint64(cid+1)<<24 | uint64(s+1)
						switch r.Intn(5) {
						case 0:
							payload = make([]byte, r.Intn(40))
							r.Read(payload)
							st.desc = "random-payload"
							st.token = 0
						case 1:
							// a capability map (forged state) sent to the service itself
							payload = capMap("__qi_auth_state", uint32(3))
							st.desc = "forged-state-to-service"
							st.token = 0
						default:
							payload = workArgs(st.token, "x")
							st.desc = "work(token)"
							if r.Intn(6) == 0 {
								action = uint32(r.Intn(110))
								st.desc = fmt.Sprintf("action-%d(token)", action)
							}
						}
					}
					if st.frame == nil {
						st.frame = rc.Frame(rc.Header{Magic: rc.Magic, ID: st.id, Type: st.typ, Flags: uint8(r.Intn(2)), Service: st.service, Object: obj, Action: action}, payload)
					}
					st.desc = fmt.Sprintf("%s %s svc=%d obj=%d act=%d", typeName(st.typ), st.desc, st.service, obj, action)
					wasAuthed := authed
					res.sent = append(res.sent, st)
					if err := rcn.sendBytes(st.frame); err != nil {
						closedByServer = true
						break
					}
					if st.validAuth {
						authed = true
						// like a real client, let the authentication complete before going on: the server
						// processes it asynchronously and refuses what overtakes it (not demanded either way)
						if st.typ == qnet.Call {
							for {
								f, err := rcn.recv(60 * time.Second)
								if err != nil {
									closedByServer = true
									break
								}
								if f.H.ID == st.id {
									break
								}
							}
						} else {
							// no reply comes for this type: a second, ordinary authenticate call goes through
							// the same FIFOs, its reply proves that the first one has been processed
							if ok, err := rcn.authenticate(user, pass); err != nil || !ok {
								closedByServer = true
							}
						}
					}
					passes := st.typ == qnet.Call || st.typ == qnet.Post || st.typ == qnet.Capability || st.typ == qnet.Cancel
					if !wasAuthed && !st.garbage && st.service != 0 && passes {
						res.preAuthProbe = true
						// the server must answer with an error (for a call) and end the stream
						gotErr := false
						replied := false
						rdDone := make(chan struct{})
						go func() {
							defer close(rdDone)
							for {
								f, err := rcn.recv(0)
								if err != nil {
									return // end of stream (or reset): closed by the server
								}
								if f.H.ID == st.id && f.H.Type == qnet.Error {
									gotErr = true
								}
								if f.H.ID == st.id && f.H.Type == qnet.Reply {
									replied = true
								}
							}
						}()
						// "never closed" is decided by process quiescence, not by a timeout
						v, _ := stuck.Wait(rdDone, nil, 3*time.Minute)
						switch v {
						case stuck.Returned:
							closedByServer = true
						case stuck.Stuck:
							res.viols = append(res.viols, [2]string{"unauthenticated=not-closed/type=" + typeName(st.typ), "the connection was not closed after an unauthenticated " + st.desc})
							rcn.close()
							<-rdDone
						default:
							res.incon = "watchdog while waiting for the server to close the connection"
							rcn.close()
							<-rdDone
						}
						if replied {
							res.viols = append(res.viols, [2]string{"unauthenticated=replied/type=" + typeName(st.typ), "an unauthenticated " + st.desc + " was answered with a reply"})
						}
						if st.typ == qnet.Call && closedByServer && !gotErr {
							res.viols = append(res.viols, [2]string{"unauthenticated=no-error", "no error frame answered the unauthenticated " + st.desc + " before the stream ended"})
						}
						break
					}
					if st.garbage {
						break
					}
				}
				if closedByServer || (len(res.sent) > 0 && res.sent[len(res.sent)-1].garbage) {
					return
				}
				if stayUnauth || denyAll {
					return
				}
				// barrier: authenticate properly (if needed) and call once; its reply orders after all earlier frames
				if !authed {
					ok, err := rcn.authenticate(user, pass)
					if err != nil || !ok {
						// the server may have closed the connection for reasons we did not model: inconclusive, not a verdict
						res.incon = fmt.Sprintf("final authenticate: %v %v", ok, err)
						return
					}
				}
				bt := uint64(cid+1)<<24 | 0xffffff
				f, err := rcn.call(ps.id, 1, workID, workArgs(bt, "barrier"), nil)
				if err != nil {
					res.incon = "barrier: " + err.Error()
					return
				}
				if f.H.Type == qnet.Reply {
					if got, ok := strResult(f.P); !ok || got != svc.F(bt, "barrier") {
						res.viols = append(res.viols, [2]string{"barrier=wrong", "barrier call returned " + got})
					}
				}
			}(k, cid)
		}
		wg.Wait()
		if denyAll {
			c.Count("plans_with_deny_all_authenticator", 1)
		}
		// mailbox barrier from a control session, then read the counters (with the deny-all
		// authenticator no connection can ever reach the mailboxes, so there is nothing to flush)
		ctl, err := dialRaw(w.addr)
		if err == nil {
			if ok, _ := ctl.authenticate(ctlUser, ctlToken); ok {
				for _, o := range ps.objs {
					ctl.call(ps.id, o.id, workID, workArgs(1, "flush"), nil)
				}
			}
			ctl.close()
		}
		nontrivial := false
		seqHash := ""
		for k := range results {
			res := &results[k]
			var descs []string
			if res.incon != "" {
				for _, st := range res.sent {
					descs = append(descs, st.desc)
				}
				c.Inconclusive("plan", i, fmt.Sprintf("%s after %v", res.incon, descs))
				descs = nil
			}
			authed := false
			for _, st := range res.sent {
				descs = append(descs, st.desc)
				seqHash += st.desc + ";"
				if st.token != 0 && !authed && st.service == ps.id {
					if ex := ps.objs[st.objIdx].impl.ExecCount(st.token); ex > 0 {
						res.viols = append(res.viols, [2]string{"unauthenticated=executed/type=" + typeName(st.typ), fmt.Sprintf("a %s from a connection that had not authenticated ran the method (%d times)", st.desc, ex)})
					}
				}
				if st.validAuth {
					authed = true
				}
			}
			if res.preAuthProbe {
				nontrivial = true
			}
			seen := map[string]bool{}
			for _, v := range res.viols {
				if seen[v[0]] {
					continue
				}
				seen[v[0]] = true
				c.Viol("plan", i, v[0], v[1], map[string]interface{}{"connection": k, "user": res.user, "frames": descs, "authenticator_accepted_user": rec.acc[res.user]})
			}
			c.Count("frames", int64(len(res.sent)))
			if c.WantSample() && k == 0 && i%40 == 0 {
				c.Sample(map[string]interface{}{"plan": i, "connection": k, "frames": descs})
			}
		}
		c.Count("connections", int64(nConn))
		if nontrivial {
			c.Nontrivial(wk.Hash64("C06", seqHash))
			c.Count("plans_with_unauthenticated_service_access", 1)
		}
	})
	c.Cases("lenient", c.Pick(60, 3000), func(i int, rng *rand.Rand) { c06lenient(c, i, rng) })
	c.Cases("slow", c.Pick(4, 60), func(i int, rng *rand.Rand) { c06slow(c, i, rng) })
}
