// Package ctl provides harness-controlled byte streams implementing
// qiloop's net.Stream: exact accounting of every Read / Write, read
// fragmentation, per-operation fault injection, write gates, close by either
// side.
package ctl

import (
	"context"
	"errors"
	"fmt"
	"io"
	"runtime"
	"sync"
	"sync/atomic"
)

// half is one direction of the duplex.
type half struct {
	mu      sync.Mutex
	cond    *sync.Cond
	buf     []byte
	wclosed bool // writer side closed: reader drains then gets EOF
	rclosed bool // reader side closed: writes fail
}

func newHalf() *half {
	h := &half{}
	h.cond = sync.NewCond(&h.mu)
	return h
}

// ErrReset is the injected "connection reset" error.
var ErrReset = errors.New("ctl: connection reset by peer (injected)")

// ErrClosed is returned for operations on a locally closed end.
var ErrClosed = errors.New("ctl: use of closed connection")

// Op describes one I/O operation of an End, numbered in order of completion
// (reads) / invocation (writes) on that End.
type Op struct {
	Index int64
	Kind  byte // 'r' or 'w'
	N     int  // bytes about to be returned / written
}

// Fault describes what to inject at an operation.
type Fault struct {
	Err   error // error to return (io.EOF, ErrReset, ...)
	Short int   // deliver this many bytes together with the error (0 = none)
}

// End is one side of a duplex; it implements net.Stream.
type End struct {
	Name string
	in   *half
	out  *half

	mu        sync.Mutex
	closed    bool
	sticky    error
	ReadChunk func(rem int) int // fragmentation plan (nil: everything available)
	FaultAt   func(op Op) *Fault
	WriteGate func(op Op, data []byte) // called after the bytes reached the peer, before Write returns
	Yield     int                      // number of Gosched calls at Write entry (interleaving pressure)
	MaxBuffer int                      // >0: a Write blocks while the peer holds this many unread bytes (like a full socket buffer)
	CloseErr  error                    // returned by every Close (the stream is closed all the same), like a TLS connection that cannot send its close_notify

	ops           int64
	Reads         int64
	Writes        int64
	BytesRead     int64
	BytesWritten  int64
	BlockedWrites int64 // writers currently waiting for room (MaxBuffer)
	writeSizes    []int
	progress      *int64
}

// Pair returns two connected ends. progress, if not nil, is incremented on every byte movement.
func Pair(nameA, nameB string, progress *int64) (*End, *End) {
	ab, ba := newHalf(), newHalf()
	a := &End{Name: nameA, in: ba, out: ab, progress: progress}
	b := &End{Name: nameB, in: ab, out: ba, progress: progress}
	return a, b
}

func (e *End) String() string           { return "ctl://" + e.Name }
func (e *End) Context() context.Context { return context.TODO() }
func (e *End) bump() {
	if e.progress != nil {
		atomic.AddInt64(e.progress, 1)
	}
}
func (e *End) nextOp(kind byte, n int) Op {
	return Op{Index: atomic.AddInt64(&e.ops, 1) - 1, Kind: kind, N: n}
}

// Ops returns the number of operations performed so far.
func (e *End) Ops() int64 { return atomic.LoadInt64(&e.ops) }

// WriteSizes returns the sizes of the Write calls so far.
func (e *End) WriteSizes() []int {
	e.mu.Lock()
	defer e.mu.Unlock()
	return append([]int{}, e.writeSizes...)
}

func (e *End) state() (closed bool, sticky error) {
	e.mu.Lock()
	defer e.mu.Unlock()
	return e.closed, e.sticky
}

func (e *End) setSticky(err error) {
	e.mu.Lock()
	if e.sticky == nil {
		e.sticky = err
	}
	e.mu.Unlock()
}

// Read implements io.Reader.
func (e *End) Read(p []byte) (int, error) {
	if len(p) == 0 {
		return 0, nil
	}
	h := e.in
	h.mu.Lock()
	for len(h.buf) == 0 && !h.wclosed && !h.rclosed {
		if _, st := e.state(); st != nil {
			break
		}
		h.cond.Wait()
	}
	if closed, st := e.state(); closed || st != nil || h.rclosed {
		h.mu.Unlock()
		atomic.AddInt64(&e.Reads, 1)
		e.nextOp('r', 0)
		if st != nil {
			return 0, st
		}
		return 0, ErrClosed
	}
	if len(h.buf) == 0 { // writer closed and drained
		h.mu.Unlock()
		atomic.AddInt64(&e.Reads, 1)
		e.nextOp('r', 0)
		return 0, io.EOF
	}
	n := len(h.buf)
	if e.ReadChunk != nil {
		if k := e.ReadChunk(n); k >= 1 && k < n {
			n = k
		}
	}
	if n > len(p) {
		n = len(p)
	}
	op := e.nextOp('r', n)
	atomic.AddInt64(&e.Reads, 1)
	if e.FaultAt != nil {
		if f := e.FaultAt(op); f != nil {
			k := f.Short
			if k > n {
				k = n
			}
			copy(p, h.buf[:k])
			h.buf = h.buf[k:]
			h.mu.Unlock()
			e.setSticky(f.Err)
			atomic.AddInt64(&e.BytesRead, int64(k))
			e.bump()
			return k, f.Err
		}
	}
	copy(p, h.buf[:n])
	h.buf = h.buf[n:]
	h.cond.Broadcast()
	h.mu.Unlock()
	atomic.AddInt64(&e.BytesRead, int64(n))
	e.bump()
	return n, nil
}

// Write implements io.Writer: the whole buffer is handed to the peer atomically.
func (e *End) Write(p []byte) (int, error) {
	for i := 0; i < e.Yield; i++ {
		runtime.Gosched()
	}
	op := e.nextOp('w', len(p))
	atomic.AddInt64(&e.Writes, 1)
	if closed, st := e.state(); closed || st != nil {
		if st != nil {
			return 0, st
		}
		return 0, ErrClosed
	}
	if e.FaultAt != nil {
		if f := e.FaultAt(op); f != nil {
			k := f.Short
			if k > len(p) {
				k = len(p)
			}
			if k > 0 {
				e.deliver(p[:k])
			}
			// a failed connection fails its pending read too
			e.setSticky(f.Err)
			e.Kick()
			return k, f.Err
		}
	}
	if err := e.deliver(p); err != nil {
		return 0, err
	}
	e.mu.Lock()
	if len(e.writeSizes) < 4096 {
		e.writeSizes = append(e.writeSizes, len(p))
	}
	gate := e.WriteGate
	e.mu.Unlock()
	if gate != nil {
		gate(op, p)
	}
	return len(p), nil
}

func (e *End) deliver(p []byte) error {
	h := e.out
	h.mu.Lock()
	for e.MaxBuffer > 0 && len(h.buf) >= e.MaxBuffer && !h.rclosed && !h.wclosed {
		if closed, st := e.state(); closed || st != nil {
			break
		}
		atomic.AddInt64(&e.BlockedWrites, 1)
		h.cond.Wait() // woken when the peer reads, or when either side closes
		atomic.AddInt64(&e.BlockedWrites, -1)
	}
	if h.rclosed || h.wclosed {
		h.mu.Unlock()
		return fmt.Errorf("ctl: write on closed connection: %w", io.ErrClosedPipe)
	}
	if closed, _ := e.state(); closed {
		h.mu.Unlock()
		return ErrClosed
	}
	h.buf = append(h.buf, p...)
	h.cond.Broadcast()
	h.mu.Unlock()
	atomic.AddInt64(&e.BytesWritten, int64(len(p)))
	e.bump()
	return nil
}

// CloseWrite half-closes this end (like TCP shutdown(SHUT_WR)): the peer drains what was written
// and then reads EOF, while this end keeps reading what the peer writes and the peer's writes
// keep succeeding.
func (e *End) CloseWrite() {
	e.out.mu.Lock()
	e.out.wclosed = true
	e.out.cond.Broadcast()
	e.out.mu.Unlock()
	e.bump()
}

// Close closes this end: local reads fail, the peer drains then sees EOF, peer writes fail.
func (e *End) Close() error {
	e.mu.Lock()
	if e.closed {
		e.mu.Unlock()
		return e.CloseErr
	}
	e.closed = true
	e.mu.Unlock()
	defer e.bump()
	e.in.mu.Lock()
	e.in.rclosed = true
	e.in.cond.Broadcast()
	e.in.mu.Unlock()
	e.out.mu.Lock()
	e.out.wclosed = true
	e.out.cond.Broadcast()
	e.out.mu.Unlock()
	return e.CloseErr
}

// Closed reports whether Close was called on this end.
func (e *End) Closed() bool {
	c, _ := e.state()
	return c
}

// Kick wakes blocked readers (after a sticky error was set from outside).
func (e *End) Kick() {
	e.in.mu.Lock()
	e.in.cond.Broadcast()
	e.in.mu.Unlock()
}

// Break makes every further operation of this end fail with err and wakes a blocked reader.
func (e *End) Break(err error) {
	e.setSticky(err)
	e.Kick()
	e.bump()
}
