// Package stuck decides "this operation will never return" without a
// wall-clock verdict: it samples the goroutine states of the process and
// declares the process quiescent only when, over a window longer than any
// timer in the code under test, no goroutine can move.
package stuck

import (
	"regexp"
	"runtime"
	"sort"
	"strings"
	"sync/atomic"
	"time"
)

// Verdict of Wait.
type Verdict int

// Verdicts.
const (
	Returned Verdict = iota
	Stuck
	Watchdog
)

func (v Verdict) String() string { return [...]string{"returned", "stuck", "watchdog"}[v] }

var reHeader = regexp.MustCompile(`^goroutine (\d+) \[([^\],]+)(?:, [^\]]*)?\]:`)

type gstate struct {
	id    string
	state string
	top   string
}

// snapshot returns a canonical description of all goroutines except the caller, and
// whether any of them can move on its own (running / runnable / syscall / sleep).
func snapshot() (canon string, movable bool, dump string) {
	canon, movable, _, dump = snapshot2()
	return
}

// snapshot2 also reports whether some goroutine sits in a system call. Such a goroutine may be blocked
// for ever (a write(2) on a blocking descriptor whose peer does not read) or be in the middle of a long
// transfer: it does not count as movable, but the caller then demands a much longer window of identical
// samples before it declares the process quiescent.
func snapshot2() (canon string, movable bool, inSyscall bool, dump string) {
	buf := make([]byte, 1<<20)
	for {
		n := runtime.Stack(buf, true)
		if n < len(buf) {
			buf = buf[:n]
			break
		}
		buf = make([]byte, 2*len(buf))
	}
	dump = string(buf)
	blocks := strings.Split(dump, "\n\n")
	var gs []string
	for bi, b := range blocks {
		lines := strings.Split(b, "\n")
		m := reHeader.FindStringSubmatch(lines[0])
		if m == nil {
			continue
		}
		if bi == 0 {
			continue // the sampling goroutine itself
		}
		top := ""
		if len(lines) > 1 {
			top = lines[1]
			if k := strings.LastIndex(top, "("); k > 0 {
				top = top[:k]
			}
		}
		// deepest frame inside qiloop or the harness, for the canonical form
		where := top
		for _, l := range lines[1:] {
			if strings.HasPrefix(l, "github.com/lugu/qiloop/") || strings.HasPrefix(l, "verif/") || strings.HasPrefix(l, "main.") {
				where = l
				if k := strings.LastIndex(where, "("); k > 0 {
					where = where[:k]
				}
				break
			}
		}
		st := m[2]
		if idle(st, b) {
			continue
		}
		switch st {
		case "running", "runnable", "sleep":
			movable = true
		case "syscall":
			inSyscall = true
		}
		gs = append(gs, m[1]+"|"+st+"|"+where)
	}
	sort.Strings(gs)
	return strings.Join(gs, "\n"), movable, inSyscall, dump
}

// idle whitelists goroutines that never take part in the system under test.
func idle(state, block string) bool {
	if strings.Contains(block, "os/signal.signal_recv") || strings.Contains(block, "os/signal.loop") {
		return true
	}
	if strings.Contains(block, "verif/wk.(*Ctx).Guard") || strings.Contains(block, "verif/wk.(*Ctx).caseWatchdog") {
		return true
	}
	if strings.Contains(block, "verif/stuck.") || strings.Contains(block, "IdleControlLoop") {
		return true
	}
	return false
}

// Samples needed and their spacing: 14 x 200 ms = 2.8 s > the 1 s capability timer of qiloop.
const (
	interval = 200 * time.Millisecond
	needed   = 14
	// with a goroutine inside a system call: 50 identical samples (10 s) and a frozen progress counter
	neededSyscall = 50
)

// Wait waits for done. It returns Returned when done is closed; Stuck (with the
// goroutine dump) when the process is quiescent: identical goroutine states over
// `needed` consecutive samples, nothing movable and the progress counter frozen;
// Watchdog after the generous wall-clock limit (inconclusive).
func Wait(done <-chan struct{}, progress *int64, watchdog time.Duration) (Verdict, string) {
	deadline := time.Now().Add(watchdog)
	var last string
	var lastProg int64 = -1
	same := 0
	t := time.NewTicker(interval)
	defer t.Stop()
	// fast path
	select {
	case <-done:
		return Returned, ""
	default:
	}
	for {
		select {
		case <-done:
			return Returned, ""
		case <-t.C:
		}
		canon, movable, inSyscall, dump := snapshot2()
		var prog int64
		if progress != nil {
			prog = atomic.LoadInt64(progress)
		}
		if !movable && canon == last && prog == lastProg {
			same++
			need := needed
			if inSyscall {
				need = neededSyscall
			}
			if same >= need {
				select {
				case <-done:
					return Returned, ""
				default:
				}
				return Stuck, dump
			}
		} else {
			same = 0
		}
		last, lastProg = canon, prog
		if time.Now().After(deadline) {
			return Watchdog, dump
		}
	}
}

// WaitFunc waits until cond() is true (polled), with the same verdicts.
func WaitFunc(cond func() bool, progress *int64, watchdog time.Duration) (Verdict, string) {
	done := make(chan struct{})
	stop := make(chan struct{})
	go func() {
		for {
			if cond() {
				close(done)
				return
			}
			select {
			case <-stop:
				return
			default:
			}
			time.Sleep(2 * time.Millisecond)
		}
	}()
	v, d := Wait(done, progress, watchdog)
	close(stop)
	return v, d
}

// Quiescent samples the process for the standard window and reports whether no
// goroutine could move during the whole window (used by the C12 server child to
// answer the parent's STATE? query).
func Quiescent(progress *int64) (bool, string) {
	var last string
	var lastProg int64 = -1
	need := needed
	for k := 0; k < need+1; k++ {
		canon, movable, inSyscall, dump := snapshot2()
		if inSyscall {
			need = neededSyscall
		}
		var prog int64
		if progress != nil {
			prog = atomic.LoadInt64(progress)
		}
		if movable {
			return false, dump
		}
		if k > 0 && (canon != last || prog != lastProg) {
			return false, dump
		}
		last, lastProg = canon, prog
		if k == need {
			return true, dump
		}
		time.Sleep(interval)
	}
	return false, ""
}
