package stuck

import (
	"testing"
	"time"
)

// A blocked goroutine must be declared stuck even while timer-driven harness helpers
// (whitelisted by name) exist; a goroutine that sleeps in test code must prevent it.
func TestStuckDetects(t *testing.T) {
	done := make(chan struct{})
	block := make(chan struct{})
	go func() { <-block; close(done) }()
	v, _ := Wait(done, nil, 30*time.Second)
	if v != Stuck {
		t.Fatalf("verdict %v, want stuck", v)
	}
	close(block)
}
