// Package svc holds the harness implementation of the Probe service (generated
// from harness/idl/probe.idl at check time) and fake channels / endpoints used
// to drive generated stubs synchronously.
package svc

import (
	"fmt"
	"strings"
	"sync"
	"sync/atomic"

	"github.com/lugu/qiloop/bus"
	qnet "github.com/lugu/qiloop/bus/net"
	"github.com/lugu/qiloop/type/value"

	"verif/gen/probe"
)

// F is the function every work() call computes: the expected answer for (token, arg).
func F(token uint64, arg string) string {
	return fmt.Sprintf("%d:%d:%s", token, len(arg), arg)
}

// Impl implements probe.ProbeImplementor with counters and optional gates.
type Impl struct {
	Name string

	mu        sync.Mutex
	Exec      map[uint64]int // token -> number of times a method body ran for it
	Notes     map[uint64]int
	Calls     int64 // all method invocations
	Terminate int32 // OnTerminate invocations
	Helper    probe.ProbeSignalHelper
	Act       bus.Activation

	// Gate, if set, is called inside Work before returning (may block).
	Gate func(token uint64)
	// OnLevel validates property writes; nil accepts v >= 0 only.
	OnLevel func(v int32) error
	// InitLevel is the initial value of the property.
	InitLevel int32
}

// NewImpl returns an implementation.
func NewImpl(name string) *Impl {
	return &Impl{Name: name, Exec: map[uint64]int{}, Notes: map[uint64]int{}}
}

// Activate stores the helper and initializes the property.
func (p *Impl) Activate(activation bus.Activation, helper probe.ProbeSignalHelper) error {
	p.mu.Lock()
	p.Helper = helper
	p.Act = activation
	p.mu.Unlock()
	if err := helper.UpdateGain(0); err != nil {
		return err
	}
	if err := helper.UpdateLabel(""); err != nil {
		return err
	}
	if err := helper.UpdateSpot(probe.Item{}); err != nil {
		return err
	}
	return helper.UpdateLevel(p.InitLevel)
}

// Activation returns the activation the object received.
func (p *Impl) Activation() bus.Activation {
	p.mu.Lock()
	defer p.mu.Unlock()
	return p.Act
}

// OnTerminate counts terminations.
func (p *Impl) OnTerminate() { atomic.AddInt32(&p.Terminate, 1) }

// Terminated returns the number of OnTerminate calls.
func (p *Impl) Terminated() int { return int(atomic.LoadInt32(&p.Terminate)) }

// Work is the probe method.
func (p *Impl) Work(token uint64, arg string) (string, error) {
	atomic.AddInt64(&p.Calls, 1)
	p.mu.Lock()
	p.Exec[token]++
	g := p.Gate
	p.mu.Unlock()
	if g != nil {
		g(token)
	}
	return F(token, arg), nil
}

// Note is the one-way method.
func (p *Impl) Note(token uint64) error {
	atomic.AddInt64(&p.Calls, 1)
	p.mu.Lock()
	p.Notes[token]++
	p.Exec[token]++
	p.mu.Unlock()
	return nil
}

// ExecCount returns how many times token was executed.
func (p *Impl) ExecCount(token uint64) int {
	p.mu.Lock()
	defer p.mu.Unlock()
	return p.Exec[token]
}

// CallCount returns the number of method invocations.
func (p *Impl) CallCount() int64 { return atomic.LoadInt64(&p.Calls) }

// EchoItem returns its argument.
func (p *Impl) EchoItem(item probe.Item) (probe.Item, error) {
	atomic.AddInt64(&p.Calls, 1)
	return item, nil
}

// Sum adds the values.
func (p *Impl) Sum(values []int32, weights map[string]float64) (int64, error) {
	atomic.AddInt64(&p.Calls, 1)
	var s int64
	for _, v := range values {
		s += int64(v)
	}
	return s + int64(len(weights)), nil
}

// Blob returns the length of data.
func (p *Impl) Blob(data []uint8, v value.Value) (uint32, error) {
	atomic.AddInt64(&p.Calls, 1)
	return uint32(len(data)), nil
}

// Pairs returns the map values.
func (p *Impl) Pairs(pairs map[uint32]probe.Pair) ([]probe.Pair, error) {
	atomic.AddInt64(&p.Calls, 1)
	out := make([]probe.Pair, 0, len(pairs))
	for _, x := range pairs {
		out = append(out, x)
	}
	return out, nil
}

// OnLevelChange validates a property write.
func (p *Impl) OnLevelChange(v int32) error {
	if p.OnLevel != nil {
		return p.OnLevel(v)
	}
	if v < 0 {
		return fmt.Errorf("negative level %d refused", v)
	}
	return nil
}

// OnGainChange accepts every value of the second property.
func (p *Impl) OnGainChange(v int32) error { return nil }

// OnLabelChange refuses labels which start with "bad".
func (p *Impl) OnLabelChange(v string) error {
	if strings.HasPrefix(v, "bad") {
		return fmt.Errorf("label refused")
	}
	return nil
}

// OnSpotChange refuses items whose name starts with "bad".
func (p *Impl) OnSpotChange(v probe.Item) error {
	if strings.HasPrefix(v.Name, "bad") {
		return fmt.Errorf("spot refused")
	}
	return nil
}

// FakeEndPoint is a net.EndPoint that records what is sent.
type FakeEndPoint struct {
	mu       sync.Mutex
	Sent     []qnet.Message
	handlers int
}

func (e *FakeEndPoint) String() string { return "fake" }

// Send records the message.
func (e *FakeEndPoint) Send(m qnet.Message) error {
	e.mu.Lock()
	if len(e.Sent) < 64 {
		e.Sent = append(e.Sent, m)
	}
	e.mu.Unlock()
	return nil
}

// ReceiveAny is not supported.
func (e *FakeEndPoint) ReceiveAny() (chan *qnet.Message, error) {
	return nil, fmt.Errorf("fake endpoint")
}

// MakeHandler pretends to register a handler.
func (e *FakeEndPoint) MakeHandler(f qnet.Filter, queue chan<- *qnet.Message, cl qnet.Closer) int {
	e.mu.Lock()
	defer e.mu.Unlock()
	e.handlers++
	return e.handlers
}

// AddHandler pretends to register a handler.
func (e *FakeEndPoint) AddHandler(f qnet.Filter, c qnet.Consumer, cl qnet.Closer) int {
	return e.MakeHandler(f, nil, cl)
}

// RemoveHandler pretends to remove a handler.
func (e *FakeEndPoint) RemoveHandler(id int) error { return nil }

// Close does nothing.
func (e *FakeEndPoint) Close() error { return nil }

// Reset forgets the recorded messages.
func (e *FakeEndPoint) Reset() {
	e.mu.Lock()
	e.Sent = e.Sent[:0]
	e.mu.Unlock()
}

// NewFakeChannel returns an authenticated channel over a fake endpoint.
func NewFakeChannel() (bus.Channel, *FakeEndPoint) {
	e := &FakeEndPoint{}
	c := bus.NewChannel(e, bus.DefaultCap())
	c.SetAuthenticated()
	return c, e
}

// HelperImpl is an object a client hosts itself and lends to a Desk.
type HelperImpl struct {
	Name  string
	mu    sync.Mutex
	Exec  map[uint64]int
	Pokes int
	// Gate, if set, is called inside Assist before returning (may block).
	Gate func(token uint64)
	// ActivateHook, if set, runs inside Activate and decides its result.
	ActivateHook func(bus.Activation) error
	// Act is the activation the object received (its Terminate lets the object end itself).
	Act        bus.Activation
	terminated int64
	// QuitOn: Assist called with this token terminates the object itself before answering.
	QuitOn uint64
}

// NewHelper returns a helper implementation.
func NewHelper(name string) *HelperImpl { return &HelperImpl{Name: name, Exec: map[uint64]int{}} }

// Activate keeps the activation and runs the hook, if any.
func (h *HelperImpl) Activate(a bus.Activation, _ probe.HelperSignalHelper) error {
	h.mu.Lock()
	h.Act = a
	hook := h.ActivateHook
	h.mu.Unlock()
	if hook != nil {
		return hook(a)
	}
	return nil
}

// OnTerminate counts its invocations.
func (h *HelperImpl) OnTerminate() { atomic.AddInt64(&h.terminated, 1) }

// SetQuitOn sets the token on which Assist ends the object.
func (h *HelperImpl) SetQuitOn(t uint64) { h.mu.Lock(); h.QuitOn = t; h.mu.Unlock() }

// GetQuitOn returns that token.
func (h *HelperImpl) GetQuitOn() uint64 { h.mu.Lock(); defer h.mu.Unlock(); return h.QuitOn }

// Terminated returns how many times the termination hook ran.
func (h *HelperImpl) Terminated() int { return int(atomic.LoadInt64(&h.terminated)) }

// HF is the function a helper computes.
func HF(name string, token uint64, arg string) string { return name + "|" + F(token, arg) }

// Assist is the helper's method.
func (h *HelperImpl) Assist(token uint64, arg string) (string, error) {
	h.mu.Lock()
	h.Exec[token]++
	g := h.Gate
	quit := h.QuitOn != 0 && token == h.QuitOn
	act := h.Act
	h.mu.Unlock()
	if g != nil {
		g(token)
	}
	if quit && act.Terminate != nil {
		act.Terminate()
	}
	return HF(h.Name, token, arg), nil
}

// Poke has no parameter: it counts its executions and parks like Assist.
func (h *HelperImpl) Poke() (uint32, error) {
	h.mu.Lock()
	h.Pokes++
	n := h.Pokes
	g := h.Gate
	h.mu.Unlock()
	if g != nil {
		g(uint64(n))
	}
	return uint32(n), nil
}

// PokeCount returns how many times Poke ran.
func (h *HelperImpl) PokeCount() int {
	h.mu.Lock()
	defer h.mu.Unlock()
	return h.Pokes
}

// ExecCount returns how many times token was executed.
func (h *HelperImpl) ExecCount(token uint64) int {
	h.mu.Lock()
	defer h.mu.Unlock()
	return h.Exec[token]
}

// DeskImpl keeps the helper it was lent and relays calls to it.
type DeskImpl struct {
	mu   sync.Mutex
	kept probe.HelperProxy
}

// Activate does nothing.
func (d *DeskImpl) Activate(bus.Activation, probe.DeskSignalHelper) error { return nil }

// OnTerminate does nothing.
func (d *DeskImpl) OnTerminate() {}

// Keep stores the lent object.
func (d *DeskImpl) Keep(h probe.HelperProxy) error {
	d.mu.Lock()
	d.kept = h
	d.mu.Unlock()
	return nil
}

// Give hands the lent object on to whoever asks.
func (d *DeskImpl) Give() (probe.HelperProxy, error) {
	d.mu.Lock()
	defer d.mu.Unlock()
	if d.kept == nil {
		return nil, fmt.Errorf("nothing kept")
	}
	return d.kept, nil
}

// Relay calls the lent object and returns its answer.
func (d *DeskImpl) Relay(token uint64, arg string) (string, error) {
	d.mu.Lock()
	h := d.kept
	d.mu.Unlock()
	if h == nil {
		return "", fmt.Errorf("nothing kept")
	}
	return h.Assist(token, arg)
}
