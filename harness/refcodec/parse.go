package refcodec

import "fmt"

// ParseSig is the reference (recursive-descent, linear-time) signature parser.
func ParseSig(s string) (*Type, error) {
	p := &sigParser{s: s}
	t, err := p.typ()
	if err != nil {
		return nil, err
	}
	if p.i != len(s) {
		return nil, fmt.Errorf("trailing input at %d in %q", p.i, s)
	}
	return t, nil
}

type sigParser struct {
	s string
	i int
}

func isHead(c byte) bool { return c >= 'a' && c <= 'z' || c >= 'A' && c <= 'Z' }
func isTail(c byte) bool { return isHead(c) || c >= '0' && c <= '9' || c == '_' }

func (p *sigParser) ident() (string, bool) {
	j := p.i
	if j >= len(p.s) || !isHead(p.s[j]) {
		return "", false
	}
	j++
	for j < len(p.s) && isTail(p.s[j]) {
		j++
	}
	id := p.s[p.i:j]
	p.i = j
	return id, true
}

func (p *sigParser) typ() (*Type, error) {
	if p.i >= len(p.s) {
		return nil, fmt.Errorf("unexpected end")
	}
	c := p.s[p.i]
	for k, sg := range scalarSig {
		if sg[0] == c {
			p.i++
			return T(k), nil
		}
	}
	switch c {
	case '[':
		p.i++
		e, err := p.typ()
		if err != nil {
			return nil, err
		}
		if p.i >= len(p.s) || p.s[p.i] != ']' {
			return nil, fmt.Errorf("expected ] at %d", p.i)
		}
		p.i++
		return ListOf(e), nil
	case '{':
		p.i++
		k, err := p.typ()
		if err != nil {
			return nil, err
		}
		v, err := p.typ()
		if err != nil {
			return nil, err
		}
		if p.i >= len(p.s) || p.s[p.i] != '}' {
			return nil, fmt.Errorf("expected } at %d", p.i)
		}
		p.i++
		return MapOf(k, v), nil
	case '(':
		p.i++
		var mem []*Type
		for p.i < len(p.s) && p.s[p.i] != ')' {
			m, err := p.typ()
			if err != nil {
				return nil, err
			}
			mem = append(mem, m)
		}
		if p.i >= len(p.s) {
			return nil, fmt.Errorf("expected ) at %d", p.i)
		}
		p.i++
		if p.i < len(p.s) && p.s[p.i] == '<' {
			save := p.i
			p.i++
			name, ok := p.ident()
			if !ok {
				p.i = save
				return TupleOf(mem...), nil
			}
			if p.i < len(p.s) && p.s[p.i] == '<' {
				// template style name
				p.i++
				inner, ok := p.ident()
				if !ok || p.i >= len(p.s) || p.s[p.i] != '>' {
					return nil, fmt.Errorf("bad template name at %d", p.i)
				}
				p.i++
				name = name + "<" + inner + ">"
			}
			var fields []string
			for p.i < len(p.s) && p.s[p.i] == ',' {
				p.i++
				f, ok := p.ident()
				if !ok {
					return nil, fmt.Errorf("bad field name at %d", p.i)
				}
				fields = append(fields, f)
			}
			if p.i >= len(p.s) || p.s[p.i] != '>' {
				return nil, fmt.Errorf("expected > at %d", p.i)
			}
			p.i++
			if len(fields) != len(mem) {
				return nil, fmt.Errorf("field count mismatch")
			}
			return StructOf(name, fields, mem...), nil
		}
		return TupleOf(mem...), nil
	}
	return nil, fmt.Errorf("unexpected %q at %d", c, p.i)
}

// ObjectRefType is the documented description of an object reference:
// MetaObject, service id, object id.
var ObjectRefType *Type

// MetaObjectType is the MetaObject structure.
var MetaObjectType *Type

func init() {
	var err error
	MetaObjectType, err = ParseSig("({I(Issss[(ss)<MetaMethodParameter,name,description>]s)<MetaMethod,uid,returnSignature,name,parametersSignature,description,parameters,returnDescription>}{I(Iss)<MetaSignal,uid,name,signature>}{I(Iss)<MetaProperty,uid,name,signature>}s)<MetaObject,methods,signals,properties,description>")
	if err != nil {
		panic(err)
	}
	ObjectRefType = StructOf("ObjectReference", []string{"metaObject", "serviceID", "objectID"}, MetaObjectType, T(Uint32), T(Uint32))
}
