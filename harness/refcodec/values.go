package refcodec

import (
	"bytes"
	"encoding/binary"
	"fmt"
	"math"
	"math/rand"
	"sort"
)

// Value representation of the reference model:
//   Bool bool, Int8 int8 ... Uint64 uint64, Float float32, Double float64,
//   String string, Raw []byte, Void VoidV{}, List []interface{}, Map []KV (in
//   wire order), Tuple/Struct Tup, Dyn DynV.

// KV is one map pair.
type KV struct{ K, V interface{} }

// Tup is a tuple or struct value.
type Tup []interface{}

// DynV is a dynamic value: a concrete type and a value of it.
type DynV struct {
	T *Type
	V interface{}
}

// VoidV is the value of type v.
type VoidV struct{}

// Field is one length / count field of an encoding (for hostile mutations).
type Field struct {
	Off  int    // offset of the 4-byte little-endian field
	Kind string // strlen | count | siglen | rawlen
	Val  uint32
}

// Enc accumulates an encoding and its field map.
type Enc struct {
	B      bytes.Buffer
	Fields []Field
}

func (e *Enc) u32(kind string, v uint32) {
	if kind != "" {
		e.Fields = append(e.Fields, Field{e.B.Len(), kind, v})
	}
	var b [4]byte
	binary.LittleEndian.PutUint32(b[:], v)
	e.B.Write(b[:])
}

func (e *Enc) str(kind string, s string) {
	e.u32(kind, uint32(len(s)))
	e.B.WriteString(s)
}

// Encode appends the documented serialization of v (of type t).
func (e *Enc) Encode(t *Type, v interface{}) {
	var b [8]byte
	switch t.K {
	case Bool:
		if v.(bool) {
			e.B.WriteByte(1)
		} else {
			e.B.WriteByte(0)
		}
	case Int8:
		e.B.WriteByte(byte(v.(int8)))
	case Uint8:
		e.B.WriteByte(v.(uint8))
	case Int16:
		binary.LittleEndian.PutUint16(b[:], uint16(v.(int16)))
		e.B.Write(b[:2])
	case Uint16:
		binary.LittleEndian.PutUint16(b[:], v.(uint16))
		e.B.Write(b[:2])
	case Int32:
		binary.LittleEndian.PutUint32(b[:], uint32(v.(int32)))
		e.B.Write(b[:4])
	case Uint32:
		binary.LittleEndian.PutUint32(b[:], v.(uint32))
		e.B.Write(b[:4])
	case Int64:
		binary.LittleEndian.PutUint64(b[:], uint64(v.(int64)))
		e.B.Write(b[:8])
	case Uint64:
		binary.LittleEndian.PutUint64(b[:], v.(uint64))
		e.B.Write(b[:8])
	case Float:
		binary.LittleEndian.PutUint32(b[:], math.Float32bits(v.(float32)))
		e.B.Write(b[:4])
	case Double:
		binary.LittleEndian.PutUint64(b[:], math.Float64bits(v.(float64)))
		e.B.Write(b[:8])
	case String:
		e.str("strlen", v.(string))
	case Raw:
		r := v.([]byte)
		e.u32("rawlen", uint32(len(r)))
		e.B.Write(r)
	case Void:
	case Dyn:
		d := v.(DynV)
		e.str("siglen", d.T.Sig())
		e.Encode(d.T, d.V)
	case List:
		l := v.([]interface{})
		e.u32("count", uint32(len(l)))
		for _, x := range l {
			e.Encode(t.Elem, x)
		}
	case Map:
		m := v.([]KV)
		e.u32("count", uint32(len(m)))
		for _, kv := range m {
			e.Encode(t.Key, kv.K)
			e.Encode(t.Elem, kv.V)
		}
	case Tuple, Struct:
		tu := v.(Tup)
		for i, m := range t.Mem {
			e.Encode(m, tu[i])
		}
	case Object:
		e.Encode(ObjectRefType, v)
	default:
		panic(fmt.Sprintf("refcodec: cannot encode kind %d", t.K))
	}
}

// Encode returns the documented serialization of v.
func Encode(t *Type, v interface{}) []byte {
	var e Enc
	e.Encode(t, v)
	return e.B.Bytes()
}

// EncodeFields returns the serialization and its field map.
func EncodeFields(t *Type, v interface{}) ([]byte, []Field) {
	var e Enc
	e.Encode(t, v)
	return e.B.Bytes(), e.Fields
}

// Dec decodes from a byte slice.
type Dec struct {
	B   []byte
	Off int
	// SigParser parses the signature of a nested dynamic value.
	SigParser func(string) (*Type, error)
}

func (d *Dec) take(n int) ([]byte, error) {
	if n < 0 || d.Off+n > len(d.B) {
		return nil, fmt.Errorf("short: need %d at %d of %d", n, d.Off, len(d.B))
	}
	b := d.B[d.Off : d.Off+n]
	d.Off += n
	return b, nil
}

func (d *Dec) u32() (uint32, error) {
	b, err := d.take(4)
	if err != nil {
		return 0, err
	}
	return binary.LittleEndian.Uint32(b), nil
}

// Decode reads one value of type t.
func (d *Dec) Decode(t *Type) (interface{}, error) {
	switch t.K {
	case Bool:
		b, err := d.take(1)
		if err != nil {
			return nil, err
		}
		return b[0] != 0, nil
	case Int8:
		b, err := d.take(1)
		if err != nil {
			return nil, err
		}
		return int8(b[0]), nil
	case Uint8:
		b, err := d.take(1)
		if err != nil {
			return nil, err
		}
		return b[0], nil
	case Int16:
		b, err := d.take(2)
		if err != nil {
			return nil, err
		}
		return int16(binary.LittleEndian.Uint16(b)), nil
	case Uint16:
		b, err := d.take(2)
		if err != nil {
			return nil, err
		}
		return binary.LittleEndian.Uint16(b), nil
	case Int32:
		b, err := d.take(4)
		if err != nil {
			return nil, err
		}
		return int32(binary.LittleEndian.Uint32(b)), nil
	case Uint32:
		b, err := d.take(4)
		if err != nil {
			return nil, err
		}
		return binary.LittleEndian.Uint32(b), nil
	case Int64:
		b, err := d.take(8)
		if err != nil {
			return nil, err
		}
		return int64(binary.LittleEndian.Uint64(b)), nil
	case Uint64:
		b, err := d.take(8)
		if err != nil {
			return nil, err
		}
		return binary.LittleEndian.Uint64(b), nil
	case Float:
		b, err := d.take(4)
		if err != nil {
			return nil, err
		}
		return math.Float32frombits(binary.LittleEndian.Uint32(b)), nil
	case Double:
		b, err := d.take(8)
		if err != nil {
			return nil, err
		}
		return math.Float64frombits(binary.LittleEndian.Uint64(b)), nil
	case String:
		n, err := d.u32()
		if err != nil {
			return nil, err
		}
		b, err := d.take(int(n))
		if err != nil {
			return nil, err
		}
		return string(b), nil
	case Raw:
		n, err := d.u32()
		if err != nil {
			return nil, err
		}
		b, err := d.take(int(n))
		if err != nil {
			return nil, err
		}
		return append([]byte{}, b...), nil
	case Void:
		return VoidV{}, nil
	case Dyn:
		n, err := d.u32()
		if err != nil {
			return nil, err
		}
		b, err := d.take(int(n))
		if err != nil {
			return nil, err
		}
		if d.SigParser == nil {
			d.SigParser = ParseSig
		}
		ct, err := d.SigParser(string(b))
		if err != nil {
			return nil, err
		}
		v, err := d.Decode(ct)
		if err != nil {
			return nil, err
		}
		return DynV{ct, v}, nil
	case List:
		n, err := d.u32()
		if err != nil {
			return nil, err
		}
		if int(n) > len(d.B)-d.Off && sizeMin(t.Elem) > 0 {
			return nil, fmt.Errorf("list count %d exceeds input", n)
		}
		l := make([]interface{}, 0, minInt(int(n), 1<<16))
		for i := uint32(0); i < n; i++ {
			x, err := d.Decode(t.Elem)
			if err != nil {
				return nil, err
			}
			l = append(l, x)
		}
		return l, nil
	case Map:
		n, err := d.u32()
		if err != nil {
			return nil, err
		}
		if int(n) > len(d.B)-d.Off && sizeMin(t.Key)+sizeMin(t.Elem) > 0 {
			return nil, fmt.Errorf("map count %d exceeds input", n)
		}
		m := make([]KV, 0, minInt(int(n), 1<<16))
		for i := uint32(0); i < n; i++ {
			k, err := d.Decode(t.Key)
			if err != nil {
				return nil, err
			}
			v, err := d.Decode(t.Elem)
			if err != nil {
				return nil, err
			}
			m = append(m, KV{k, v})
		}
		return m, nil
	case Tuple, Struct:
		tu := make(Tup, len(t.Mem))
		for i, mt := range t.Mem {
			x, err := d.Decode(mt)
			if err != nil {
				return nil, err
			}
			tu[i] = x
		}
		return tu, nil
	case Object:
		return d.Decode(ObjectRefType)
	}
	return nil, fmt.Errorf("cannot decode kind %d", t.K)
}

func minInt(a, b int) int {
	if a < b {
		return a
	}
	return b
}

// sizeMin is the minimum encoded size of a value of type t.
func sizeMin(t *Type) int {
	switch t.K {
	case Bool, Int8, Uint8:
		return 1
	case Int16, Uint16:
		return 2
	case Int32, Uint32, Float, String, Raw, List, Map:
		return 4
	case Int64, Uint64, Double:
		return 8
	case Dyn:
		return 5
	case Tuple, Struct:
		n := 0
		for _, m := range t.Mem {
			n += sizeMin(m)
		}
		return n
	case Object:
		return sizeMin(ObjectRefType)
	}
	return 0
}

// SizeMin is exported for the engines.
func SizeMin(t *Type) int { return sizeMin(t) }

// Decode decodes exactly one value and reports the bytes consumed.
func Decode(t *Type, data []byte) (interface{}, int, error) {
	d := &Dec{B: data}
	v, err := d.Decode(t)
	return v, d.Off, err
}

// Equal compares two reference values of type t: floats bit-wise, maps as sets of pairs.
func Equal(t *Type, a, b interface{}) bool {
	switch t.K {
	case Float:
		x, ok1 := a.(float32)
		y, ok2 := b.(float32)
		return ok1 && ok2 && math.Float32bits(x) == math.Float32bits(y)
	case Double:
		x, ok1 := a.(float64)
		y, ok2 := b.(float64)
		return ok1 && ok2 && math.Float64bits(x) == math.Float64bits(y)
	case Raw:
		x, ok1 := a.([]byte)
		y, ok2 := b.([]byte)
		return ok1 && ok2 && bytes.Equal(x, y)
	case Void:
		return true
	case Dyn:
		x, ok1 := a.(DynV)
		y, ok2 := b.(DynV)
		return ok1 && ok2 && x.T.Sig() == y.T.Sig() && Equal(x.T, x.V, y.V)
	case List:
		x, ok1 := a.([]interface{})
		y, ok2 := b.([]interface{})
		if !ok1 || !ok2 || len(x) != len(y) {
			return false
		}
		for i := range x {
			if !Equal(t.Elem, x[i], y[i]) {
				return false
			}
		}
		return true
	case Map:
		x, ok1 := a.([]KV)
		y, ok2 := b.([]KV)
		if !ok1 || !ok2 || len(x) != len(y) {
			return false
		}
		// compare as sets: sort both by encoded key
		ex := encodedPairs(t, x)
		ey := encodedPairs(t, y)
		for i := range ex {
			if ex[i] != ey[i] {
				return false
			}
		}
		return true
	case Tuple, Struct:
		x, ok1 := a.(Tup)
		y, ok2 := b.(Tup)
		if !ok1 || !ok2 || len(x) != len(y) || len(x) != len(t.Mem) {
			return false
		}
		for i, m := range t.Mem {
			if !Equal(m, x[i], y[i]) {
				return false
			}
		}
		return true
	case Object:
		return Equal(ObjectRefType, a, b)
	default:
		return a == b
	}
}

func encodedPairs(t *Type, m []KV) []string {
	out := make([]string, len(m))
	for i, kv := range m {
		out[i] = string(Encode(t.Key, kv.K)) + "\x00|\x00" + string(canon(t.Elem, kv.V))
	}
	sort.Strings(out)
	return out
}

// canon is an order-independent encoding (maps sorted) used for set comparison.
func canon(t *Type, v interface{}) []byte {
	switch t.K {
	case Map:
		m := v.([]KV)
		ps := encodedPairs(t, m)
		var b bytes.Buffer
		fmt.Fprintf(&b, "{%d", len(ps))
		for _, p := range ps {
			b.WriteString(p)
		}
		return b.Bytes()
	case List:
		var b bytes.Buffer
		l := v.([]interface{})
		fmt.Fprintf(&b, "[%d", len(l))
		for _, x := range l {
			b.Write(canon(t.Elem, x))
		}
		return b.Bytes()
	case Tuple, Struct:
		var b bytes.Buffer
		for i, m := range t.Mem {
			b.Write(canon(m, v.(Tup)[i]))
		}
		return b.Bytes()
	case Dyn:
		d := v.(DynV)
		return append([]byte(d.T.Sig()+"\x00"), canon(d.T, d.V)...)
	case Object:
		return canon(ObjectRefType, v)
	default:
		return Encode(t, v)
	}
}

// Canon is exported for hashing cases.
func Canon(t *Type, v interface{}) []byte { return canon(t, v) }

// ValOpts bounds the value generator.
type ValOpts struct {
	MaxLen    int    // max container length
	MaxStr    int    // max string length
	Budget    *int   // remaining element budget (shared)
	DynDepth  int    // max nesting of dynamic values
	DynScalar []Kind // leaf kinds allowed inside generated dynamic values
	DynOpts   *GenOpts
	MidStr    *int // if set and positive: remaining number of strings / raw buffers of a length within 4 of a power of two (28 .. 4100 bytes) this value may hold
	LongStr   *int // if set and positive: remaining number of long (4 KiB .. 70 KiB) strings / raw buffers this value may hold
}

// longLens are string / buffer lengths around the sizes at which implementations change strategy.
var longLens = []int{4095, 4096, 4097, 5000, 8191, 8192, 8193, 10000, 16384, 65535, 65536, 65537, 70000}

func (o ValOpts) long(rng *rand.Rand) int {
	if o.LongStr == nil || *o.LongStr <= 0 || rng.Intn(6) != 0 {
		return -1
	}
	*o.LongStr--
	return longLens[rng.Intn(len(longLens))]
}

// mid returns a length within 4 of a power of two between 32 and 4096 (the sizes of scratch buffers),
// or -1.
func (o ValOpts) mid(rng *rand.Rand) int {
	if o.MidStr == nil || *o.MidStr <= 0 || rng.Intn(4) != 0 {
		return -1
	}
	*o.MidStr--
	return 1<<uint(5+rng.Intn(8)) + rng.Intn(9) - 4
}

var edgeI64 = []int64{0, 1, -1, math.MaxInt8, math.MinInt8, math.MaxInt16, math.MinInt16, math.MaxInt32, math.MinInt32, math.MaxInt64, math.MinInt64, 255, 256, 65535, 65536, 0x42dead42}

func genInt(rng *rand.Rand) int64 {
	switch rng.Intn(3) {
	case 0:
		return edgeI64[rng.Intn(len(edgeI64))]
	case 1:
		return int64(rng.Intn(256)) - 128
	default:
		return int64(rng.Uint64())
	}
}

var edgeStr = []string{"", "a", "\x00", "é", "日本語", "a\x00b", "\xff\xfe", "(s)<A,b>", "[m]", "{sm}"}

// GenString generates an edge-biased string.
func GenString(rng *rand.Rand, max int) string {
	switch rng.Intn(4) {
	case 0:
		return edgeStr[rng.Intn(len(edgeStr))]
	case 1:
		n := rng.Intn(max + 1)
		b := make([]byte, n)
		rng.Read(b)
		return string(b)
	default:
		n := rng.Intn(minInt(max, 12) + 1)
		b := make([]byte, n)
		for i := range b {
			b[i] = byte('a' + rng.Intn(26))
		}
		return string(b)
	}
}

// GenValue generates a value of type t.
func GenValue(rng *rand.Rand, t *Type, o ValOpts) interface{} {
	if o.Budget == nil {
		b := 400
		o.Budget = &b
	}
	return genValue(rng, t, o)
}

func genLen(rng *rand.Rand, o ValOpts) int {
	if *o.Budget <= 0 {
		return 0
	}
	var n int
	switch rng.Intn(6) {
	case 0:
		n = 0
	case 1:
		n = 1
	default:
		n = rng.Intn(o.MaxLen + 1)
	}
	if n > *o.Budget {
		n = *o.Budget
	}
	*o.Budget -= n
	return n
}

func genValue(rng *rand.Rand, t *Type, o ValOpts) interface{} {
	switch t.K {
	case Bool:
		return rng.Intn(2) == 1
	case Int8:
		return int8(genInt(rng))
	case Uint8:
		return uint8(genInt(rng))
	case Int16:
		return int16(genInt(rng))
	case Uint16:
		return uint16(genInt(rng))
	case Int32:
		return int32(genInt(rng))
	case Uint32:
		return uint32(genInt(rng))
	case Int64:
		return genInt(rng)
	case Uint64:
		return uint64(genInt(rng))
	case Float:
		switch rng.Intn(6) {
		case 0:
			// includes NaN payloads, infinities, denormals. NaNs are made quiet: a
			// float32 -> float64 -> float32 conversion (which reflect's Float()
			// performs) quiets signalling NaNs in hardware; not demanded.
			f := math.Float32frombits(rng.Uint32())
			if f != f {
				f = math.Float32frombits(math.Float32bits(f) | 0x00400000)
			}
			return f
		case 1:
			return float32(0)
		case 2:
			return float32(math.Inf(-1))
		default:
			return float32(rng.NormFloat64() * 1000)
		}
	case Double:
		switch rng.Intn(6) {
		case 0:
			f := math.Float64frombits(rng.Uint64())
			if f != f {
				f = math.Float64frombits(math.Float64bits(f) | 1<<51)
			}
			return f
		case 1:
			return math.Copysign(0, -1)
		case 2:
			return math.MaxFloat64
		default:
			return rng.NormFloat64() * 1e6
		}
	case String:
		n := o.long(rng)
		if n < 0 {
			n = o.mid(rng)
		}
		if n >= 0 {
			b := make([]byte, n)
			for i := range b {
				b[i] = byte(' ' + rng.Intn(95))
			}
			return string(b)
		}
		return GenString(rng, o.MaxStr)
	case Raw:
		n := o.long(rng)
		if n < 0 {
			n = o.mid(rng)
		}
		if n < 0 {
			n = rng.Intn(o.MaxStr + 1)
		}
		b := make([]byte, n)
		rng.Read(b)
		return b
	case Void:
		return VoidV{}
	case Dyn:
		var ct *Type
		if o.DynDepth <= 0 {
			ks := o.DynScalar
			if len(ks) == 0 {
				ks = AllScalars
			}
			ct = T(ks[rng.Intn(len(ks))])
		} else {
			go2 := GenOpts{Depth: 3, Width: 3, ComparableKeys: true}
			if o.DynOpts != nil {
				go2 = *o.DynOpts
			}
			ct = GenType(rng, go2)
		}
		o2 := o
		o2.DynDepth--
		return DynV{ct, genValue(rng, ct, o2)}
	case List:
		n := genLen(rng, o)
		l := make([]interface{}, n)
		for i := range l {
			l[i] = genValue(rng, t.Elem, o)
		}
		return l
	case Map:
		n := genLen(rng, o)
		m := make([]KV, 0, n)
		seen := map[string]bool{}
		for i := 0; i < n; i++ {
			k := genValue(rng, t.Key, o)
			ck := string(canon(t.Key, k))
			if t.Key.K == Float || t.Key.K == Double {
				// NaN keys are never equal to themselves in Go maps: avoid them
				if f, ok := k.(float32); ok && f != f {
					continue
				}
				if f, ok := k.(float64); ok && f != f {
					continue
				}
			}
			if seen[ck] {
				continue
			}
			seen[ck] = true
			m = append(m, KV{k, genValue(rng, t.Elem, o)})
		}
		return m
	case Tuple, Struct:
		tu := make(Tup, len(t.Mem))
		for i, m := range t.Mem {
			tu[i] = genValue(rng, m, o)
		}
		return tu
	case Object:
		return genValue(rng, ObjectRefType, o)
	}
	panic("refcodec: cannot generate")
}

// Header is the documented 28-byte message header.
type Header struct {
	Magic   uint32
	ID      uint32
	Size    uint32
	Version uint16
	Type    uint8
	Flags   uint8
	Service uint32
	Object  uint32
	Action  uint32
}

// Magic value.
const Magic = 0x42dead42

// Bytes lays the header out as documented: big-endian magic, then little-endian fields.
func (h Header) Bytes() []byte {
	b := make([]byte, 28)
	binary.BigEndian.PutUint32(b[0:], h.Magic)
	binary.LittleEndian.PutUint32(b[4:], h.ID)
	binary.LittleEndian.PutUint32(b[8:], h.Size)
	binary.LittleEndian.PutUint16(b[12:], h.Version)
	b[14] = h.Type
	b[15] = h.Flags
	binary.LittleEndian.PutUint32(b[16:], h.Service)
	binary.LittleEndian.PutUint32(b[20:], h.Object)
	binary.LittleEndian.PutUint32(b[24:], h.Action)
	return b
}

// ParseHeader reads a header laid out as documented.
func ParseHeader(b []byte) Header {
	return Header{
		Magic:   binary.BigEndian.Uint32(b[0:]),
		ID:      binary.LittleEndian.Uint32(b[4:]),
		Size:    binary.LittleEndian.Uint32(b[8:]),
		Version: binary.LittleEndian.Uint16(b[12:]),
		Type:    b[14],
		Flags:   b[15],
		Service: binary.LittleEndian.Uint32(b[16:]),
		Object:  binary.LittleEndian.Uint32(b[20:]),
		Action:  binary.LittleEndian.Uint32(b[24:]),
	}
}

// Frame builds header ‖ payload with Size set.
func Frame(h Header, payload []byte) []byte {
	h.Size = uint32(len(payload))
	return append(h.Bytes(), payload...)
}
