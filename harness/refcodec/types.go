// Package refcodec is an independent model of the documented QiMessaging
// wire format (doc/about-qimessaging.md: Messages, Signatures, Serialization).
// It does not import any qiloop package.
package refcodec

import (
	"fmt"
	"math/rand"
	"strings"
)

// Kind of a type.
type Kind uint8

// Kinds.
const (
	Bool Kind = iota
	Int8
	Uint8
	Int16
	Uint16
	Int32
	Uint32
	Int64
	Uint64
	Float
	Double
	String
	Dyn     // m
	Object  // o
	Unknown // X
	Void    // v
	Raw     // r
	List
	Map
	Tuple
	Struct
)

var scalarSig = map[Kind]string{Bool: "b", Int8: "c", Uint8: "C", Int16: "w", Uint16: "W", Int32: "i", Uint32: "I",
	Int64: "l", Uint64: "L", Float: "f", Double: "d", String: "s", Dyn: "m", Object: "o", Unknown: "X", Void: "v", Raw: "r"}

var scalarIDL = map[Kind]string{Bool: "bool", Int8: "int8", Uint8: "uint8", Int16: "int16", Uint16: "uint16", Int32: "int32", Uint32: "uint32",
	Int64: "int64", Uint64: "uint64", Float: "float32", Double: "float64", String: "str", Dyn: "any", Object: "obj", Unknown: "unknown", Void: "nothing"}

// Type is a node of a signature.
type Type struct {
	K      Kind
	Elem   *Type   // list element, map value
	Key    *Type   // map key
	Mem    []*Type // tuple / struct members
	Name   string  // struct name
	Fields []string
}

// T builds a scalar type.
func T(k Kind) *Type { return &Type{K: k} }

// ListOf builds [e].
func ListOf(e *Type) *Type { return &Type{K: List, Elem: e} }

// MapOf builds {kv}.
func MapOf(k, v *Type) *Type { return &Type{K: Map, Key: k, Elem: v} }

// TupleOf builds (m...).
func TupleOf(m ...*Type) *Type { return &Type{K: Tuple, Mem: m} }

// StructOf builds (m...)<name,fields...>.
func StructOf(name string, fields []string, m ...*Type) *Type {
	return &Type{K: Struct, Mem: m, Name: name, Fields: fields}
}

// Sig prints the signature.
func (t *Type) Sig() string {
	var b strings.Builder
	t.sig(&b)
	return b.String()
}

func (t *Type) sig(b *strings.Builder) {
	switch t.K {
	case List:
		b.WriteByte('[')
		t.Elem.sig(b)
		b.WriteByte(']')
	case Map:
		b.WriteByte('{')
		t.Key.sig(b)
		t.Elem.sig(b)
		b.WriteByte('}')
	case Tuple, Struct:
		b.WriteByte('(')
		for _, m := range t.Mem {
			m.sig(b)
		}
		b.WriteByte(')')
		if t.K == Struct {
			b.WriteByte('<')
			b.WriteString(t.Name)
			for _, f := range t.Fields {
				b.WriteByte(',')
				b.WriteString(f)
			}
			b.WriteByte('>')
		}
	default:
		b.WriteString(scalarSig[t.K])
	}
}

// IDL prints the IDL name of the type (Vec<..>, Map<..,..>, Tuple<..>, struct name).
func (t *Type) IDL() string {
	switch t.K {
	case List:
		return "Vec<" + t.Elem.IDL() + ">"
	case Map:
		return "Map<" + t.Key.IDL() + "," + t.Elem.IDL() + ">"
	case Tuple:
		parts := make([]string, len(t.Mem))
		for i, m := range t.Mem {
			parts[i] = m.IDL()
		}
		return "Tuple<" + strings.Join(parts, ",") + ">"
	case Struct:
		return t.Name
	default:
		return scalarIDL[t.K]
	}
}

// Depth of the type tree.
func (t *Type) Depth() int {
	d := 0
	for _, c := range t.children() {
		if x := c.Depth(); x > d {
			d = x
		}
	}
	return d + 1
}

func (t *Type) children() []*Type {
	switch t.K {
	case List:
		return []*Type{t.Elem}
	case Map:
		return []*Type{t.Key, t.Elem}
	case Tuple, Struct:
		return t.Mem
	}
	return nil
}

// Walk visits every node.
func (t *Type) Walk(f func(*Type)) {
	f(t)
	for _, c := range t.children() {
		c.Walk(f)
	}
}

// Has reports whether any node has kind k.
func (t *Type) Has(k Kind) bool {
	found := false
	t.Walk(func(n *Type) {
		if n.K == k {
			found = true
		}
	})
	return found
}

// Shape is a short structural fingerprint (kinds only), used to count distinct cases.
func (t *Type) Shape() string {
	var b strings.Builder
	t.Walk(func(n *Type) { b.WriteByte("bcCwWiIlLfdsmoXvr[{(S"[n.K]) })
	return b.String()
}

// GenOpts bounds the type generator.
type GenOpts struct {
	Depth          int
	Width          int
	Scalars        []Kind // allowed leaf kinds
	ComparableKeys bool   // map keys restricted to comparable scalar kinds (no float NaN trouble: ints, strings, bool)
	NoTuple        bool
	NoStruct       bool
	NoMap          bool
	TemplateNames  bool
	EmptyStructs   bool              // one named struct in eight has no member at all: ()<Name>
	CaseTwins      bool              // some struct names differ from another one by the case of the first letter only
	StructPool     *StructPool       // shared struct definitions (same name => same definition)
	MaxAnonNest    int               // max directly nested anonymous tuples (0 = unlimited)
	MinTuple       int               // minimum number of tuple members
	BadName        func(string) bool // names to avoid (struct and field names)
}

// AllScalars are the leaf kinds of the grammar usable inside values.
var AllScalars = []Kind{Bool, Int8, Uint8, Int16, Uint16, Int32, Uint32, Int64, Uint64, Float, Double, String}

// KeyKinds are the map key kinds used when ComparableKeys is set.
var KeyKinds = []Kind{Bool, Int8, Uint8, Int16, Uint16, Int32, Uint32, Int64, Uint64, String}

// StructPool hands out struct names so that a name always maps to one definition.
type StructPool struct {
	defs  map[string]*Type
	n     int
	Twins int // names which differ from another one by the case of the first letter only
}

// NewStructPool creates a pool.
func NewStructPool() *StructPool { return &StructPool{defs: map[string]*Type{}} }

// Defs returns the definitions.
func (p *StructPool) Defs() map[string]*Type { return p.defs }

var nameHeads = "ABCDEFGHIJKLMNOPQRSTUVWXYZabcdefghijklmnopqrstuvwxyz"
var nameTails = nameHeads + "0123456789_"

// GenIdent generates an identifier [A-Za-z][0-9a-zA-Z_]*.
func GenIdent(rng *rand.Rand, maxLen int) string {
	n := 1 + rng.Intn(maxLen)
	b := make([]byte, n)
	b[0] = nameHeads[rng.Intn(len(nameHeads))]
	for i := 1; i < n; i++ {
		b[i] = nameTails[rng.Intn(len(nameTails))]
	}
	return string(b)
}

// GenType generates a random type.
func GenType(rng *rand.Rand, o GenOpts) *Type {
	return genType(rng, o, o.Depth, 0)
}

func genType(rng *rand.Rand, o GenOpts, depth int, anon int) *Type {
	scal := o.Scalars
	if len(scal) == 0 {
		scal = AllScalars
	}
	if depth <= 1 || rng.Intn(10) < 3 {
		return T(scal[rng.Intn(len(scal))])
	}
	for {
		switch rng.Intn(4) {
		case 0:
			return ListOf(genType(rng, o, depth-1, 0))
		case 1:
			if o.NoMap {
				continue
			}
			var k *Type
			if o.ComparableKeys {
				k = T(KeyKinds[rng.Intn(len(KeyKinds))])
			} else {
				k = genType(rng, o, depth-1, 0)
			}
			return MapOf(k, genType(rng, o, depth-1, 0))
		case 2:
			if o.NoTuple {
				continue
			}
			if o.MaxAnonNest > 0 && anon >= o.MaxAnonNest {
				continue
			}
			n := o.MinTuple + rng.Intn(o.Width+1-o.MinTuple)
			m := make([]*Type, n)
			for i := range m {
				m[i] = genType(rng, o, depth-1, anon+1)
			}
			return TupleOf(m...)
		case 3:
			if o.NoStruct {
				continue
			}
			if o.StructPool != nil && len(o.StructPool.defs) > 0 && rng.Intn(3) == 0 {
				// reuse an existing definition
				names := make([]string, 0, len(o.StructPool.defs))
				for n := range o.StructPool.defs {
					names = append(names, n)
				}
				sortStrings(names)
				return o.StructPool.defs[names[rng.Intn(len(names))]]
			}
			n := 1 + rng.Intn(o.Width)
			if o.EmptyStructs && rng.Intn(8) == 0 {
				n = 0
			}
			m := make([]*Type, n)
			fields := make([]string, n)
			used := map[string]bool{}
			for i := range m {
				m[i] = genType(rng, o, depth-1, 0)
				for {
					f := GenIdent(rng, 6)
					if o.BadName != nil && o.BadName(f) {
						continue
					}
					if !used[strings.ToLower(f)] {
						used[strings.ToLower(f)] = true
						fields[i] = f
						break
					}
				}
			}
			name := GenIdent(rng, 8)
			for o.BadName != nil && o.BadName(name) {
				name = GenIdent(rng, 8)
			}
			if o.TemplateNames && rng.Intn(4) == 0 {
				name = name + "<" + GenIdent(rng, 6) + ">"
			}
			if o.StructPool != nil {
				o.StructPool.n++
				// the counter makes names unique only if the random part does not end in a digit
				// ("L1"+"2" = "L"+"12"): two different structs of one package must not share a name
				base := GenIdent(rng, 4)
				for (o.BadName != nil && o.BadName(base)) || (base[len(base)-1] >= '0' && base[len(base)-1] <= '9') {
					base = GenIdent(rng, 4)
				}
				name = fmt.Sprintf("%s%d", base, o.StructPool.n)
				if o.TemplateNames && rng.Intn(4) == 0 {
					name = fmt.Sprintf("%s%d<%s>", base, o.StructPool.n, GenIdent(rng, 5))
				} else if o.CaseTwins && len(o.StructPool.defs) > 0 && rng.Intn(3) == 0 {
					// a distinct identifier which differs from an existing name by the case of its first letter only
					names := make([]string, 0, len(o.StructPool.defs))
					for n := range o.StructPool.defs {
						names = append(names, n)
					}
					sortStrings(names)
					n := names[rng.Intn(len(names))]
					twin := strings.ToUpper(n[:1]) + n[1:]
					if twin == n {
						twin = strings.ToLower(n[:1]) + n[1:]
					}
					if _, taken := o.StructPool.defs[twin]; !taken && twin != n && !strings.Contains(n, "<") && (o.BadName == nil || !o.BadName(twin)) {
						name = twin
						o.StructPool.Twins++
					}
				}
				t := StructOf(name, fields, m...)
				o.StructPool.defs[name] = t
				return t
			}
			return StructOf(name, fields, m...)
		}
	}
}

func sortStrings(a []string) {
	for i := 1; i < len(a); i++ {
		for j := i; j > 0 && a[j] < a[j-1]; j-- {
			a[j], a[j-1] = a[j-1], a[j]
		}
	}
}
