package refcodec

import (
	"math/rand"
	"testing"
)

func TestSelf(t *testing.T) {
	rng := rand.New(rand.NewSource(1))
	for i := 0; i < 20000; i++ {
		ty := GenType(rng, GenOpts{Depth: 5, Width: 4, TemplateNames: true, Scalars: append(append([]Kind{}, AllScalars...), Dyn, Raw)})
		p, err := ParseSig(ty.Sig())
		if err != nil || p.Sig() != ty.Sig() {
			t.Fatalf("sig %q: %v", ty.Sig(), err)
		}
		v := GenValue(rng, ty, ValOpts{MaxLen: 5, MaxStr: 20, DynDepth: 2})
		b := Encode(ty, v)
		w, n, err := Decode(ty, b)
		if err != nil || n != len(b) || !Equal(ty, v, w) {
			t.Fatalf("roundtrip %q: %v n=%d len=%d", ty.Sig(), err, n, len(b))
		}
	}
}
