export GOFLAGS=-mod=mod GOPROXY=off GOSUMDB=off GOTOOLCHAIN=local
